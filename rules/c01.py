"""C01 — wire codec: layout tables, writer/reader agreement, framing, obfuscation key schedule."""
from __future__ import annotations
import json
import math
import os
from .common import *
import struct

PRIM = 'protocol/primitives.py'
MSGS = 'protocol/messages.py'
OBF = 'protocol/obfuscation.py'
TABLE = os.path.join(os.path.dirname(os.path.dirname(__file__)), 'tables', 'wire_layout.json')
FAMILIES = {'ServerMessage': 'server', 'PeerInitializationMessage': 'peer-init', 'PeerMessage': 'peer', 'DistributedMessage': 'distributed'}
SCALARS = {'uint8': '<B', 'uint16': '<H', 'uint32': '<I', 'uint64': '<Q', 'int32': '<i', 'boolean': '<?', 'ipaddr': '<4s'}
KNOWN_TYPES = set(SCALARS) | {'string', 'bytearr', 'array'}


def field_call(node: ast.AST) -> Optional[ast.Call]:
    return node if isinstance(node, ast.Call) and call_name(node) == 'field' else None


def fields_of(cls_node: ast.ClassDef) -> list[dict]:
    out = []
    names = []
    for st in cls_node.body:
        if isinstance(st, ast.AnnAssign) and isinstance(st.target, ast.Name) and 'ClassVar' not in unparse(st.annotation):
            fc = field_call(st.value) if st.value is not None else None
            d: dict = {'name': st.target.id, 'type': None, 'subtype': None, 'if_true': None, 'if_false': None, 'optional': False,
                       'has_default': st.value is not None and (fc is None or kw(fc, 'default') is not None or kw(fc, 'default_factory') is not None)}
            if fc is not None:
                md = kw(fc, 'metadata')
                if isinstance(md, ast.Dict):
                    for k, v in zip(md.keys, md.values):
                        key = const(k)
                        if key in ('type', 'subtype'):
                            d[key] = unparse(v)
                        elif key in ('if_true', 'if_false'):
                            d[key] = const(v)
                        elif key == 'optional':
                            d['optional'] = bool(const(v))
            names.append(st.target.id)
            out.append(d)
    for d in out:
        for k in ('if_true', 'if_false'):
            if d[k] is not None:
                d[k] = names.index(d[k]) if d[k] in names else f'?{d[k]}'
    return out


def message_id(cls_node: ast.ClassDef) -> Optional[tuple[str, int]]:
    for st in cls_node.body:
        if isinstance(st, ast.AnnAssign) and isinstance(st.target, ast.Name) and st.target.id == 'MESSAGE_ID' and isinstance(st.value, ast.Call):
            return call_name(st.value), const(st.value.args[0])
    return None


def compress_default(cls_node: ast.ClassDef) -> dict:
    res = {}
    for st in cls_node.body:
        if isinstance(st, FUNC_NODES) and st.name in ('serialize', 'deserialize'):
            a = st.args
            defaults = dict(zip([x.arg for x in a.args][len(a.args) - len(a.defaults):], a.defaults))
            p = 'compress' if st.name == 'serialize' else 'decompress'
            res[st.name] = const(defaults.get(p)) if p in defaults else None
    return res


def extract(eng: Engine) -> dict:
    repo = eng.repo
    out = {'messages': {}, 'records': {}, 'primitives': {}}
    for ci in repo.all_classes():
        if ci.module.rel == MSGS and ci.outer is not None and ci.node.name in ('Request', 'Response'):
            fam = next((FAMILIES[b] for b in ci.outer.bases if b in FAMILIES), None)
            if fam is None:
                continue
            mid = message_id(ci.node)
            out['messages'][ci.name] = {
                'family': fam, 'id_type': mid[0] if mid else None, 'id': mid[1] if mid else None,
                'fields': [{k: v for k, v in f.items() if k != 'name'} for f in fields_of(ci.node)],
                'compress': compress_default(ci.node),
            }
        if ci.module.rel == PRIM and 'ProtocolDataclass' in ci.bases and ci.name != 'MessageDataclass':
            out['records'][ci.name] = [{k: v for k, v in f.items() if k != 'name'} for f in fields_of(ci.node)]
        if ci.module.rel in (PRIM, MSGS) and ci.name in SCALARS or (ci.module.rel == PRIM and ci.name in ('string', 'bytearr', 'array')):
            fmt = None
            for st in ci.node.body:
                if isinstance(st, ast.Assign) and unparse(st.targets[0]) == 'STRUCT' and isinstance(st.value, ast.Call):
                    fmt = const(st.value.args[0])
            out['primitives'][ci.name] = {'struct': fmt, 'base': ci.bases}
    return out


def safe_eval(e: ast.AST, env: dict):
    """Tiny evaluator for pure integer expressions (constants, names from env,
    + - * // %, min, max, ceil, len of env ints). Anything else -> AnalysisError."""
    if isinstance(e, ast.Constant) and isinstance(e.value, (int, float)):
        return e.value
    if isinstance(e, ast.Name) and e.id in env:
        return env[e.id]
    if isinstance(e, ast.Name) and e.id in env.get('__sa__', {}) and env['__sa__'][e.id] is not None:
        return safe_eval(env['__sa__'][e.id], env)
    if isinstance(e, ast.Call) and call_name(e) == 'len' and len(e.args) == 1 and '__payload__' in env and unparse(e.args[0]) in env['__payload__']:
        return env['__len__']
    if isinstance(e, ast.Name) and '__module__' in env:
        d = const_value(None, env['__module__'], e.id)        # module-level constant (e.g. a precomputed rotation table)
        if d is not None:
            return safe_eval(d, {k: v for k, v in env.items() if k.startswith('__') or k == 'KEY_SIZE'})
    if isinstance(e, ast.UnaryOp) and isinstance(e.op, ast.USub):
        return -safe_eval(e.operand, env)
    if isinstance(e, ast.BinOp):
        l, r = safe_eval(e.left, env), safe_eval(e.right, env)
        ops = {ast.Add: lambda: l + r, ast.Sub: lambda: l - r, ast.Mult: lambda: l * r, ast.FloorDiv: lambda: l // r, ast.Mod: lambda: l % r,
               ast.Div: lambda: l / r}
        for k, f in ops.items():
            if isinstance(e.op, k):
                return f()
    if isinstance(e, ast.Call) and call_name(e) in ('min', 'max', 'ceil', 'int') and not e.keywords:
        args = [safe_eval(a, env) for a in e.args]
        return {'min': min, 'max': max, 'ceil': lambda x: math.ceil(x), 'int': lambda x: int(x)}[call_name(e)](*args)
    if isinstance(e, ast.Call) and call_name(e) == 'range' and not e.keywords:
        return range(*[safe_eval(a, env) for a in e.args])
    if isinstance(e, ast.Call) and call_name(e) in ('list', 'reversed', 'tuple') and len(e.args) == 1:
        v = safe_eval(e.args[0], env)
        return list(reversed(v)) if call_name(e) == 'reversed' else list(v)
    if isinstance(e, ast.Subscript) and isinstance(e.slice, ast.Slice):
        v = safe_eval(e.value, env)
        sl = slice(*[None if x is None else safe_eval(x, env) for x in (e.slice.lower, e.slice.upper, e.slice.step)])
        return v[sl]
    raise AnalysisError(f'R-C01-OBFUSC: expression `{unparse(e)}` is outside the constant-folding fragment')


def run(eng: Engine, ck: Check):
    repo = eng.repo
    got = extract(eng)
    pinned = json.load(open(TABLE))
    ck.floor('R-C01-LAYOUT.messages', len(got['messages']), 150)
    ck.floor('R-C01-LAYOUT.records', len(got['records']), 8)

    # ---- R-C01-LAYOUT
    nf = 0
    for name, want in pinned['messages'].items():
        have = got['messages'].get(name)
        anchor = repo.find_cls(name, MSGS)
        subj = anchor or MSGS
        if have is None:
            ck.ob('R-C01-LAYOUT', f'{MSGS}:{name}', f'src/aioslsk/{MSGS}', f'{name} still exists with its pinned layout', False, 'message class disappeared',
                  construct=f'{name} exists')
            continue
        ok_id = (have['family'], have['id_type'], have['id']) == (want['family'], want['id_type'], want['id'])
        ck.ob('R-C01-LAYOUT', anchor, anchor.node, f'{name}: message code {want["id_type"]}({want["id"]:#x}) in family {want["family"]}', ok_id,
              f'now {have["id_type"]}({have["id"]}) in {have["family"]}: peers dispatch on this code', construct=f'{name} code')
        same_len = len(have['fields']) == len(want['fields'])
        ck.ob('R-C01-LAYOUT', anchor, anchor.node, f'{name}: {len(want["fields"])} fields on the wire', same_len, f'now {len(have["fields"])} fields', construct=f'{name} field count')
        for i, (w, h) in enumerate(zip(want['fields'], have['fields'])):
            nf += 1
            diff = {k: (w[k], h[k]) for k in ('type', 'subtype', 'if_true', 'if_false', 'optional') if w[k] != h[k]}
            ck.ob('R-C01-LAYOUT', anchor, anchor.node, f'{name} field #{i}: {w["type"]}{"[" + w["subtype"] + "]" if w["subtype"] else ""}'
                  f'{" if #" + str(w["if_true"]) if w["if_true"] is not None else ""}{" unless #" + str(w["if_false"]) if w["if_false"] is not None else ""}'
                  f'{" optional" if w["optional"] else ""}', not diff, f'changed (pinned, now): {diff}: the bytes other clients send/expect no longer match',
                  construct=f'{name} field {i}')
        ck.ob('R-C01-LAYOUT', anchor, anchor.node, f'{name}: compression default {want["compress"] or "none"}', have['compress'] == want['compress'],
              f'now {have["compress"]}', construct=f'{name} compression')
    for name in got['messages']:
        if name not in pinned['messages']:
            ck.note(f'new message class not in the pinned table (not a violation): {name}')
    for name, want in pinned['records'].items():
        have = got['records'].get(name)
        anchor = repo.find_cls(name, PRIM)
        if have is None:
            ck.ob('R-C01-LAYOUT', f'{PRIM}:{name}', f'src/aioslsk/{PRIM}', f'record {name} exists', False, 'disappeared', construct=f'{name} exists')
            continue
        for i, (w, h) in enumerate(zip(want, have)):
            nf += 1
            diff = {k: (w[k], h[k]) for k in ('type', 'subtype', 'if_true', 'if_false', 'optional') if w[k] != h[k]}
            ck.ob('R-C01-LAYOUT', anchor, anchor.node, f'record {name} field #{i}: {w["type"]}', not diff, f'{diff}', construct=f'{name} field {i}')
        ck.ob('R-C01-LAYOUT', anchor, anchor.node, f'record {name}: {len(want)} fields', len(want) == len(have), f'now {len(have)}', construct=f'{name} field count')
    for name, want in pinned['primitives'].items():
        have = got['primitives'].get(name)
        anchor = repo.find_cls(name, PRIM)
        ck.ob('R-C01-LAYOUT', anchor or f'{PRIM}:{name}', (anchor.node if anchor else f'src/aioslsk/{PRIM}'), f'primitive {name}: struct format {want["struct"]!r}',
              have is not None and have['struct'] == want['struct'], f'now {have["struct"] if have else None!r}: width, signedness or byte order changed',
              construct=f'primitive {name}')
    ck.floor('R-C01-LAYOUT.fields', nf, 300)

    # ---- R-C01-WELLFORMED
    ids: dict[tuple, list[str]] = {}
    for name, m in got['messages'].items():
        anchor = repo.find_cls(name, MSGS)
        direction = name.split('.')[-1]
        ids.setdefault((m['family'], direction, m['id']), []).append(name)
        fs = m['fields']
        seen_opt = False
        for i, f in enumerate(fs):
            problems = []
            t = f['type']
            if t is None:
                problems.append("no 'type' in metadata")
            elif t not in KNOWN_TYPES and t not in got['records'] and not t.startswith('_'):
                problems.append(f'unknown wire type {t}')
            if (t == 'array') != (f['subtype'] is not None):
                problems.append("'subtype' present iff type is array")
            for k in ('if_true', 'if_false'):
                if f[k] is not None:
                    if not isinstance(f[k], int) or f[k] >= i:
                        problems.append(f'{k} must name an EARLIER field')
                    elif fs[f[k]]['type'] != 'boolean':
                        problems.append(f'{k} must point at a boolean field')
                    if not f['has_default']:
                        problems.append('conditional field needs a default')
            if f['optional']:
                seen_opt = True
                if not f['has_default']:
                    problems.append('optional field needs a default')
            elif seen_opt and f['if_true'] is None and f['if_false'] is None:
                problems.append('a mandatory field follows an optional one (reader decides by "bytes left")')
            if problems:
                ck.ob('R-C01-WELLFORMED', anchor, anchor.node, f'{name} field #{i} is well-formed for the generic driver', False, '; '.join(problems), construct=f'{name} field {i} wellformed')
        want_w = 'uint8' if m['family'] in ('peer-init', 'distributed') else 'uint32'
        ok = m['id_type'] == want_w or name == 'DistributedServerSearchRequest.Request'
        ck.ob('R-C01-WELLFORMED', anchor, anchor.node, f'{name}: MESSAGE_ID width matches what the {m["family"]} dispatcher reads ({want_w})', ok, f'{m["id_type"]}', construct=f'{name} id width')
        comp = m['compress']
        if comp:
            ck.ob('R-C01-WELLFORMED', anchor, anchor.node, f'{name}: serialize and deserialize are both overridden with the same compression default',
                  set(comp) == {'serialize', 'deserialize'} and comp['serialize'] == comp['deserialize'] and comp['serialize'] is True, f'{comp}', construct=f'{name} compress pair')
    for key, names in ids.items():
        if len(names) > 1:
            anchor = repo.find_cls(names[0], MSGS)
            ck.ob('R-C01-WELLFORMED', anchor, anchor.node, f'message code {key[2]:#x} is unique among {key[0]} {key[1]}s (dispatch is a function)', False, f'{names}',
                  construct=f'duplicate id {key}')
    ck.ob('R-C01-WELLFORMED', MSGS, f'src/aioslsk/{MSGS}', 'message codes are unique per (family, direction)', all(len(v) == 1 for v in ids.values()),
          f'{[v for v in ids.values() if len(v) > 1]}', construct='ids unique')
    # dispatchers read the id at offset 4 with the family width and compare with MESSAGE_ID of Request/Response
    for cname, fam in FAMILIES.items():
        ci = repo.cls(cname, MSGS)
        for m in ci.methods.values():
            w = 'uint8' if fam in ('peer-init', 'distributed') else 'uint32'
            side = 'Request' if m.name == 'deserialize_request' else 'Response'
            msgp = [p_ for p_ in m.params if p_ not in ('cls', 'self')][0]
            facts = {}
            rd = pfirst(m.node, f'$_, $id = {w}.deserialize(4, {msgp})')
            facts[f'reads the code as {w} at offset 4'] = rd is not None
            idv = rd[1]['id'] if rd else '?'
            facts[f'looks up the nested {side} class'] = phas(m.node, f"getattr($c, '{side}', $$)") or phas(m.node, f'$c.{side}')
            facts['iterates the direct subclasses'] = phas(m.node, '$_.__subclasses__()')
            cmpn = [n for n, bd in pfind(m.node, f'$r.MESSAGE_ID == {idv}')]
            facts['compares MESSAGE_ID with the code'] = bool(cmpn)
            rets = [n for n in walk_local(m.node) if isinstance(n, ast.Return) and n.value is not None
                    and pat.match(n.value, pat.compile_pattern(f'$r.deserialize(0, {msgp})')[0]) is not None]
            facts['parses the chosen class from offset 0'] = bool(rets) and all(
                any(pol and any(x is e or x in list(ast.walk(e)) for x in cmpn) for e, pol, _ in eng.guards_at(m, r)) for r in rets)
            raises = [n for n in walk_local(m.node) if isinstance(n, ast.Raise) and n.exc is not None and 'UnknownMessageError' in unparse(n.exc)]
            # every way out of the dispatcher is a parse of the matched class or UnknownMessageError
            others = [n for n in walk_local(m.node) if isinstance(n, ast.Return) and n not in rets]
            facts['raises UnknownMessageError when no class matches'] = bool(raises) and not others and not eng.falls_off_end(m)
            bad = [k for k, v in facts.items() if not v]
            ck.ob('R-C01-WELLFORMED', m, m.node, f'{cname}.{m.name} reads the code ({w} at offset 4), picks the {side} class with that MESSAGE_ID, parses from offset 0, '
                  'raises UnknownMessageError otherwise', not bad, f'not established: {bad}', construct=f'{cname}.{m.name} dispatcher')

    # ---- R-C01-PRIMSYM
    def expanded_effects(m):
        """Returned values and expression statements of a small codec method, with single-assignment locals inlined."""
        out = []
        for n in walk_local(m.node):
            if isinstance(n, ast.Return) and n.value is not None:
                out.append(('return', expand_aliases(m, n.value, depth=4)))
            elif isinstance(n, ast.Expr) and not isinstance(n.value, ast.Constant):
                out.append(('expr', expand_aliases(m, n.value, depth=4)))
            elif isinstance(n, ast.AugAssign):
                out.append(('aug', n))
        return out
    OWN = ('self', 'cls', 'type(self)')

    def own_struct(bd, cname):
        return bd.get('c') in OWN + (cname,)
    for name, fmt in SCALARS.items():
        ci = repo.find_cls(name, PRIM)
        if ci is None:
            continue
        for mn in ('serialize', 'serialize_into', 'deserialize'):
            m = ci.methods.get(mn)
            if m is None:
                ck.ob('R-C01-PRIMSYM', ci, ci.node, f'{name}.{mn} exists', False, 'missing', construct=f'{name}.{mn}')
                continue
            if name == 'ipaddr':
                continue
            eff = expanded_effects(m)
            why = ''
            if mn == 'serialize':
                ok = any(k == 'return' and any(own_struct(bd, name) and bd['v'] in ('self', 'int(self)', 'bool(self)')
                                               for _, bd in [(0, pat.match(e, pat.compile_pattern('$c.STRUCT.pack($v)')[0]) or {})]) for k, e in eff)
                why = 'does not return <own class>.STRUCT.pack(self)'
            elif mn == 'serialize_into':
                bufp = [p_ for p_ in m.params if p_ != 'self'][0]
                ok = any(k == 'expr' and any(own_struct(bd, name) and bd['v'] in ('self', 'int(self)', 'bool(self)')
                                             for _, bd in pfind(e, f'{bufp}.extend($c.STRUCT.pack($v))')) for k, e in eff) or \
                    any(k == 'expr' and phas(e, f'{bufp}.extend(self.serialize())') for k, e in eff) or \
                    any(k == 'aug' and isinstance(e.op, ast.Add) and unparse(e.target) == bufp and
                        (phas(e.value, 'self.serialize()') or any(own_struct(bd, name) for _, bd in pfind(e.value, '$c.STRUCT.pack(self)'))) for k, e in eff)
                why = 'does not append <own class>.STRUCT.pack(self) to the buffer'
            else:
                posp, datap = [p_ for p_ in m.params if p_ != 'cls'][:2]
                rets = [e for k, e in eff if k == 'return']
                ok = bool(rets)
                for e in rets:
                    if not (isinstance(e, ast.Tuple) and len(e.elts) == 2):
                        ok = False
                        continue
                    adv = pat.match(e.elts[0], pat.compile_pattern(f'num({posp} + $c.STRUCT.size)')[0])
                    adv_ok = (adv is not None and own_struct(adv, name)) or \
                        (isinstance(e.elts[0], ast.BinOp) and isinstance(e.elts[0].op, ast.Add) and unparse(e.elts[0].left) == posp
                         and const(e.elts[0].right) == struct.calcsize(fmt))
                    val = pat.match(e.elts[1], pat.compile_pattern(f'$c.STRUCT.unpack_from({datap}, {posp})[0]')[0])
                    val_ok = val is not None and own_struct(val, name)
                    if not val_ok:
                        # the same integer read without struct: int.from_bytes(data[pos:pos + size], 'little' [, signed=..]) decodes exactly what the
                        # little-endian one-field formats decode (unsigned for B H I Q, signed=True for b h i q), given the slice has the struct's width
                        v_ = e.elts[1]
                        if isinstance(v_, ast.Call) and unparse(v_.func) == 'int.from_bytes' and len(v_.args) >= 2 and const(v_.args[1]) == 'little' and \
                                isinstance(v_.args[0], ast.Subscript) and unparse(v_.args[0].value) == datap and isinstance(v_.args[0].slice, ast.Slice) and \
                                v_.args[0].slice.step is None and v_.args[0].slice.lower is not None and unparse(v_.args[0].slice.lower) == posp and \
                                v_.args[0].slice.upper is not None and unparse(v_.args[0].slice.upper) == unparse(e.elts[0]) and len(fmt) == 2 and fmt[0] == '<':
                            signed = const(kw(v_, 'signed')) is True
                            val_ok = (fmt[1] in 'BHIQ' and not signed) or (fmt[1] in 'bhiq' and signed)
                    ok = ok and adv_ok and val_ok
                why = 'does not return (pos + STRUCT.size, STRUCT.unpack_from(data, pos)[0]) for its own STRUCT'
            ck.ob('R-C01-PRIMSYM', m, m.node, f'{name}.{mn} uses the class STRUCT ({fmt}); the reader advances by its size', ok, why, construct=f'{name}.{mn} struct')
    ip = repo.cls('ipaddr', PRIM)
    facts = {}
    for mn in ('serialize', 'serialize_into'):
        m = ip.methods.get(mn)
        eff = expanded_effects(m) if m else []
        facts[f'{mn}: the packed address bytes are reversed'] = any(
            phas(e, 'reversed($_.inet_aton(self))') or phas(e, 'reversed(inet_aton(self))') or phas(e, '$_.inet_aton(self)[::-1]') or
            (mn == 'serialize_into' and phas(e, '$_.extend(self.serialize())')) for k, e in eff if k != 'aug')
    m = ip.methods.get('deserialize')
    if m is not None:
        posp, datap = [p_ for p_ in m.params if p_ != 'cls'][:2]
        rets = [e for k, e in expanded_effects(m) if k == 'return']
        facts['deserialize: reads 4 bytes at pos, reverses them, advances by 4'] = bool(rets) and all(
            isinstance(e, ast.Tuple) and len(e.elts) == 2 and
            (pat.match(e.elts[0], pat.compile_pattern(f'num({posp} + 4)')[0]) is not None or pat.match(e.elts[0], pat.compile_pattern(f'num({posp} + $c.STRUCT.size)')[0]) is not None) and
            (phas(e.elts[1], '$_.inet_ntoa(bytes(reversed($v)))') or phas(e.elts[1], '$_.inet_ntoa($v[::-1])') or phas(e.elts[1], '$_.inet_ntoa(bytes($v[::-1]))')) and
            (phas(e.elts[1], f'{datap}[{posp}:num({posp} + 4)]') or phas(e.elts[1], f'$c.STRUCT.unpack_from({datap}, {posp})')) for e in rets)
    bad = [k for k, v in facts.items() if not v]
    ck.ob('R-C01-PRIMSYM', ip, ip.node, 'ipaddr: 4 bytes, byte-reversed on both the writer and the reader side', not bad, f'not established: {bad}', construct='ipaddr symmetric')
    for name in ('string', 'bytearr'):
        ci = repo.cls(name, PRIM)
        okw = True
        for mn in ('serialize', 'serialize_into'):
            m = ci.methods[mn]
            lens = [x for x in calls_in(m.node) if call_name(x) == 'uint32' and x.args and
                    isinstance(expand_aliases(m, x.args[0]), ast.Call) and call_name(expand_aliases(m, x.args[0])) == 'len']
            okw = okw and len(lens) == 1
            if len(lens) == 1:
                # the length is taken of exactly the bytes that are written after it (string: the ENCODED bytes, not the characters)
                def norm(e):
                    x_ = expand_aliases(m, e)
                    if isinstance(x_, ast.Call) and call_name(x_) == 'bytes' and len(x_.args) == 1:
                        x_ = x_.args[0]
                    return unparse(x_)
                measured = norm(expand_aliases(m, lens[0].args[0]).args[0])
                bp_ = [p_ for p_ in m.params if p_ != 'self']
                written = [norm(x.args[0]) for x in calls_in(m.node) if call_name(x) == 'extend' and x.args and bp_ and unparse(x.func.value) == bp_[0]] + \
                          [norm(n.value) for n in walk_local(m.node) if isinstance(n, ast.AugAssign) and isinstance(n.op, ast.Add) and bp_ and unparse(n.target) == bp_[0]]
                for r in [n for n in walk_local(m.node) if isinstance(n, ast.Return) and n.value is not None]:
                    v_ = expand_aliases(m, r.value)
                    if isinstance(v_, ast.BinOp) and isinstance(v_.op, ast.Add):
                        written.append(norm(v_.right))
                same = written == [measured]
                if name == 'string':
                    same = same and 'encode(' in measured
                ck.ob('R-C01-PRIMSYM', m, lens[0], f'{name}.{mn}: the length prefix is the length of exactly the bytes written after it', same,
                      f'length of `{measured}`, bytes written `{written}`' + (' — len() of a str counts characters, the wire counts bytes: every non-ASCII string gets a short prefix'
                                                                            if name == 'string' and 'encode(' not in measured else ''), construct=f'{name}.{mn} length of payload')
        d = ci.methods['deserialize']
        posp, datap = [p_ for p_ in d.params if p_ != 'cls'][:2]
        hdr = pfind(d.node, f'$pa, $ln = uint32.deserialize({posp}, {datap})')
        okr = len(hdr) == 1
        ln = None
        if okr:
            pa, ln = hdr[0][1]['pa'], hdr[0][1]['ln']
            endp = pat.compile_pattern(f'num({pa} + {ln})')[0]
            for r in [n for n in walk_local(d.node) if isinstance(n, ast.Return)]:
                first = expand_aliases(d, r.value.elts[0]) if isinstance(r.value, ast.Tuple) else None
                okr = okr and first is not None and pat.match(first, endp) is not None
            sl = [n for n in walk_local(d.node) if isinstance(n, ast.Subscript) and isinstance(n.slice, ast.Slice) and unparse(n.value) == datap]
            okr = okr and len(sl) == 1 and sl[0].slice.lower is not None and sl[0].slice.upper is not None and unparse(sl[0].slice.lower) == pa and \
                pat.match(expand_aliases(d, sl[0].slice.upper), endp) is not None
        ck.ob('R-C01-PRIMSYM', ci, ci.node, f'{name}: uint32 length prefix (= len of the payload) written and read, reader consumes exactly `length` bytes after it',
              okw and okr, f'writer ok: {okw}; reader ok: {okr}', construct=f'{name} length prefix')
        if name == 'string':
            short = [r for r in walk_local(d.node) if isinstance(r, ast.Raise) and any(
                ln is not None and mentions_name(e, ln) and any(call_name(x) == 'len' for x in ast.walk(e) if isinstance(x, ast.Call))
                for e, pol, _ in eng.guards_at(d, r))]
            ck.ob('R-C01-PRIMSYM', ci, ci.node, 'string: a short read is rejected (raise when the slice is not `length` bytes long)', bool(short), '',
                  construct='string short read')
    ar = repo.cls('array', PRIM)
    m = ar.methods['serialize_into']
    bufp, etp = [p_ for p_ in m.params if p_ != 'self'][:2]
    facts = {}
    facts['writer: uint32 count = len(self)'] = phas(m.node, f'uint32(len(self)).serialize_into({bufp})')
    loops = [n for n in walk_local(m.node) if isinstance(n, ast.For) and unparse(n.iter) == 'self' and isinstance(n.target, ast.Name)]
    facts['writer: every element serialised with the element type codec'] = bool(loops) and all(
        phas(l_, f'{l_.target.id}.serialize_into({bufp})') or phas(l_, f'{etp}({l_.target.id}).serialize_into({bufp})') for l_ in loops) and \
        any(phas(l_, f'{etp}({l_.target.id}).serialize_into({bufp})') for l_ in loops)
    d = ar.methods['deserialize']
    posp, datap, detp = [p_ for p_ in d.params if p_ != 'cls'][:3]
    hdr = pfind(d.node, f'{posp}, $n = uint32.deserialize({posp}, {datap})')
    facts['reader: uint32 count'] = len(hdr) == 1
    if hdr:
        nvar = hdr[0][1]['n']
        rl = [n for n in walk_local(d.node) if isinstance(n, ast.For) and pat.match(n.iter, pat.compile_pattern(f'range({nvar})')[0]) is not None]
        ok = len(rl) == 1
        if ok:
            el = [(n, bd) for st in rl[0].body for n, bd in pfind(st, f'{posp}, $item = $f({posp}, {datap})')]
            ok = len(el) == 1 and unparse(expand_aliases(d, ast.parse(el[0][1]['f'], mode='eval').body)) == f'{detp}.deserialize' and \
                phas(rl[0], f"$items.append({el[0][1]['item']})")
        facts['reader: exactly `count` elements parsed with the element type codec, position threaded through'] = ok
    bad = [k for k, v in facts.items() if not v]
    ck.ob('R-C01-PRIMSYM', ar, ar.node, 'array: uint32 count, then `count` elements with the element type codec on both sides', not bad, f'not established: {bad}',
          construct='array codec')

    # ---- R-C01-HANDCODEC
    typ_of_struct = {'I': 'uint32', 'B': 'uint8', 'H': 'uint16', 'Q': 'uint64', 'i': 'int32', '?': 'boolean'}
    for name in ('FileData', 'DirectoryData', 'Attribute'):
        ci = repo.cls(name, PRIM)
        table = [(f['type'], f['subtype']) for f in got['records'][name]]
        for mn in ('deserialize', 'serialize', 'serialize_into'):
            m = ci.methods.get(mn)
            if m is None:
                continue
            ck.visited(m)
            seq = []
            src = unparse(m.node)
            if '_ATTR_STRUCT' in src:
                fmt = None
                for stt in ci.module.tree.body:
                    if isinstance(stt, ast.Assign) and unparse(stt.targets[0]) == '_ATTR_STRUCT':
                        fmt = const(stt.value.args[0])
                seq = [(typ_of_struct.get(ch), None) for ch in (fmt or '')[1:]]
                little = (fmt or '').startswith('<')
                ck.ob('R-C01-HANDCODEC', m, m.node, f'{name}.{mn}: _ATTR_STRUCT is little endian', little, f'{fmt}', construct=f'{name}.{mn} endianness')
            else:
                calls = []
                for x in walk_local(m.node):
                    if isinstance(x, ast.Call) and call_name(x) in ('deserialize', 'serialize', 'serialize_into') and isinstance(x.func, ast.Attribute):
                        r = x.func.value
                        tname = call_name(r) if isinstance(r, ast.Call) else unparse(r)
                        if tname in KNOWN_TYPES:
                            sub = None
                            if tname == 'array':
                                extra = [a for a in x.args if isinstance(a, ast.Name) and a.id[:1].isupper()] + [k.value for k in x.keywords if k.arg == 'element_type']
                                sub = unparse(extra[0]) if extra else None
                            calls.append((getattr(x, 'lineno', 0), getattr(x, 'col_offset', 0), tname, sub))
                seq = [(t, s) for _, _, t, s in sorted(calls)]
            ck.ob('R-C01-HANDCODEC', m, m.node, f'{name}.{mn} (hand-written) handles the fields in table order with the table types {table}', seq == table,
                  f'hand-written sequence {seq}', construct=f'{name}.{mn} agrees with table')

    # ---- R-C01-DRIVER: writer-side and reader-side predicates agree
    # Both field loops are executed abstractly, once per combination of (optional, if_true/if_false, controlling value, value present):
    # does the iteration reach the codec call (`<type>.deserialize(` / `.serialize_into(`) or is the field skipped?  Calls of the class's
    # own helpers are followed, so the verdict does not depend on how the decision is split over helper functions.
    pd = repo.cls('ProtocolDataclass', PRIM)
    wloop_fn, rloop_fn = pd.methods['serialize_into'], pd.methods['deserialize']
    ck.visited(wloop_fn)
    ck.visited(rloop_fn)
    VAL, OBJ, META = 'VAL', 'OBJ', 'META'

    def meta_expr(x: ast.AST, env: dict) -> bool:
        """`x` reads the field's metadata mapping, directly or through a local that was bound to it."""
        return mentions_attr(x, 'metadata') or any(isinstance(n_, ast.Name) and env.get(n_.id) is META for n_ in ast.walk(x))

    class Reach(Exception):
        pass

    class Driver:
        def __init__(self, reader: bool, opt, cond, ctrl, present):
            self.reader, self.opt, self.cond, self.ctrl, self.present = reader, opt, cond, ctrl, present
            self.depth = 0
            self.followed: set[str] = set()

        def is_target(self, x: ast.AST) -> bool:
            if not (isinstance(x, ast.Call) and isinstance(x.func, ast.Attribute)):
                return False
            if x.func.attr not in (('deserialize',) if self.reader else ('serialize_into', 'serialize')):
                return False
            r = unparse(x.func.value)
            return r not in ('self', 'cls', 'super()') and not r.startswith(('self.', 'cls.'))

        def has_target(self, node) -> bool:
            return any(self.is_target(x) for x in ast.walk(node))

        def truthy(self, v, e) -> bool:
            if v is OBJ or v is VAL or v is META:
                raise AnalysisError(f'R-C01-DRIVER: the truth of `{unparse(e)}` is outside the decision-table fragment')
            return bool(v)

        def meta_key(self, e: ast.AST):
            return {'optional': self.opt, 'if_true': self.cond == 'if_true', 'if_false': self.cond == 'if_false'}.get(const(e))

        def ev(self, e: ast.AST, env: dict):
            if isinstance(e, ast.Constant):
                return e.value
            if isinstance(e, ast.Name):
                return env.get(e.id, OBJ)
            if isinstance(e, ast.Attribute) and e.attr == 'metadata':
                return META
            if isinstance(e, ast.UnaryOp) and isinstance(e.op, ast.Not):
                return not self.truthy(self.ev(e.operand, env), e.operand)
            if isinstance(e, ast.BoolOp):
                v = None
                for x in e.values:
                    v = self.ev(x, env)
                    t = self.truthy(v, x)
                    if t != isinstance(e.op, ast.And):
                        return v
                return v
            if isinstance(e, ast.IfExp):
                return self.ev(e.body if self.truthy(self.ev(e.test, env), e.test) else e.orelse, env)
            if isinstance(e, ast.NamedExpr):
                env[e.target.id] = self.ev(e.value, env)
                return env[e.target.id]
            if isinstance(e, ast.Compare) and len(e.ops) == 1:
                op, l, r = e.ops[0], e.left, e.comparators[0]
                if isinstance(op, (ast.In, ast.NotIn)) and meta_expr(r, env) and self.meta_key(l) is not None:
                    return self.meta_key(l) == isinstance(op, ast.In)
                if isinstance(op, (ast.Is, ast.IsNot, ast.Eq, ast.NotEq)) and (is_none_const(r) or is_none_const(l)):
                    v = self.ev(l if is_none_const(r) else r, env)
                    if v is OBJ:
                        raise AnalysisError(f'R-C01-DRIVER: `{unparse(e)}` tests a value the fragment does not track')
                    return (v is None) == isinstance(op, (ast.Is, ast.Eq))
                if isinstance(op, (ast.Lt, ast.LtE, ast.Gt, ast.GtE)):
                    def is_len(x):
                        return isinstance(x, ast.Call) and call_name(x) == 'len' and len(x.args) == 1
                    if is_len(r) and not is_len(l):        # pos < len(message): bytes left;  pos >= len(message): none left
                        return self.present if isinstance(op, ast.Lt) else (not self.present) if isinstance(op, ast.GtE) else self._bad(e)
                    if is_len(l) and not is_len(r):        # len(message) > pos;  len(message) <= pos
                        return self.present if isinstance(op, ast.Gt) else (not self.present) if isinstance(op, ast.LtE) else self._bad(e)
                return OBJ
            if isinstance(e, ast.Subscript) and meta_expr(e.slice, env) and any(
                    isinstance(c_, ast.Constant) and c_.value in ('if_true', 'if_false') for c_ in ast.walk(e.slice)):
                return self.ctrl            # field_map[f.metadata['if_true']]: the controlling field's parsed value
            if isinstance(e, ast.Call):
                nm = call_name(e)
                if nm == 'bool' and len(e.args) == 1:
                    return self.truthy(self.ev(e.args[0], env), e.args[0])
                if nm == 'getattr' and len(e.args) >= 2:
                    if meta_expr(e.args[1], env):
                        return self.ctrl    # the controlling field's value on the object
                    if isinstance(e.args[1], ast.Attribute) and e.args[1].attr == 'name':
                        return VAL if self.present else None      # the field's own value
                if isinstance(e.func, ast.Attribute) and unparse(e.func.value) in ('self', 'cls', 'self.__class__', 'type(self)', 'ProtocolDataclass') and nm in pd.methods:
                    return self.call(pd.methods[nm], e, env)
                return OBJ
            if isinstance(e, ast.Await):
                return self.ev(e.value, env)
            return OBJ

        def _bad(self, e):
            raise AnalysisError(f'R-C01-DRIVER: comparison `{unparse(e)}` is outside the decision-table fragment')

        def call(self, m: FuncInfo, e: ast.Call, env: dict):
            self.depth += 1
            if self.depth > 4:
                raise AnalysisError('R-C01-DRIVER: helper recursion')
            self.followed.add(m.qualname)
            ck.visited(m)
            a = m.node.args
            params = [x.arg for x in a.posonlyargs + a.args]
            decs = [unparse(d_) for d_ in m.node.decorator_list]
            if 'staticmethod' not in decs:
                params = params[1:]
            local = {}
            for p_, v_ in zip(params, e.args):
                local[p_] = self.ev(v_, env)
            for k_ in e.keywords:
                if k_.arg:
                    local[k_.arg] = self.ev(k_.value, env)
            r = self.block(m.node.body, local)
            self.depth -= 1
            if r is not None and r[0] == 'return':
                return r[1]
            return None

        def block(self, stmts, env):
            """-> None (fell through) | ('return', v) | ('continue',) | ('break',);  raises Reach at the codec call."""
            for st in stmts:
                if isinstance(st, ast.Expr) and isinstance(st.value, ast.Constant):
                    continue
                if isinstance(st, (ast.Assign, ast.AnnAssign, ast.Expr, ast.AugAssign)):
                    if self.has_target(st):
                        raise Reach()
                    if isinstance(st, ast.Assign) and len(st.targets) == 1 and isinstance(st.targets[0], ast.Name):
                        env[st.targets[0].id] = self.ev(st.value, env)
                    elif isinstance(st, ast.AnnAssign) and isinstance(st.target, ast.Name) and st.value is not None:
                        env[st.target.id] = self.ev(st.value, env)
                    elif isinstance(st, ast.Expr):
                        self.ev(st.value, env)
                    else:
                        for t_ in ast.walk(st):
                            if isinstance(t_, ast.Name) and isinstance(t_.ctx, ast.Store):
                                env[t_.id] = OBJ
                    continue
                if isinstance(st, ast.If):
                    try:
                        t = self.truthy(self.ev(st.test, env), st.test)
                    except AnalysisError:
                        # an undecidable test (the kind of type): fine if every branch reaches the codec call
                        def all_reach(s):
                            if not s.orelse:
                                return False
                            return all(self.has_target(ast.Module(b_, [])) and (not (len(b_) == 1 and isinstance(b_[0], ast.If)) or all_reach(b_[0])) for b_ in (s.body, s.orelse))
                        if all_reach(st):
                            raise Reach()
                        raise
                    r = self.block(st.body if t else st.orelse, env)
                    if r is not None:
                        return r
                    continue
                if isinstance(st, ast.Try):
                    r = self.block(st.body, env)          # the handlers turn a missing table entry into an error: not a skip
                    if r is None and st.orelse:
                        r = self.block(st.orelse, env)
                    if r is not None:
                        return r
                    if st.finalbody:
                        r = self.block(st.finalbody, env)
                        if r is not None:
                            return r
                    continue
                if isinstance(st, ast.Return):
                    return ('return', self.ev(st.value, env) if st.value is not None else None)
                if isinstance(st, ast.Continue):
                    return ('continue',)
                if isinstance(st, ast.Break):
                    return ('break',)
                if isinstance(st, ast.Pass):
                    continue
                if isinstance(st, ast.Raise):
                    return ('raise',)
                raise AnalysisError(f'R-C01-DRIVER: statement `{unparse(st)[:50]}` not understood')
            return None

    def field_loop(fn: FuncInfo):
        loops = [n for n in walk_local(fn.node) if isinstance(n, ast.For) and (mentions_attr(n.iter, '_CACHED_FIELDS') or
                                                                               (isinstance(n.iter, ast.Name) and local_mirrors_attr(fn, n.iter.id, '_CACHED_FIELDS')))]
        if len(loops) != 1:
            raise AnalysisError(f'R-C01-DRIVER: {fn.qualname} has {len(loops)} loops over _CACHED_FIELDS (expected 1)')
        return loops[0]

    def decision(fn: FuncInfo, reader: bool):
        loop = field_loop(fn)
        rows = {}
        for opt in (False, True):
            for cond in (None, 'if_true', 'if_false'):
                for ctrl in (False, True):
                    for present in (False, True):     # value is not None / bytes left
                        d_ = Driver(reader, opt, cond, ctrl, present)
                        try:
                            r = d_.block(loop.body, {})
                            if r is None:
                                raise AnalysisError(f'R-C01-DRIVER: an iteration of the field loop in {fn.qualname} ends without the codec call and without `continue`')
                            rows[(opt, cond, ctrl, present)] = False if r[0] in ('continue', 'break') else r[0]
                        except Reach:
                            rows[(opt, cond, ctrl, present)] = True
                        ck.extra.setdefault('driver_helpers_followed', set()).update(d_.followed)
        return rows
    W, R = decision(wloop_fn, False), decision(rloop_fn, True)
    ck.extra['driver_helpers_followed'] = sorted(ck.extra.get('driver_helpers_followed', ()))
    wr = wloop_fn
    bad = []
    for k in W:
        opt, cond, ctrl, present = k
        # admitted combinations: a non-optional field always has a value; an optional field's "present" is value-not-None on the writer
        # side and bytes-left on the reader side (the wire agrees when the writer emitted it)
        if not opt and not present:
            continue
        if W[k] != R[k]:
            bad.append((k, W[k], R[k]))
    ck.ob('R-C01-DRIVER', wr, wr.node, 'for every admitted combination of (optional, if_true/if_false, controlling value, value present) a field is emitted by the '
          'writer iff it is parsed by the reader (48-row decision tables: both field loops executed abstractly, helpers followed)', not bad,
          f'disagreements (optional, condition, controlling value, present) -> writer emits / reader parses: {bad[:4]}', construct='driver predicates agree')
    ck.extra['driver_table_rows'] = len(W)

    # ---- R-C01-FRAME
    md = repo.cls('MessageDataclass', PRIM)
    msi = md.methods['serialize_into']
    bufp = [p_ for p_ in msi.params if p_ != 'self'][0]

    def pos_of(n):
        return (n.lineno, n.col_offset)
    lenc = pfind(msi.node, f'uint32(num(len($id) + len($body))).serialize_into({bufp})')
    facts = {}
    facts['length prefix = uint32(len(code) + len(body)) written to the buffer'] = len(lenc) == 1
    if len(lenc) == 1:
        n_len, bd = lenc[0]
        idv, bodyv = bd['id'], bd['body']
        sa_ = single_assignments(msi)
        # which of the two is the code: the one that is MESSAGE_ID.serialize()
        if not (idv in sa_ and sa_[idv] is not None and phas(sa_[idv], 'self.MESSAGE_ID.serialize()')):
            idv, bodyv = bodyv, idv
        facts['the code is self.MESSAGE_ID serialised with its own width'] = idv in sa_ and sa_[idv] is not None and phas(sa_[idv], 'self.MESSAGE_ID.serialize()')
        facts['the body is what the field driver produced'] = any(
            isinstance(x.func, ast.Attribute) and x.func.attr == 'serialize_into' and isinstance(x.func.value, ast.Call) and call_name(x.func.value) == 'super'
            and x.args and unparse(x.args[0]) == bodyv for x in calls_in(msi.node))
        ext = [(n, bd2['x']) for n, bd2 in pfind(msi.node, f'{bufp}.extend($x)')] + \
              [(n, unparse(n.value)) for n in walk_local(msi.node) if isinstance(n, ast.AugAssign) and isinstance(n.op, ast.Add) and unparse(n.target) == bufp]
        order = [x for n, x in sorted(ext, key=lambda t: pos_of(t[0])) if pos_of(n) > pos_of(n_len)]
        facts['after the length exactly the code and then the body are appended'] = order == [idv, bodyv] and len(ext) == 2
        comp = [n for n in walk_local(msi.node) if isinstance(n, ast.Assign) and unparse(n.targets[0]) == bodyv and any(
            isinstance(y_, ast.Call) and unparse(y_.func) == 'zlib.compress' and y_.args and mentions_name(y_.args[0], bodyv) for y_ in ast.walk(expand_aliases(msi, n.value)))]
        facts['compression (when requested) replaces the body before the length is computed'] = len(comp) == 1 and pos_of(comp[0]) < pos_of(n_len) and \
            any(pol and unparse(e) in [p_ for p_ in msi.params] for e, pol, _ in eng.guards_at(msi, comp[0]))
    bad = [k for k, v in facts.items() if not v]
    ck.ob('R-C01-FRAME', msi, msi.node, 'the length prefix is len(code) + len(body), followed by exactly those bytes; compression happens before the length is computed',
          not bad, f'not established: {bad}', construct='frame length')
    mde = md.methods['deserialize']
    posp, msgp = [p_ for p_ in mde.params if p_ != 'cls'][:2]
    facts = {}
    rd = pfind(mde.node, f'{posp}, $id = type(cls.MESSAGE_ID).deserialize({posp}, {msgp})')
    facts['the code is read with the width of the class MESSAGE_ID'] = len(rd) == 1
    if rd:
        idv = rd[0][1]['id']
        facts['a code different from MESSAGE_ID is rejected (raise)'] = any(
            any(pat.match(e, pat.compile_pattern(f'{idv} == cls.MESSAGE_ID')[0]) is not None and not pol or
                pat.match(e, pat.compile_pattern(f'{idv} != cls.MESSAGE_ID')[0]) is not None and pol for e, pol, _ in eng.guards_at(mde, r))
            for r in walk_local(mde.node) if isinstance(r, ast.Raise))
    facts['the rest of the frame is decompressed when requested'] = phas(mde.node, f'zlib.decompress({msgp}[{posp}:])')
    bad = [k for k, v in facts.items() if not v]
    ck.ob('R-C01-FRAME', mde, mde.node, 'the reader checks the code against MESSAGE_ID (with its width) and decompresses the rest', not bad, f'not established: {bad}',
          construct='frame reader')
    enc = eng.func(CONN, 'DataConnection.encode_message_data')
    dec = eng.func(CONN, 'DataConnection.decode_message_data')
    for f, call_, what in ((enc, 'encode', 'obfuscation.encode'), (dec, 'decode', 'obfuscation.decode')):
        xs = [x for x in calls_in(f.node) if unparse(x.func) == what]
        ok = len(xs) == 1 and [(unparse(e), pol) for e, pol, _ in eng.guards_at(f, xs[0])] == [('self.obfuscated', True)]
        ck.ob('R-C01-FRAME', f, f.node, f'{f.name}: {what} is applied iff the connection is obfuscated', ok, '', construct=f'{f.name} obfuscation guard')
    c = eng.cfg(dec)
    dn = [n for x in calls_in(dec.node) if unparse(x.func) == 'obfuscation.decode' for n in c.nodes_for(x)]
    pn = [n for x in calls_on(dec.node, 'deserialize_message') for n in c.nodes_for(x)]
    ck.ob('R-C01-FRAME', dec, dec.node, 'de-obfuscation precedes parsing', bool(dn) and bool(pn) and dn[0].id < pn[0].id, '', construct='decode order')
    c = eng.cfg(enc)
    en = [n for x in calls_in(enc.node) if unparse(x.func) == 'obfuscation.encode' for n in c.nodes_for(x)]
    sn = [n for x in calls_on(enc.node, 'serialize_message') for n in c.nodes_for(x)]
    ck.ob('R-C01-FRAME', enc, enc.node, 'serialisation precedes obfuscation', bool(en) and bool(sn) and sn[0].id < en[0].id, '', construct='encode order')

    from . import defs as _d_obf
    _d_obf.obfuscation_reset_definition(eng, ck, 'R-C01-FRAME', 'encode / decode obfuscate iff `self.obfuscated`: the flag has to mean what the other end does')
    # the bytes of one message reach the stream in one piece: several tasks send on one connection (replies, queued messages, the
    # distributed fan-out) and nothing serialises them but the fact that write() is synchronous
    wsites = [(f_, x) for f_ in repo.all_funcs() if f_.module.rel.startswith('network/') for x in calls_in(f_.node)
              if call_name(x) == 'write' and isinstance(x.func, ast.Attribute) and unparse(x.func.value).endswith('_writer')]
    ck.floor('R-C01-FRAME.write_sites', len(wsites), 1)
    for f_ in {f_ for f_, _ in wsites}:
        ck.visited(f_)
        ws = [x for g_, x in wsites if g_ is f_]
        c = eng.cfg(f_)
        why = ''
        for x in ws:
            lp = next((a_ for a_ in ancestors(x) if isinstance(a_, (ast.For, ast.While, ast.AsyncFor))), None)
            if lp is not None and (isinstance(lp, ast.AsyncFor) or any(isinstance(n_, (ast.Await, ast.AsyncWith, ast.AsyncFor)) for n_ in walk_local(lp))):
                why = f'`{unparse(x)[:50]}` (line {x.lineno}) is repeated in a loop that suspends: another task\'s message can be written between two pieces'
        for x in ws:
            for y in ws:
                if x is not y and c.nodes_for(x) and c.nodes_for(y):
                    s_ = c.suspension_between(c.nodes_for(x)[0], c.nodes_for(y)[0])
                    if s_ is not None:
                        why = f'suspension at line {s_.lineno} between the writes at lines {x.lineno} and {y.lineno}'
        holds_lock = any(isinstance(a_, ast.AsyncWith) and any('lock' in unparse(i_.context_expr).lower() for i_ in a_.items) for x in ws for a_ in ancestors(x))
        ck.ob('R-C01-FRAME', f_, ws[0], f'{f_.name}: the bytes handed over for one message are written without a suspension point in between (or under a write lock): '
              'frames of concurrent senders do not interleave, each length prefix is followed by its own bytes', not why or holds_lock, why, construct=f'{f_.name} single write')

    # ---- R-C01-OBFUSC: the decoder's key table is the encoder's key sequence (constant folding over key_amount = 1..32)
    od = eng.func(OBF, 'decode')
    oe = eng.func(OBF, 'encode')
    rk = eng.func(OBF, 'rotate_key')
    ck.visited(od)
    ck.visited(oe)
    ks = const(const_value(repo, repo.module(OBF), 'KEY_SIZE'))
    rot_default = None
    a = rk.node.args
    for p, dflt in zip(a.args[len(a.args) - len(a.defaults):], a.defaults):
        if p.arg == 'rot_bits':
            rot_default = const(dflt)
    PROTO_ROT = 31       # SoulSeek obfuscation: the key is rotated right by 31 bits (= left by 1) before each 4-byte block, period 32
    enc_rot = None
    delegates = any(call_name(x) == 'decode' for x in calls_in(oe.node))
    for x in calls_in(oe.node):
        if call_name(x) == 'rotate_key':
            enc_rot = const(kw(x, 'rot_bits')) if kw(x, 'rot_bits') is not None else rot_default
            blk = [g for g in expanded_guards(eng, oe, x)]
            per_block = any(pol and pat.match(e, pat.compile_pattern('$i % KEY_SIZE == 0')[0]) is not None for e, pol, _ in blk)
            ck.ob('R-C01-OBFUSC', oe, x, 'the encoder rotates the key once per KEY_SIZE bytes, before using it', per_block, f'{[unparse(e) for e, _, _ in blk]}',
                  construct='encoder rotation cadence')
    if enc_rot is None and not delegates:
        raise AnalysisError('R-C01-OBFUSC: obfuscation.encode neither rotates the key itself nor delegates to decode: idiom not recognised')
    keyp, rotp = rk.params[0], rk.params[1]
    rk_rets = [expand_aliases(rk, n.value, depth=4) for n in walk_local(rk.node) if isinstance(n, ast.Return) and n.value is not None]
    K = f"int.from_bytes({keyp}, 'little')"
    forms = [f"({K} >> {rotp} | {K} << 32 - {rotp} & 4294967295).to_bytes(4, 'little')",
             f"(({K} >> {rotp} | {K} << 32 - {rotp}) & 4294967295).to_bytes(4, 'little')"]
    ok = len(rk_rets) == 1 and any(pat.match(rk_rets[0], pat.compile_pattern(f_)[0]) is not None for f_ in forms)
    ck.ob('R-C01-OBFUSC', rk, rk.node, 'rotate_key is a 32-bit rotate right on the little-endian key', ok,
          f'returns `{unparse(rk_rets[0]) if rk_rets else None}`', construct='rotate_key')
    ck.ob('R-C01-OBFUSC', oe, oe.node, 'KEY_SIZE is 4 and the encoder rotates by 31 bits per block (= rotate left by 1), or applies the decoder\'s key stream',
          ks == 4 and (enc_rot == PROTO_ROT or (enc_rot is None and delegates)), f'KEY_SIZE={ks}, rot={enc_rot}, delegates to decode: {delegates}', construct='encoder constants')
    rcalls = [x for x in calls_in(od.node) if call_name(x) == 'rotate_key']
    ka = single_assignments(od).get('key_amount')
    if len(rcalls) != 1 or ks is None:
        raise AnalysisError('R-C01-OBFUSC: key table construction of obfuscation.decode not recognised (expected one rotate_key call)')
    rot_arg = kw(rcalls[0], 'rot_bits') or (rcalls[0].args[1] if len(rcalls[0].args) > 1 else None)
    binder = None      # the loop / comprehension clause that binds the rotation amount
    table_name = None  # the local that receives the concatenated rotated keys
    if isinstance(rot_arg, ast.Name):
        for anc in ancestors(rcalls[0]):
            if isinstance(anc, ast.For) and isinstance(anc.target, ast.Name) and anc.target.id == rot_arg.id:
                binder = anc
                ext = pfind(anc, 'rotate_key($$)')
                for n, bd in pfind(anc, '$k.extend(rotate_key($$))'):
                    table_name = bd['k']
                for n in walk_local(anc):
                    if isinstance(n, ast.AugAssign) and isinstance(n.op, ast.Add) and phas(n.value, 'rotate_key($$)'):
                        table_name = unparse(n.target)
                break
            if isinstance(anc, (ast.GeneratorExp, ast.ListComp)) and len(anc.generators) == 1 and isinstance(anc.generators[0].target, ast.Name) \
                    and anc.generators[0].target.id == rot_arg.id and anc.elt is rcalls[0]:
                binder = anc.generators[0]
                st_ = enclosing_stmt(anc)
                if isinstance(st_, ast.Assign) and isinstance(st_.targets[0], ast.Name) and \
                        (phas(st_.value, "b''.join($_)") or phas(st_.value, "bytes().join($_)") or phas(st_.value, "bytearray(b''.join($_))") or
                         phas(st_.value, "bytearray().join($_)")):
                    table_name = st_.targets[0].id
                break
            if isinstance(anc, ast.stmt) and not isinstance(anc, ast.For):
                continue
    if binder is None or table_name is None:
        raise AnalysisError('R-C01-OBFUSC: the rotation amount is not bound by a loop/comprehension filling one key table: idiom not recognised')
    loops = [binder]
    sa_dec = single_assignments(od)
    # locals that hold the payload (everything after the key): len() of them is the payload length
    payload_names = {n_.targets[0].id for n_ in walk_local(od.node) if isinstance(n_, ast.Assign) and isinstance(n_.targets[0], ast.Name)
                     and phas(n_.value, f'{od.params[0]}[KEY_SIZE:]')}
    payload_names |= {f'{od.params[0]}[KEY_SIZE:]'}
    rng = loops[0].iter
    bad = []
    for msg_len in list(range(1, 140)) + [255, 256, 257, 1000]:
        env = {'KEY_SIZE': ks, '__sa__': sa_dec, '__len__': msg_len, '__payload__': payload_names, '__module__': od.module}
        table = list(safe_eval(rng, env))
        blocks = math.ceil(msg_len / ks)
        # protocol: block j (0-based) is XOR-ed with the key rotated right (j+1)*31 mod 32 bits
        want = [((j + 1) * PROTO_ROT) % 32 for j in range(min(blocks, 32))]
        stream_ok = bool(table) and all(table[j % len(table)] % 32 == ((j + 1) * PROTO_ROT) % 32 for j in range(blocks))
        if not stream_ok:
            bad.append((msg_len, table[:3] + ['...'] + table[-2:], len(table), len(want)))
    ck.ob('R-C01-OBFUSC', od, rcalls[0], 'for every payload length the decoder\'s key table is the protocol\'s rotation sequence '
          '(31, 30, ..., 0, repeating with period 32 = 128 bytes)', not bad,
          f'first mismatches (payload length, decoder table, its size, expected size): {bad[:3]}', construct='decoder key table == encoder sequence')
    datap = od.params[0]
    sa_d = single_assignments(od)
    xors = pfind(od.node, '$m[$i] ^= $k[$i % $n]')
    nx = len([n for n in walk_local(od.node) if (isinstance(n, ast.AugAssign) or isinstance(n, ast.BinOp)) and isinstance(n.op, ast.BitXor)])
    if not xors:
        # expression form: (b ^ table[i % n] for i, b in enumerate(message))
        for n, bd in pfind(od.node, '$b ^ $k[$i % $n]'):
            comp = next((a_ for a_ in ancestors(n) if isinstance(a_, (ast.GeneratorExp, ast.ListComp))), None)
            if comp is not None and len(comp.generators) == 1 and unparse(comp.generators[0].target) in (f"({bd['i']}, {bd['b']})", f"{bd['i']}, {bd['b']}") \
                    and pat.match(comp.generators[0].iter, pat.compile_pattern('enumerate($m)')[0]) is not None:
                xors.append((n, bd))
    if not xors:
        # pairing form: (b ^ kb for b, kb in zip(message, cycle(table))): cycle(table) yields table[i % len(table)] for i = 0, 1, ..; zip
        # stops with the message
        for n in [n_ for n_ in walk_local(od.node) if isinstance(n_, ast.BinOp) and isinstance(n_.op, ast.BitXor) and isinstance(n_.left, ast.Name) and isinstance(n_.right, ast.Name)]:
            comp = next((a_ for a_ in ancestors(n) if isinstance(a_, (ast.GeneratorExp, ast.ListComp))), None)
            if comp is None or len(comp.generators) != 1 or comp.elt is not n or comp.generators[0].ifs:
                continue
            m_ = pat.match(comp.generators[0].iter, pat.compile_pattern('zip($m, cycle($k))')[0]) or \
                pat.match(comp.generators[0].iter, pat.compile_pattern('zip($m, itertools.cycle($k))')[0])
            tg = comp.generators[0].target
            if m_ is not None and isinstance(tg, ast.Tuple) and [unparse(e_) for e_ in tg.elts] in ([n.left.id, n.right.id], [n.right.id, n.left.id]) and \
                    unparse(tg.elts[1]) != unparse(tg.elts[0]):
                xors.append((n, {'k': m_['k'], 'n': f"len({m_['k']})", 'm': m_['m']}))
    ok = len(xors) == 1 and nx == 1
    if ok:
        bd = xors[0][1]
        nexp = sa_d.get(bd['n'])
        ok = (nexp is not None and pat.match(nexp, pat.compile_pattern(f"len({bd['k']})")[0]) is not None) or bd['n'] == f"len({bd['k']})"
        # the key table that is indexed is the one the rotation loop filled
        ok = ok and bd['k'] == table_name
    zips_ = [unparse(x_)[:60] for x_ in calls_in(od.node) if call_name(x_) == 'zip']
    ck.ob('R-C01-OBFUSC', od, od.node, 'the decoder XORs byte i with key-table byte i mod table length (the table filled by the rotation loop)', ok,
          f'{len(xors)} recognised xor of a payload byte with table[i % len(table)] ({nx} xor operations in decode)' +
          (f'; pairing {zips_} without cycle() over the table stops at the end of the table (32 keys = 128 bytes): longer payloads are cut' if zips_ else ''),
          construct='decoder xor')
    if enc_rot is None and delegates:
        ok = True
    else:
        ex = []
        for n in walk_local(oe.node):
            if isinstance(n, ast.BinOp) and isinstance(n.op, ast.BitXor):
                m_ = pat.match(expand_aliases(oe, n), pat.compile_pattern('$k[$i % KEY_SIZE] ^ $b')[0])
                if m_ is not None:
                    ex.append((n, m_))
        rets = [n.value for n in walk_local(oe.node) if isinstance(n, ast.Return) and n.value is not None]
        sa_e = single_assignments(oe)
        ok = len(ex) == 1 and len(rets) == 1 and isinstance(rets[0], ast.BinOp) and isinstance(rets[0].op, ast.Add) and isinstance(rets[0].left, ast.Name) and \
            sa_e.get(rets[0].left.id) is not None and mentions_name(sa_e[rets[0].left.id], ex[0][1]['k']) and rets[0].left.id != ex[0][1]['k']
        if ok:
            # the saved key is taken before the first rotation
            saved = next(n for n in walk_local(oe.node) if isinstance(n, ast.Assign) and unparse(n.targets[0]) == rets[0].left.id)
            rots = [x for x in calls_in(oe.node) if call_name(x) == 'rotate_key']
            ok = all((saved.lineno, saved.col_offset) < (x.lineno, x.col_offset) for x in rots)
    ck.ob('R-C01-OBFUSC', oe, oe.node, 'the encoder XORs byte i with key byte i mod KEY_SIZE and prepends the ORIGINAL key (saved before the first rotation)', ok, '',
          construct='encoder xor')
    keyv = pfind(od.node, f'$key = {datap}[:KEY_SIZE]')
    ok = len(keyv) == 1 and (phas(od.node, f'{datap}[KEY_SIZE:]')) and \
        bool(rcalls[0].args) and unparse(rcalls[0].args[0]) == keyv[0][1]['key']
    ck.ob('R-C01-OBFUSC', od, od.node, 'the decoder takes the key from the first KEY_SIZE bytes and the payload from the rest', ok, '', construct='decoder key position')

    from . import defs as _d01
    _d01.string_decoding_tolerant(eng, ck, 'R-C01-PRIMSYM', 'the reader of the codec accepts what legacy peers write')

    # ---- R-C01-DOC (advisory): second source for the pinned layout
    # The repository ships a hand-written description of the protocol (docs/source/deprecated/MESSAGES.rst).  The pinned table is
    # compared with it: codes and the flat type sequence of every Send / Receive list (tools/doc_xread.py).  The document is known to
    # be imprecise, so every disagreement was read once and is listed with a verdict in tables/doc_xread_triage.json; a disagreement
    # that is NOT listed is reported.  Advisory: a document-only edit must not fail a check about the code.
    import importlib.util as _ilu
    doc_path = os.path.join(os.environ.get('AIOSLSK_REPO') or getattr(repo, 'root', '/repo'), 'docs/source/deprecated/MESSAGES.rst')
    if os.path.exists(doc_path):
        spec = _ilu.spec_from_file_location('doc_xread', os.path.join(os.path.dirname(os.path.dirname(os.path.abspath(__file__))), 'tools', 'doc_xread.py'))
        dx = _ilu.module_from_spec(spec)
        spec.loader.exec_module(dx)
        n_msgs, n_cmp, dis = dx.crossread(os.path.dirname(os.path.dirname(os.path.dirname(os.path.dirname(doc_path)))))
        tri = dx.load_triage()
        new = [(k, kind, txt) for k, kind, txt in dis if f'{k}|{kind}' not in tri]
        ck.extra['doc_crossread'] = {'documented_messages': n_msgs, 'layouts_compared': n_cmp, 'agree': n_cmp - len({k for k, kind, _ in dis if kind not in ('undocumented', 'missing-in-table')}),
                                     'disagreements_triaged': len(dis) - len(new), 'disagreements_new': len(new)}
        ck.ob('R-C01-DOC', PRIM, 'docs/source/deprecated/MESSAGES.rst', f'the pinned wire table agrees with the protocol description shipped with the repository '
              f'({n_cmp} layouts compared) except for the {len(dis) - len(new)} triaged disagreements', not new,
              f'untriaged: {[f"{k} [{kind}]: {txt}" for k, kind, txt in new][:5]}', construct='document cross-read', advisory=True)
    else:
        ck.note('R-C01-DOC: docs/source/deprecated/MESSAGES.rst is not in this tree; cross-read skipped')

