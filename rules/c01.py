"""C01 — wire codec: layout tables, writer/reader agreement, framing, obfuscation key schedule."""
from __future__ import annotations
import json
import math
import os
from .common import *

PRIM = 'protocol/primitives.py'
MSGS = 'protocol/messages.py'
OBF = 'protocol/obfuscation.py'
TABLE = os.path.join(os.path.dirname(os.path.dirname(__file__)), 'tables', 'wire_layout.json')
FAMILIES = {'ServerMessage': 'server', 'PeerInitializationMessage': 'peer-init', 'PeerMessage': 'peer', 'DistributedMessage': 'distributed'}
SCALARS = {'uint8': '<B', 'uint16': '<H', 'uint32': '<I', 'uint64': '<Q', 'int32': '<i', 'boolean': '<?', 'ipaddr': '<4s'}
KNOWN_TYPES = set(SCALARS) | {'string', 'bytearr', 'array'}


def field_call(node: ast.AST) -> Optional[ast.Call]:
    return node if isinstance(node, ast.Call) and call_name(node) == 'field' else None


def fields_of(cls_node: ast.ClassDef) -> list[dict]:
    out = []
    names = []
    for st in cls_node.body:
        if isinstance(st, ast.AnnAssign) and isinstance(st.target, ast.Name) and 'ClassVar' not in unparse(st.annotation):
            fc = field_call(st.value) if st.value is not None else None
            d: dict = {'name': st.target.id, 'type': None, 'subtype': None, 'if_true': None, 'if_false': None, 'optional': False,
                       'has_default': st.value is not None and (fc is None or kw(fc, 'default') is not None or kw(fc, 'default_factory') is not None)}
            if fc is not None:
                md = kw(fc, 'metadata')
                if isinstance(md, ast.Dict):
                    for k, v in zip(md.keys, md.values):
                        key = const(k)
                        if key in ('type', 'subtype'):
                            d[key] = unparse(v)
                        elif key in ('if_true', 'if_false'):
                            d[key] = const(v)
                        elif key == 'optional':
                            d['optional'] = bool(const(v))
            names.append(st.target.id)
            out.append(d)
    for d in out:
        for k in ('if_true', 'if_false'):
            if d[k] is not None:
                d[k] = names.index(d[k]) if d[k] in names else f'?{d[k]}'
    return out


def message_id(cls_node: ast.ClassDef) -> Optional[tuple[str, int]]:
    for st in cls_node.body:
        if isinstance(st, ast.AnnAssign) and isinstance(st.target, ast.Name) and st.target.id == 'MESSAGE_ID' and isinstance(st.value, ast.Call):
            return call_name(st.value), const(st.value.args[0])
    return None


def compress_default(cls_node: ast.ClassDef) -> dict:
    res = {}
    for st in cls_node.body:
        if isinstance(st, FUNC_NODES) and st.name in ('serialize', 'deserialize'):
            a = st.args
            defaults = dict(zip([x.arg for x in a.args][len(a.args) - len(a.defaults):], a.defaults))
            p = 'compress' if st.name == 'serialize' else 'decompress'
            res[st.name] = const(defaults.get(p)) if p in defaults else None
    return res


def extract(eng: Engine) -> dict:
    repo = eng.repo
    out = {'messages': {}, 'records': {}, 'primitives': {}}
    for ci in repo.all_classes():
        if ci.module.rel == MSGS and ci.outer is not None and ci.node.name in ('Request', 'Response'):
            fam = next((FAMILIES[b] for b in ci.outer.bases if b in FAMILIES), None)
            if fam is None:
                continue
            mid = message_id(ci.node)
            out['messages'][ci.name] = {
                'family': fam, 'id_type': mid[0] if mid else None, 'id': mid[1] if mid else None,
                'fields': [{k: v for k, v in f.items() if k != 'name'} for f in fields_of(ci.node)],
                'compress': compress_default(ci.node),
            }
        if ci.module.rel == PRIM and 'ProtocolDataclass' in ci.bases and ci.name != 'MessageDataclass':
            out['records'][ci.name] = [{k: v for k, v in f.items() if k != 'name'} for f in fields_of(ci.node)]
        if ci.module.rel in (PRIM, MSGS) and ci.name in SCALARS or (ci.module.rel == PRIM and ci.name in ('string', 'bytearr', 'array')):
            fmt = None
            for st in ci.node.body:
                if isinstance(st, ast.Assign) and unparse(st.targets[0]) == 'STRUCT' and isinstance(st.value, ast.Call):
                    fmt = const(st.value.args[0])
            out['primitives'][ci.name] = {'struct': fmt, 'base': ci.bases}
    return out


def safe_eval(e: ast.AST, env: dict):
    """Tiny evaluator for pure integer expressions (constants, names from env,
    + - * // %, min, max, ceil, len of env ints). Anything else -> AnalysisError."""
    if isinstance(e, ast.Constant) and isinstance(e.value, (int, float)):
        return e.value
    if isinstance(e, ast.Name) and e.id in env:
        return env[e.id]
    if isinstance(e, ast.UnaryOp) and isinstance(e.op, ast.USub):
        return -safe_eval(e.operand, env)
    if isinstance(e, ast.BinOp):
        l, r = safe_eval(e.left, env), safe_eval(e.right, env)
        ops = {ast.Add: lambda: l + r, ast.Sub: lambda: l - r, ast.Mult: lambda: l * r, ast.FloorDiv: lambda: l // r, ast.Mod: lambda: l % r,
               ast.Div: lambda: l / r}
        for k, f in ops.items():
            if isinstance(e.op, k):
                return f()
    if isinstance(e, ast.Call) and call_name(e) in ('min', 'max', 'ceil', 'int') and not e.keywords:
        args = [safe_eval(a, env) for a in e.args]
        return {'min': min, 'max': max, 'ceil': lambda x: math.ceil(x), 'int': lambda x: int(x)}[call_name(e)](*args)
    if isinstance(e, ast.Call) and call_name(e) == 'range' and not e.keywords:
        return range(*[safe_eval(a, env) for a in e.args])
    if isinstance(e, ast.Call) and call_name(e) in ('list', 'reversed', 'tuple') and len(e.args) == 1:
        v = safe_eval(e.args[0], env)
        return list(reversed(v)) if call_name(e) == 'reversed' else list(v)
    if isinstance(e, ast.Subscript) and isinstance(e.slice, ast.Slice):
        v = safe_eval(e.value, env)
        sl = slice(*[None if x is None else safe_eval(x, env) for x in (e.slice.lower, e.slice.upper, e.slice.step)])
        return v[sl]
    raise AnalysisError(f'R-C01-OBFUSC: expression `{unparse(e)}` is outside the constant-folding fragment')


def run(eng: Engine, ck: Check):
    repo = eng.repo
    got = extract(eng)
    pinned = json.load(open(TABLE))
    ck.floor('R-C01-LAYOUT.messages', len(got['messages']), 150)
    ck.floor('R-C01-LAYOUT.records', len(got['records']), 8)

    # ---- R-C01-LAYOUT
    nf = 0
    for name, want in pinned['messages'].items():
        have = got['messages'].get(name)
        anchor = repo.find_cls(name, MSGS)
        subj = anchor or MSGS
        if have is None:
            ck.ob('R-C01-LAYOUT', f'{MSGS}:{name}', f'src/aioslsk/{MSGS}', f'{name} still exists with its pinned layout', False, 'message class disappeared',
                  construct=f'{name} exists')
            continue
        ok_id = (have['family'], have['id_type'], have['id']) == (want['family'], want['id_type'], want['id'])
        ck.ob('R-C01-LAYOUT', anchor, anchor.node, f'{name}: message code {want["id_type"]}({want["id"]:#x}) in family {want["family"]}', ok_id,
              f'now {have["id_type"]}({have["id"]}) in {have["family"]}: peers dispatch on this code', construct=f'{name} code')
        same_len = len(have['fields']) == len(want['fields'])
        ck.ob('R-C01-LAYOUT', anchor, anchor.node, f'{name}: {len(want["fields"])} fields on the wire', same_len, f'now {len(have["fields"])} fields', construct=f'{name} field count')
        for i, (w, h) in enumerate(zip(want['fields'], have['fields'])):
            nf += 1
            diff = {k: (w[k], h[k]) for k in ('type', 'subtype', 'if_true', 'if_false', 'optional') if w[k] != h[k]}
            ck.ob('R-C01-LAYOUT', anchor, anchor.node, f'{name} field #{i}: {w["type"]}{"[" + w["subtype"] + "]" if w["subtype"] else ""}'
                  f'{" if #" + str(w["if_true"]) if w["if_true"] is not None else ""}{" unless #" + str(w["if_false"]) if w["if_false"] is not None else ""}'
                  f'{" optional" if w["optional"] else ""}', not diff, f'changed (pinned, now): {diff}: the bytes other clients send/expect no longer match',
                  construct=f'{name} field {i}')
        ck.ob('R-C01-LAYOUT', anchor, anchor.node, f'{name}: compression default {want["compress"] or "none"}', have['compress'] == want['compress'],
              f'now {have["compress"]}', construct=f'{name} compression')
    for name in got['messages']:
        if name not in pinned['messages']:
            ck.note(f'new message class not in the pinned table (not a violation): {name}')
    for name, want in pinned['records'].items():
        have = got['records'].get(name)
        anchor = repo.find_cls(name, PRIM)
        if have is None:
            ck.ob('R-C01-LAYOUT', f'{PRIM}:{name}', f'src/aioslsk/{PRIM}', f'record {name} exists', False, 'disappeared', construct=f'{name} exists')
            continue
        for i, (w, h) in enumerate(zip(want, have)):
            nf += 1
            diff = {k: (w[k], h[k]) for k in ('type', 'subtype', 'if_true', 'if_false', 'optional') if w[k] != h[k]}
            ck.ob('R-C01-LAYOUT', anchor, anchor.node, f'record {name} field #{i}: {w["type"]}', not diff, f'{diff}', construct=f'{name} field {i}')
        ck.ob('R-C01-LAYOUT', anchor, anchor.node, f'record {name}: {len(want)} fields', len(want) == len(have), f'now {len(have)}', construct=f'{name} field count')
    for name, want in pinned['primitives'].items():
        have = got['primitives'].get(name)
        anchor = repo.find_cls(name, PRIM)
        ck.ob('R-C01-LAYOUT', anchor or f'{PRIM}:{name}', (anchor.node if anchor else f'src/aioslsk/{PRIM}'), f'primitive {name}: struct format {want["struct"]!r}',
              have is not None and have['struct'] == want['struct'], f'now {have["struct"] if have else None!r}: width, signedness or byte order changed',
              construct=f'primitive {name}')
    ck.floor('R-C01-LAYOUT.fields', nf, 300)

    # ---- R-C01-WELLFORMED
    ids: dict[tuple, list[str]] = {}
    for name, m in got['messages'].items():
        anchor = repo.find_cls(name, MSGS)
        direction = name.split('.')[-1]
        ids.setdefault((m['family'], direction, m['id']), []).append(name)
        fs = m['fields']
        seen_opt = False
        for i, f in enumerate(fs):
            problems = []
            t = f['type']
            if t is None:
                problems.append("no 'type' in metadata")
            elif t not in KNOWN_TYPES and t not in got['records'] and not t.startswith('_'):
                problems.append(f'unknown wire type {t}')
            if (t == 'array') != (f['subtype'] is not None):
                problems.append("'subtype' present iff type is array")
            for k in ('if_true', 'if_false'):
                if f[k] is not None:
                    if not isinstance(f[k], int) or f[k] >= i:
                        problems.append(f'{k} must name an EARLIER field')
                    elif fs[f[k]]['type'] != 'boolean':
                        problems.append(f'{k} must point at a boolean field')
                    if not f['has_default']:
                        problems.append('conditional field needs a default')
            if f['optional']:
                seen_opt = True
                if not f['has_default']:
                    problems.append('optional field needs a default')
            elif seen_opt and f['if_true'] is None and f['if_false'] is None:
                problems.append('a mandatory field follows an optional one (reader decides by "bytes left")')
            if problems:
                ck.ob('R-C01-WELLFORMED', anchor, anchor.node, f'{name} field #{i} is well-formed for the generic driver', False, '; '.join(problems), construct=f'{name} field {i} wellformed')
        want_w = 'uint8' if m['family'] in ('peer-init', 'distributed') else 'uint32'
        ok = m['id_type'] == want_w or name == 'DistributedServerSearchRequest.Request'
        ck.ob('R-C01-WELLFORMED', anchor, anchor.node, f'{name}: MESSAGE_ID width matches what the {m["family"]} dispatcher reads ({want_w})', ok, f'{m["id_type"]}', construct=f'{name} id width')
        comp = m['compress']
        if comp:
            ck.ob('R-C01-WELLFORMED', anchor, anchor.node, f'{name}: serialize and deserialize are both overridden with the same compression default',
                  set(comp) == {'serialize', 'deserialize'} and comp['serialize'] == comp['deserialize'] and comp['serialize'] is True, f'{comp}', construct=f'{name} compress pair')
    for key, names in ids.items():
        if len(names) > 1:
            anchor = repo.find_cls(names[0], MSGS)
            ck.ob('R-C01-WELLFORMED', anchor, anchor.node, f'message code {key[2]:#x} is unique among {key[0]} {key[1]}s (dispatch is a function)', False, f'{names}',
                  construct=f'duplicate id {key}')
    ck.ob('R-C01-WELLFORMED', MSGS, f'src/aioslsk/{MSGS}', 'message codes are unique per (family, direction)', all(len(v) == 1 for v in ids.values()),
          f'{[v for v in ids.values() if len(v) > 1]}', construct='ids unique')
    # dispatchers read the id at offset 4 with the family width and compare with MESSAGE_ID of Request/Response
    for cname, fam in FAMILIES.items():
        ci = repo.cls(cname, MSGS)
        for m in ci.methods.values():
            src = unparse(m.node)
            w = 'uint8' if fam in ('peer-init', 'distributed') else 'uint32'
            side = 'Request' if m.name == 'deserialize_request' else 'Response'
            ok = f'{w}.deserialize(4, message)' in src and f"getattr(msg_class, '{side}', None)" in src and '.MESSAGE_ID == msg_id' in src and \
                '.deserialize(0, message)' in src and 'raise UnknownMessageError' in src and '__subclasses__()' in src
            ck.ob('R-C01-WELLFORMED', m, m.node, f'{cname}.{m.name} reads the code ({w} at offset 4), picks the {side} class with that MESSAGE_ID, parses from offset 0, '
                  'raises UnknownMessageError otherwise', ok, '', construct=f'{cname}.{m.name} dispatcher')

    # ---- R-C01-PRIMSYM
    for name, fmt in SCALARS.items():
        ci = repo.find_cls(name, PRIM)
        if ci is None:
            continue
        for mn in ('serialize', 'serialize_into', 'deserialize'):
            m = ci.methods.get(mn)
            if m is None:
                ck.ob('R-C01-PRIMSYM', ci, ci.node, f'{name}.{mn} exists', False, 'missing', construct=f'{name}.{mn}')
                continue
            src = unparse(m.node)
            if name == 'ipaddr':
                continue
            uses = ('self.STRUCT' in src) or ('cls.STRUCT' in src)
            ok = uses and ('.pack(self)' in src if mn != 'deserialize' else ('unpack_from(data, offset=pos)' in src and 'pos + cls.STRUCT.size' in src))
            ck.ob('R-C01-PRIMSYM', m, m.node, f'{name}.{mn} uses the class STRUCT ({fmt}); the reader advances by its size', ok, src[:120], construct=f'{name}.{mn} struct')
    ip = repo.cls('ipaddr', PRIM)
    srcs = {k: unparse(v.node) for k, v in ip.methods.items()}
    ok = 'reversed(ip_b)' in srcs.get('serialize', '') and 'reversed(ip_b)' in srcs.get('serialize_into', '') and 'reversed(value)' in srcs.get('deserialize', '') and \
        'pos + 4' in srcs.get('deserialize', '') and 'inet_aton' in srcs.get('serialize', '') and 'inet_ntoa' in srcs.get('deserialize', '')
    ck.ob('R-C01-PRIMSYM', ip, ip.node, 'ipaddr: 4 bytes, byte-reversed on both the writer and the reader side', ok, '', construct='ipaddr symmetric')
    for name in ('string', 'bytearr'):
        ci = repo.cls(name, PRIM)
        okw = True
        for mn in ('serialize', 'serialize_into'):
            m = ci.methods[mn]
            lens = [x for x in calls_in(m.node) if call_name(x) == 'uint32' and x.args and
                    isinstance(expand_aliases(m, x.args[0]), ast.Call) and call_name(expand_aliases(m, x.args[0])) == 'len']
            okw = okw and len(lens) == 1
        d = ci.methods['deserialize']
        hdr = [n for n in walk_local(d.node) if isinstance(n, ast.Assign) and isinstance(n.targets[0], ast.Tuple) and
               unparse(n.value) == f'uint32.deserialize({d.params[1]}, {d.params[2]})']
        okr = len(hdr) == 1
        if okr:
            pa, ln = (unparse(t) for t in hdr[0].targets[0].elts)
            for r in [n for n in walk_local(d.node) if isinstance(n, ast.Return)]:
                first = expand_aliases(d, r.value.elts[0]) if isinstance(r.value, ast.Tuple) else None
                okr = okr and first is not None and unparse(first).replace(' ', '') == f'{pa}+{ln}'
            sl = [n for n in walk_local(d.node) if isinstance(n, ast.Subscript) and isinstance(n.slice, ast.Slice) and unparse(n.value) == d.params[2]]
            okr = okr and len(sl) == 1 and unparse(sl[0].slice.lower) == pa and unparse(expand_aliases(d, sl[0].slice.upper)).replace(' ', '') == f'{pa}+{ln}'
        ck.ob('R-C01-PRIMSYM', ci, ci.node, f'{name}: uint32 length prefix (= len of the payload) written and read, reader consumes exactly `length` bytes after it',
              okw and okr, f'writer ok: {okw}; reader ok: {okr}', construct=f'{name} length prefix')
    st = repo.cls('string', PRIM)
    ok = "len(value) != length" in unparse(st.methods['deserialize'].node) and 'raise' in unparse(st.methods['deserialize'].node)
    ck.ob('R-C01-PRIMSYM', st, st.node, 'string: a short read is rejected', ok, '', construct='string short read')
    ar = repo.cls('array', PRIM)
    si, d = unparse(ar.methods['serialize_into'].node), unparse(ar.methods['deserialize'].node)
    ok = 'uint32(len(self)).serialize_into(buffer)' in si and 'uint32.deserialize(pos, data)' in d and 'for _ in range(array_len)' in d and \
        'element_type.deserialize' in d and 'element_type(value).serialize_into(buffer)' in si and 'value.serialize_into(buffer)' in si
    ck.ob('R-C01-PRIMSYM', ar, ar.node, 'array: uint32 count, then `count` elements with the element type codec on both sides', ok, '', construct='array codec')

    # ---- R-C01-HANDCODEC
    typ_of_struct = {'I': 'uint32', 'B': 'uint8', 'H': 'uint16', 'Q': 'uint64', 'i': 'int32', '?': 'boolean'}
    for name in ('FileData', 'DirectoryData', 'Attribute'):
        ci = repo.cls(name, PRIM)
        table = [(f['type'], f['subtype']) for f in got['records'][name]]
        for mn in ('deserialize', 'serialize', 'serialize_into'):
            m = ci.methods.get(mn)
            if m is None:
                continue
            ck.visited(m)
            seq = []
            src = unparse(m.node)
            if '_ATTR_STRUCT' in src:
                fmt = None
                for stt in ci.module.tree.body:
                    if isinstance(stt, ast.Assign) and unparse(stt.targets[0]) == '_ATTR_STRUCT':
                        fmt = const(stt.value.args[0])
                seq = [(typ_of_struct.get(ch), None) for ch in (fmt or '')[1:]]
                little = (fmt or '').startswith('<')
                ck.ob('R-C01-HANDCODEC', m, m.node, f'{name}.{mn}: _ATTR_STRUCT is little endian', little, f'{fmt}', construct=f'{name}.{mn} endianness')
            else:
                calls = []
                for x in walk_local(m.node):
                    if isinstance(x, ast.Call) and call_name(x) in ('deserialize', 'serialize', 'serialize_into') and isinstance(x.func, ast.Attribute):
                        r = x.func.value
                        tname = call_name(r) if isinstance(r, ast.Call) else unparse(r)
                        if tname in KNOWN_TYPES:
                            sub = None
                            if tname == 'array':
                                extra = [a for a in x.args if isinstance(a, ast.Name) and a.id[:1].isupper()] + [k.value for k in x.keywords if k.arg == 'element_type']
                                sub = unparse(extra[0]) if extra else None
                            calls.append((getattr(x, 'lineno', 0), getattr(x, 'col_offset', 0), tname, sub))
                seq = [(t, s) for _, _, t, s in sorted(calls)]
            ck.ob('R-C01-HANDCODEC', m, m.node, f'{name}.{mn} (hand-written) handles the fields in table order with the table types {table}', seq == table,
                  f'hand-written sequence {seq}', construct=f'{name}.{mn} agrees with table')

    # ---- R-C01-DRIVER: writer-side and reader-side predicates agree
    pd = repo.cls('ProtocolDataclass', PRIM)
    wr = pd.methods['_get_value_for_field']
    rd = pd.methods['_field_needs_deserialization']
    ck.visited(wr)
    ck.visited(rd)

    def decision(fn: FuncInfo, reader: bool):
        """Abstractly evaluate the if-chain for every combination of metadata keys / values."""
        rows = {}
        for opt in (False, True):
            for cond in (None, 'if_true', 'if_false'):
                for ctrl in (False, True):
                    for present in (False, True):     # value is not None / bytes left
                        rows[(opt, cond, ctrl, present)] = abstract_run(fn, reader, opt, cond, ctrl, present)
        return rows

    def abstract_run(fn, reader, opt, cond, ctrl, present):
        def truth(e: ast.AST) -> bool:
            s = unparse(e)
            if isinstance(e, ast.UnaryOp) and isinstance(e.op, ast.Not):
                return not truth(e.operand)
            if isinstance(e, ast.Compare) and isinstance(e.ops[0], ast.In) and 'metadata' in s:
                k = const(e.left)
                return {'optional': opt, 'if_true': cond == 'if_true', 'if_false': cond == 'if_false'}[k]
            if isinstance(e, ast.Compare) and isinstance(e.ops[0], ast.Is) and is_none_const(e.comparators[0]):
                return not present
            if isinstance(e, ast.Compare) and isinstance(e.ops[0], ast.Lt) and 'len(message)' in s:
                return present
            if 'field_map[' in s or s in ('other_value', 'bool(other_value)'):
                return ctrl
            raise AnalysisError(f'R-C01-DRIVER: construct `{s}` in {fn.qualname} is outside the decision-table fragment')

        def run_block(stmts):
            for st in stmts:
                if isinstance(st, ast.Expr) and isinstance(st.value, ast.Constant):
                    continue
                if isinstance(st, ast.Assign):
                    continue
                if isinstance(st, ast.If):
                    r = run_block(st.body if truth(st.test) else st.orelse)
                    if r is not None:
                        return r
                    continue
                if isinstance(st, ast.Return):
                    v = st.value
                    if reader:
                        if isinstance(v, ast.Constant):
                            return bool(v.value)
                        return truth(v)
                    if isinstance(v, ast.Constant) and v.value is None:
                        return False
                    if isinstance(v, ast.IfExp):
                        chosen = v.body if truth(v.test) else v.orelse
                        return not (isinstance(chosen, ast.Constant) and chosen.value is None) and present
                    if isinstance(v, ast.Name):
                        return present
                    raise AnalysisError(f'R-C01-DRIVER: return `{unparse(v)}` not understood')
                raise AnalysisError(f'R-C01-DRIVER: statement `{unparse(st)[:50]}` not understood')
            return None
        return run_block(fn.node.body)
    W, R = decision(wr, False), decision(rd, True)
    bad = []
    for k in W:
        opt, cond, ctrl, present = k
        # admitted combinations: a non-optional field always has a value; an optional field's "present" is value-not-None on the writer
        # side and bytes-left on the reader side (the wire agrees when the writer emitted it)
        if not opt and not present:
            continue
        if W[k] != R[k]:
            bad.append((k, W[k], R[k]))
    ck.ob('R-C01-DRIVER', wr, wr.node, 'for every admitted combination of (optional, if_true/if_false, controlling value, value present) a field is emitted by the '
          'writer iff it is parsed by the reader (48-row decision tables read off the two if-chains)', not bad,
          f'disagreements (optional, condition, controlling value, present) -> writer emits / reader parses: {bad[:4]}', construct='driver predicates agree')
    ck.extra['driver_table_rows'] = len(W)

    # ---- R-C01-FRAME
    md = repo.cls('MessageDataclass', PRIM)
    si = unparse(md.methods['serialize_into'].node)
    ok = 'uint32(len(message_id) + len(message)).serialize_into(buffer)' in si and si.index('serialize_into(buffer)') < si.index('buffer.extend(message_id)') < si.index('buffer.extend(message)')
    ck.ob('R-C01-FRAME', md.methods['serialize_into'], md.methods['serialize_into'].node, 'the length prefix is len(code) + len(body), followed by exactly those bytes', ok, '',
          construct='frame length')
    ok = 'message = bytearray(zlib.compress(message))' in si and si.index('zlib.compress') < si.index('uint32(len(message_id) + len(message))')
    ck.ob('R-C01-FRAME', md.methods['serialize_into'], md.methods['serialize_into'].node, 'compression happens before the length is computed', ok, '', construct='compress before length')
    de = unparse(md.methods['deserialize'].node)
    ok = 'type(cls.MESSAGE_ID).deserialize(pos, message)' in de and 'if message_id != cls.MESSAGE_ID' in de and 'raise ValueError' in de and 'zlib.decompress(message[pos:])' in de
    ck.ob('R-C01-FRAME', md.methods['deserialize'], md.methods['deserialize'].node, 'the reader checks the code against MESSAGE_ID (with its width) and decompresses the rest', ok, '',
          construct='frame reader')
    enc = eng.func(CONN, 'DataConnection.encode_message_data')
    dec = eng.func(CONN, 'DataConnection.decode_message_data')
    for f, call_, what in ((enc, 'encode', 'obfuscation.encode'), (dec, 'decode', 'obfuscation.decode')):
        xs = [x for x in calls_in(f.node) if unparse(x.func) == what]
        ok = len(xs) == 1 and [(unparse(e), pol) for e, pol, _ in eng.guards_at(f, xs[0])] == [('self.obfuscated', True)]
        ck.ob('R-C01-FRAME', f, f.node, f'{f.name}: {what} is applied iff the connection is obfuscated', ok, '', construct=f'{f.name} obfuscation guard')
    c = eng.cfg(dec)
    dn = [n for x in calls_in(dec.node) if unparse(x.func) == 'obfuscation.decode' for n in c.nodes_for(x)]
    pn = [n for x in calls_on(dec.node, 'deserialize_message') for n in c.nodes_for(x)]
    ck.ob('R-C01-FRAME', dec, dec.node, 'de-obfuscation precedes parsing', bool(dn) and bool(pn) and dn[0].id < pn[0].id, '', construct='decode order')
    c = eng.cfg(enc)
    en = [n for x in calls_in(enc.node) if unparse(x.func) == 'obfuscation.encode' for n in c.nodes_for(x)]
    sn = [n for x in calls_on(enc.node, 'serialize_message') for n in c.nodes_for(x)]
    ck.ob('R-C01-FRAME', enc, enc.node, 'serialisation precedes obfuscation', bool(en) and bool(sn) and sn[0].id < en[0].id, '', construct='encode order')

    # ---- R-C01-OBFUSC: the decoder's key table is the encoder's key sequence (constant folding over key_amount = 1..32)
    od = eng.func(OBF, 'decode')
    oe = eng.func(OBF, 'encode')
    rk = eng.func(OBF, 'rotate_key')
    ck.visited(od)
    ck.visited(oe)
    ks = const(const_value(repo, repo.module(OBF), 'KEY_SIZE'))
    rot_default = None
    a = rk.node.args
    for p, dflt in zip(a.args[len(a.args) - len(a.defaults):], a.defaults):
        if p.arg == 'rot_bits':
            rot_default = const(dflt)
    PROTO_ROT = 31       # SoulSeek obfuscation: the key is rotated right by 31 bits (= left by 1) before each 4-byte block, period 32
    enc_rot = None
    delegates = any(call_name(x) == 'decode' for x in calls_in(oe.node))
    for x in calls_in(oe.node):
        if call_name(x) == 'rotate_key':
            enc_rot = const(kw(x, 'rot_bits')) if kw(x, 'rot_bits') is not None else rot_default
            blk = [g for g in eng.guards_at(oe, x)]
            per_block = any(pol and unparse(e).replace(' ', '') == 'idx%KEY_SIZE==0' for e, pol, _ in blk)
            ck.ob('R-C01-OBFUSC', oe, x, 'the encoder rotates the key once per KEY_SIZE bytes, before using it', per_block, f'{[unparse(e) for e, _, _ in blk]}',
                  construct='encoder rotation cadence')
    if enc_rot is None and not delegates:
        raise AnalysisError('R-C01-OBFUSC: obfuscation.encode neither rotates the key itself nor delegates to decode: idiom not recognised')
    rksrc = unparse(rk.node)
    ok = 'key_i >> rot_bits | key_i << 32 - rot_bits & 4294967295' in rksrc and "int.from_bytes(key, 'little')" in rksrc and "to_bytes(4, 'little')" in rksrc
    ck.ob('R-C01-OBFUSC', rk, rk.node, 'rotate_key is a 32-bit rotate right on the little-endian key', ok, '', construct='rotate_key')
    ck.ob('R-C01-OBFUSC', oe, oe.node, 'KEY_SIZE is 4 and the encoder rotates by 31 bits per block (= rotate left by 1), or applies the decoder\'s key stream',
          ks == 4 and (enc_rot == PROTO_ROT or (enc_rot is None and delegates)), f'KEY_SIZE={ks}, rot={enc_rot}, delegates to decode: {delegates}', construct='encoder constants')
    loops = [n for n in walk_local(od.node) if isinstance(n, ast.For) and any(call_name(x) == 'rotate_key' for st in n.body for x in calls_in(st))]
    ka = single_assignments(od).get('key_amount')
    if len(loops) != 1 or ks is None:
        raise AnalysisError('R-C01-OBFUSC: key table loop of obfuscation.decode not recognised')
    rot_arg = next((kw(x, 'rot_bits') or (x.args[1] if len(x.args) > 1 else None) for st in loops[0].body for x in calls_in(st) if call_name(x) == 'rotate_key'), None)
    if rot_arg is None or unparse(rot_arg) != unparse(loops[0].target):
        raise AnalysisError('R-C01-OBFUSC: the loop variable is not the rotation amount: idiom not recognised')
    rng = loops[0].iter
    bad = []
    for msg_len in list(range(1, 140)) + [255, 256, 257, 1000]:
        env = {'message_len': msg_len, 'KEY_SIZE': ks}
        if ka is not None:
            env['key_amount'] = safe_eval(ka, env)
        table = list(safe_eval(rng, env))
        blocks = math.ceil(msg_len / ks)
        # protocol: block j (0-based) is XOR-ed with the key rotated right (j+1)*31 mod 32 bits
        want = [((j + 1) * PROTO_ROT) % 32 for j in range(min(blocks, 32))]
        stream_ok = bool(table) and all(table[j % len(table)] % 32 == ((j + 1) * PROTO_ROT) % 32 for j in range(blocks))
        if not stream_ok:
            bad.append((msg_len, table[:3] + ['...'] + table[-2:], len(table), len(want)))
    ck.ob('R-C01-OBFUSC', od, loops[0], 'for every payload length the decoder\'s key table is the protocol\'s rotation sequence '
          '(31, 30, ..., 0, repeating with period 32 = 128 bytes)', not bad,
          f'first mismatches (payload length, decoder table, its size, expected size): {bad[:3]}', construct='decoder key table == encoder sequence')
    idx = [n for n in walk_local(od.node) if isinstance(n, ast.AugAssign) and isinstance(n.op, ast.BitXor)]
    ok = len(idx) == 1 and unparse(idx[0]).replace(' ', '') == 'message[idx]^=full_key[idx%full_key_len]'
    ck.ob('R-C01-OBFUSC', od, od.node, 'the decoder XORs byte i with key-table byte i mod table length', ok, '', construct='decoder xor')
    ok = ("key[idx % KEY_SIZE] ^ byt" in unparse(oe.node) and 'orig_key + bytes(enc_message)' in unparse(oe.node)) or (enc_rot is None and delegates)
    ck.ob('R-C01-OBFUSC', oe, oe.node, 'the encoder XORs byte i with key byte i mod KEY_SIZE and prepends the ORIGINAL key', ok, '', construct='encoder xor')
    ok = 'key = data[:KEY_SIZE]' in unparse(od.node) and 'data[KEY_SIZE:]' in unparse(od.node)
    ck.ob('R-C01-OBFUSC', od, od.node, 'the decoder takes the key from the first KEY_SIZE bytes', ok, '', construct='decoder key position')
