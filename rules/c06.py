"""C06 — after abort/pause/remove nothing more happens; one negotiation per transfer."""
from __future__ import annotations
from .common import *
from .c03 import state_classes, transitions_in

SLOTS = ('_remotely_queue_task', '_transfer_task')
NEGOTIATORS = ('TransferManager._queue_remotely', 'TransferManager._initialize_download',
               'TransferManager._initialize_upload')


def task_slots(eng: Engine) -> list[str]:
    """Attributes of Transfer declared as (Optional) asyncio.Task in __init__."""
    init = eng.func(TMODEL, 'Transfer.__init__')
    out = []
    for n in walk_local(init.node):
        if isinstance(n, ast.AnnAssign) and isinstance(n.target, ast.Attribute) and 'Task' in unparse(n.annotation):
            out.append(n.target.attr)
    return out


def slot_empty_guard(slot: str):
    """Guard atoms establishing that no LIVE task is in the slot: `slot is None`,
    `not slot`, `slot.done()`, `not get_tasks()`, `not any(not t.done() for t in
    get_tasks())`, and the false edge of `slot is not None and not slot.done()`."""
    def quantified_done(e):
        """('any'|'all', negated) for  any(not t.done() for t in ..get_tasks()/slots..)  /  all(t.done() for t in ...)"""
        if not (isinstance(e, ast.Call) and call_name(e) in ('any', 'all') and len(e.args) == 1 and
                isinstance(e.args[0], (ast.GeneratorExp, ast.ListComp)) and len(e.args[0].generators) == 1):
            return None
        g = e.args[0].generators[0]
        if g.ifs or not isinstance(g.target, ast.Name):
            return None
        if not (any(call_name(x) == 'get_tasks' for x in ast.walk(g.iter)) or mentions_attr(g.iter, slot)):
            return None
        elt = e.args[0].elt
        neg = False
        if isinstance(elt, ast.UnaryOp) and isinstance(elt.op, ast.Not):
            neg, elt = True, elt.operand
        if isinstance(elt, ast.Call) and call_name(elt) == 'done' and unparse(elt.func.value) == g.target.id:
            return call_name(e), neg
        return None

    def live_test(e) -> bool:
        # expression that is true iff a live task may be in the slot(s)
        s = unparse(e)
        if isinstance(e, ast.Call) and call_name(e) == 'get_tasks':
            return True
        if quantified_done(e) == ('any', True):
            return True
        if isinstance(e, ast.BoolOp) and isinstance(e.op, ast.And) and mentions_attr(e, slot) and '.done()' in s and 'is not None' in s:
            return True
        return False

    def pred(e, pol):
        if live_test(e):
            return not pol
        if quantified_done(e) == ('all', False):
            return pol          # all(t.done() ...) holds: nothing live
        if not mentions_attr(e, slot):
            return False
        a = cmp_atom(e)
        if a and a[0] == 'is' and (is_none_const(a[2]) or is_none_const(a[1])):
            return pol
        if isinstance(e, ast.Call) and call_name(e) == 'done':
            return pol
        if isinstance(e, ast.Attribute):
            return not pol
        return False
    return pred


def selection_excludes_live(eng: Engine, ck: Check, selector: FuncInfo, slot: str, position: int) -> bool:
    """In the selection function, every append to the result list returned at tuple `position` is guarded by the slot (or all
    task slots) being empty."""
    lists: set[str] = set()
    for r in [n for n in walk_local(selector.node) if isinstance(n, ast.Return) and n.value is not None]:
        v = r.value
        if isinstance(v, ast.Tuple) and position < len(v.elts):
            lists |= names_in(expand_aliases(selector, v.elts[position])) | names_in(v.elts[position])
        elif position == 0:
            lists |= names_in(expand_aliases(selector, v))
    apps = [c for c in calls_in(selector.node) if call_name(c) == 'append' and c.args
            and isinstance(c.func, ast.Attribute) and isinstance(c.func.value, ast.Name) and c.func.value.id in lists]
    if not apps:
        return False
    ok = True
    for a in apps:
        if not any(slot_empty_guard(slot)(e, pol) for e, pol, _ in expanded_guards(eng, selector, a)):
            ok = False
    return ok


def flows_into_slot(eng: Engine, fn: FuncInfo, call: ast.AST, slots) -> tuple[bool, bool]:
    """Does the coroutine object created by `call` end up, wrapped by create_task, in a task slot -- directly or through
    single-use locals, and without a suspension between creating the task and storing its handle?"""
    node = call
    as_task = False
    task_stmt = None
    for _ in range(6):
        par = parent(node)
        if isinstance(par, ast.Call) and call_name(par) == 'create_task' and par.args and par.args[0] is node:
            as_task = True
            node = par
            task_stmt = enclosing_stmt(par)
            continue
        if isinstance(par, ast.Await):
            return False, as_task
        st = enclosing_stmt(node)
        if isinstance(st, ast.Assign) and st.value is node:
            if any(isinstance(t, ast.Attribute) and t.attr in slots for t in st.targets):
                if not as_task:
                    return False, False
                c = eng.cfg(fn)
                a_, b_ = c.nodes_for(task_stmt), c.nodes_for(st)
                susp = c.suspension_between(a_[0], b_[0]) if a_ and b_ and task_stmt is not st else None
                return susp is None, True
            if len(st.targets) == 1 and isinstance(st.targets[0], ast.Name):
                nm = st.targets[0].id
                stores = [n for n in walk_local(fn.node) if isinstance(n, ast.Name) and n.id == nm and isinstance(n.ctx, ast.Store)]
                uses = [n for n in walk_local(fn.node) if isinstance(n, ast.Name) and n.id == nm and isinstance(n.ctx, ast.Load)]
                # the handle may additionally be used for add_done_callback(..) on the local
                flow = [u for u in uses if not (isinstance(parent(u), ast.Attribute) and parent(u).attr == 'add_done_callback')]
                if len(stores) == 1 and len(flow) == 1:
                    node = flow[0]
                    continue
        return False, as_task
    return False, as_task


def run(eng: Engine, ck: Check):
    repo = eng.repo
    slots = task_slots(eng)
    ck.floor('R-C06.slots', len(slots), 2)
    ck.note(f'task slots of Transfer: {slots}')

    # ---- R-C06-SLOT-WRITE
    creating = []
    for slot in slots:
        for f, st, v in eng.stores_to_attr(slot):
            v = expand_aliases(f, v) if v is not None else None
            if v is not None and isinstance(v, ast.Call) and call_name(v) == 'create_task':
                creating.append((slot, f, st, v))
            elif v is not None and not is_none_const(v):
                ck.ob('R-C06-SLOT-WRITE', f, st, f'{slot} is only ever assigned a fresh task or None', False,
                      f'`{unparse(st)[:80]}`', construct=alpha_key(st))
    ck.floor('R-C06-SLOT-WRITE', len(creating), 3)
    for slot, f, st, v in creating:
        ck.visited(f)
        tgt = next(t for t in st.targets if isinstance(t, ast.Attribute))
        owner = unparse(tgt.value)
        witness = eng.unguarded_path(f, st, slot_empty_guard(slot))
        g = None if witness is not None else True
        via_selection = False
        if g is None:
            # the transfer comes out of a loop over the result of a selection function which excludes live handles
            for a in ancestors(st):
                if isinstance(a, (ast.For,)) and isinstance(a.target, ast.Name) and a.target.id == owner:
                    it_ = expand_aliases(f, a.iter)
                    while isinstance(it_, ast.Subscript):      # a slice of the selection is still the selection
                        it_ = expand_aliases(f, it_.value)
                    srcs = names_in(it_)
                    sa = {}
                    for n in walk_local(f.node):
                        if isinstance(n, ast.Assign) and isinstance(n.value, ast.Call):
                            tnames = names_in(n.targets[0])
                            if tnames & srcs:
                                tg = n.targets[0]
                                position = next((i for i, t_ in enumerate(tg.elts) if isinstance(t_, ast.Name) and t_.id in srcs), 0) \
                                    if isinstance(tg, ast.Tuple) else 0
                                for cal in eng.res.callees(n.value, f):
                                    if selection_excludes_live(eng, ck, cal, slot, position):
                                        via_selection = True
                                        ck.visited(cal)
                    c = eng.cfg(f)
        ck.ob('R-C06-SLOT-WRITE', f, st,
              f'a new task is stored in {owner}.{slot} only when the slot is empty (otherwise the running task loses its '
              'only handle and abort/pause can no longer cancel it)', g is not None or via_selection,
              'no dominating `slot is None` guard (without a suspension in between) and the selection that feeds the loop '
              'does not exclude transfers with a live handle', construct=f'{f.qualname}: {owner}.{slot} = create_task')

    from . import defs
    defs.transfer_get_tasks(eng, ck, 'R-C06-CANCEL-ALL', slots)
    defs.transfer_state_sets(eng, ck, 'R-C06-CANCEL-ALL', which=('is_processing',))
    # ---- R-C06-SLOT-CLEAR: done-callbacks clear a slot only if it still holds the finished task
    cleared = 0
    for slot in slots:
        for f, st, v in eng.stores_to_attr(slot):
            if v is None or not is_none_const(v) or f.name in ('__init__', '__setstate__'):
                continue
            # is f used as a done-callback?
            used_as_cb = any(how == 'callback' for _, _, how in eng.res.callers_of(f))
            if not used_as_cb:
                # anywhere else a slot may only be emptied once its task is finished: the scheduler takes "slot empty / task done" as
                # "no attempt in flight", and abort/pause cancel and await exactly what the slots hold
                fin = eng.guarded_by(f, st, lambda e, pol: pol and isinstance(e, ast.Call) and call_name(e) == 'done' and mentions_attr(e, slot))
                ck.ob('R-C06-SLOT-CLEAR', f, st, f'{slot} is emptied only by its done-callback (or where the task is known to be done): the slot holds the task '
                      'for as long as it runs', fin is not None,
                      f'`{unparse(st)}` in {f.qualname} drops the handle of a task that may still be winding down after cancel(): while abort/pause await it, the '
                      'transfer looks idle and a management cycle starts a second attempt that nobody cancels', construct=f'{f.qualname} clears {slot}')
                continue
            cleared += 1
            params = [p for p in f.params if p != 'self']

            def ident(e, pol):
                a = cmp_atom(e)
                return bool(a and a[0] in ('is', 'eq') and pol and mentions_attr(e, slot) and
                            any(mentions_name(e, p) for p in params))
            g = eng.guarded_by(f, st, ident)
            ck.ob('R-C06-SLOT-CLEAR', f, st, f'done-callback clears {slot} only if it still holds the task that finished',
                  g is not None, 'unconditional `slot = None`: the completion of an old task erases the handle of its successor',
                  construct=f'{f.qualname} clears {slot}')
    ck.floor('R-C06-SLOT-CLEAR', cleared, 2)

    # ---- R-C06-CANCEL-ALL
    ct = eng.func(TMODEL, 'Transfer.cancel_tasks')
    tcls = eng.cls('Transfer', TMODEL)

    from .defs import enumerated_slots

    def enumerated(fn, e, depth=0) -> set:
        return enumerated_slots(eng, slots, fn, e, depth)

    cancelled, extra = set(), []
    for c in calls_on(ct.node, 'cancel'):
        recv = c.func.value
        got = set()
        loopvar = None
        if isinstance(recv, ast.Name):
            loop = next((a for a in ancestors(c) if isinstance(a, (ast.For, ast.AsyncFor)) and isinstance(a.target, ast.Name)
                         and a.target.id == recv.id), None)
            if loop is not None:
                got = enumerated(ct, loop.iter)
                loopvar = recv.id
            else:
                got = enumerated(ct, recv)
        else:
            got = enumerated(ct, recv)
        gs = [(e, pol) for e, pol, _ in eng.guards_at(ct, c)
              if not (any(mentions_attr(e, sl) for sl in got) and len(got) == 1) and not (loopvar and mentions_name(e, loopvar) and 'None' in unparse(e))
              and not (loopvar and unparse(e) == loopvar)]
        if gs:
            extra.append((unparse(c), [unparse(e) for e, _ in gs]))
            continue
        cancelled |= got
    rets = [r.value for r in walk_local(ct.node) if isinstance(r, ast.Return) and r.value is not None]
    returned = set(slots)
    for r in rets:
        returned &= enumerated(ct, r)
    if not rets:
        returned = set()
    ck.ob('R-C06-CANCEL-ALL', ct, ct.node, 'Transfer.cancel_tasks cancels and returns every task slot of the transfer '
          '(each slot on its own: set => cancelled and returned, whatever the other slots hold)',
          set(slots) <= cancelled and set(slots) <= returned,
          f'slots {slots}, cancelled whenever set {sorted(cancelled)}, returned {sorted(returned)}'
          + (f'; cancel calls under extra conditions: {extra}' if extra else ''), construct='cancel_tasks covers slots')
    base = eng.cls('TransferState', TSTATE)
    ctt = base.methods.get('_cancel_transfer_tasks')
    stt = base.methods.get('_stop_transfer')
    ok = ctt is not None and any(isinstance(parent(g), ast.Await) and any(call_name(x) == 'cancel_tasks' for x in ast.walk(g))
                                 for g in calls_in(ctt.node) if call_name(g) == 'gather')
    ck.ob('R-C06-CANCEL-ALL', ctt or base, (ctt or base).node,
          '_cancel_transfer_tasks awaits (gathers) the tasks returned by transfer.cancel_tasks()', ok,
          'the cancelled tasks are not awaited', construct='_cancel_transfer_tasks awaits')
    # helpers of the state classes that cancel-and-await on every path (today: _stop_transfer); a call of one of them counts as the cancellation
    cancellers = {'_cancel_transfer_tasks'}
    for _ in range(3):
        for hn, hm in base.methods.items():
            if hn in cancellers or hn in ('abort', 'pause'):
                continue
            if any(isinstance(parent(c), ast.Await) and not eng.guards_at(hm, c) and not any(isinstance(a_, (ast.For, ast.While, ast.Try)) for a_ in ancestors(c))
                   for c in calls_in(hm.node) if call_name(c) in cancellers and unparse(c.func.value) == 'self'):
                cancellers.add(hn)
    if stt is not None:
        ck.ob('R-C06-CANCEL-ALL', stt, stt.node, '_stop_transfer awaits _cancel_transfer_tasks unconditionally', '_stop_transfer' in cancellers,
              'missing', construct='_stop_transfer cancels')
    states = state_classes(eng)
    by_class = {ci.name: v for v, ci in states.items()}
    n_ops = 0
    for val, ci in states.items():
        if val == 'VIRGIN':
            continue
        for op in ('abort', 'pause'):
            m = ci.methods.get(op)
            if m is None:
                continue
            n_ops += 1
            ck.visited(m)
            c = eng.cfg(m)
            canc = [n for call in calls_in(m.node) if call_name(call) in cancellers
                    and isinstance(parent(call), ast.Await) for n in c.nodes_for(call)]
            trs = [n for call, _ in transitions_in(m, by_class) for n in c.nodes_for(call)]
            p = c.find_path([c.entry], lambda n: n in trs, avoid=lambda n: n in canc) if trs else None
            ck.ob('R-C06-CANCEL-ALL', m, m.node,
                  f'{ci.name}.{op} cancels and awaits the transfer\'s tasks on every path before it transitions', bool(trs) and p is None,
                  'a transition is reachable without awaiting _cancel_transfer_tasks()/_stop_transfer() '
                  f'({c.describe_path(p, m.where) if p else "no transition found"})', construct=f'{val}.{op} cancels first')
    # ... and for the states the scheduler picks transfers from, nothing suspends between "tasks cancelled and awaited" and the
    # transition: in that window the transfer is schedulable and has no task, so a management cycle starts a new attempt that this
    # abort/pause never cancels (it then acts for -- or re-queues -- an aborted transfer)
    gq_ = eng.func(TM, 'TransferManager._get_queued_transfers')
    schedulable = set()
    for a_ in [x for x in calls_in(gq_.node) if call_name(x) == 'append']:
        for e, pol, _ in expanded_guards(eng, gq_, a_):
            if pol and mentions_attr(e, 'state'):
                schedulable |= enum_members_in(e) & set(states)
    ck.floor('R-C06-CANCEL-ALL.schedulable', len(schedulable), 2)
    for val in sorted(schedulable):
        ci = states[val]
        for op in ('abort', 'pause'):
            m = ci.methods.get(op)
            if m is None:
                continue
            c = eng.cfg(m)
            canc = [n for call in calls_in(m.node) if call_name(call) in cancellers
                    and isinstance(parent(call), ast.Await) for n in c.nodes_for(call)]
            trs = [n for call, _ in transitions_in(m, by_class) for n in c.nodes_for(call)]
            susp = None
            for a_ in canc:
                for b_ in trs:
                    s_ = c.suspension_between(a_, b_)
                    if s_ is not None and s_ is not a_ and s_ is not b_:
                        susp = s_
            ck.ob('R-C06-CANCEL-ALL', m, m.node, f'{ci.name}.{op}: no suspension between the awaited cancellation and the transition ({val} is a state the '
                  'scheduler starts attempts from)', susp is None,
                  (f'line {susp.lineno} (`{unparse(susp.ast)[:50]}`) suspends while the transfer is still {val} and has no task: a management cycle in that window '
                   'starts a remote-queue attempt that is not cancelled; after the call returned it sends PeerTransferQueue for, or re-queues, the aborted transfer')
                  if susp else '', construct=f'{val}.{op} cancel-transition atomic')
    ck.floor('R-C06-CANCEL-ALL.ops', n_ops, 11)
    rm = eng.func(TM, 'TransferManager.remove')
    c = eng.cfg(rm)
    ab = [n for call in calls_on(rm.node, 'abort') for n in c.nodes_for(call)]
    rem = [n for call in calls_in(rm.node) if call_name(call) == 'remove' and mentions_attr(call.func, '_transfers')
           for n in c.nodes_for(call)]
    p = c.find_path([c.entry], lambda n: n in rem, avoid=lambda n: n in ab)
    not_found_only = True
    ck.ob('R-C06-REMOVE', rm, rm.node, 'remove() attempts abort() (cancelling the tasks) before dropping the transfer from the list',
          bool(ab) and bool(rem) and p is None, f'list removal reachable without abort: {c.describe_path(p, rm.where) if p else ""}',
          construct='remove aborts first')

    # ---- R-C06-TASK-CLEANUP: cancellation is never swallowed in the negotiation coroutines
    nego = [eng.func(TM, q) for q in NEGOTIATORS] + [eng.func(TM, 'TransferManager._upload_file'),
                                                    eng.func(TM, 'TransferManager._download_file')]
    for f in nego:
        ck.visited(f)
        c = eng.cfg(f)
        for n in c.nodes:
            if n.kind != 'handler' or n not in c.reachable_nodes():
                continue
            names = handler_type_names(n.ast)
            if names and not any(x in ('CancelledError', 'BaseException') for x in names):
                continue
            # every path out of the handler re-raises
            p = c.find_path([n], lambda x: x.kind in ('exit_return',) or (x.kind in ('stmt', 'test', 'loop', 'join', 'noraise')
                            and not any(h is n.ast for h in eng.handler_context(f, x.ast)) if x.ast is not None else False),
                            edge_ok=lambda a, b, lab: lab == 'next')
            ck.ob('R-C06-TASK-CLEANUP', f, n.ast, f'{f.qualname}: the handler catching cancellation re-raises on every path',
                  p is None, f'cancellation swallowed via {c.describe_path(p, f.where) if p else ""}',
                  construct=f'{f.qualname} except {",".join(names) or "*"}')
            bad = []
            for x in walk_local(n.ast):
                if isinstance(x, ast.Call):
                    ch = attr_chain(x.func) or ['']
                    if ch[0] in ('logger', 'logging') or call_name(x) in ('disconnect',):
                        continue
                    bad.append(unparse(x)[:50])
                if isinstance(x, (ast.Assign, ast.AugAssign)) and any(
                        isinstance(t, ast.Attribute) for t in (x.targets if isinstance(x, ast.Assign) else [x.target])):
                    bad.append(unparse(x)[:50])
            ck.ob('R-C06-TASK-CLEANUP', f, n.ast, f'{f.qualname}: after cancellation only the socket is closed (no message, no field write)',
                  not bad, f'effects in the cancellation handler: {bad}', construct=f'{f.qualname} cancel handler effects')

    # ---- R-C06-OWNERS: negotiation coroutines are started only through a slot
    for q in NEGOTIATORS:
        f = eng.func(TM, q)
        sites = eng.res.callers_of(f)
        ck.floor(f'R-C06-OWNERS.{f.name}', len(sites), 1)
        for caller, call, how in sites:
            if how != 'call':
                continue
            st = enclosing_stmt(call)
            into_slot, as_task = flows_into_slot(eng, caller, call, slots)
            ck.ob('R-C06-OWNERS', caller, call, f'{f.name} runs only as a task whose handle is stored in a task slot of the transfer',
                  into_slot, f'started by `{unparse(st)[:70]}` ({how})', construct=f'{caller.qualname} starts {f.name}')
    from . import defs as _defs_c
    _defs_c.cancellation_propagates(eng, ck, 'R-C06-CANCEL-ALL', 'abort / pause / remove end the attempts of a transfer by cancelling them')
    _defs_c.lock_wrapper_forwards_arguments(eng, ck, 'R-C06-LATCH', 'an abort that waited for the lock still records why: the REQUESTED reason is what keeps the transfer from being queued again')
    # a transfer aborted ON REQUEST stays aborted through every later re-evaluation of the uploads: the REQUESTED reason is tested first and
    # wins (a latch); the only automatic re-queue is of an ABORTED upload whose reason vanished (rules of the re-evaluation, shared with C08)
    from .c08 import reeval_rules
    reeval_rules(eng, ck, 'R-C06-LATCH', {'reason order', 'condition _is_abort_requested', 'should_change', 'aborted definition', 'requeue', 'abort with reason'})
    # the negotiation task of a transfer awaits Network.create_peer_connection; in race mode that starts two attempt tasks of its own:
    # cancelling the negotiation must end them too
    from .c11 import race_attempts_rule
    race_attempts_rule(eng, ck, 'R-C06-CANCEL-ALL')

    registered_handle_rule(eng, ck)
    # ---- R-C06-ACCEPTED: a negotiation started from a MESSAGE HANDLER acts only if the state machine accepted it
    # The scheduler starts its attempts synchronously for transfers it has just selected; a message handler (`_on_peer_transfer_request`)
    # starts one whenever the message arrives -- also while abort() / pause() holds the state lock and is still awaiting the tasks it
    # cancelled (the download is QUEUED and has an empty slot all that time).  Such a task was not among the cancelled ones; its
    # `state.initialize()` waits for the lock and is then REFUSED by the new state.  The refusal must stop it.
    mt_ = eng.func(TM, 'TransferManager.manage_transfers')
    n_acc = 0
    for q in NEGOTIATORS:
        f = eng.func(TM, q)
        from_handler = [c_ for c_, _x, how_ in eng.res.callers_of(f) if how_ == 'call' and c_ is not mt_]
        inits = [x for x in calls_in(f.node) if call_name(x) == 'initialize' and isinstance(x.func, ast.Attribute) and mentions_attr(x.func.value, 'state')]
        if not from_handler or not inits:
            continue
        n_acc += 1
        ck.visited(f)
        tp_ = [p_ for p_ in f.params if p_ != 'self'][0]
        effects = [n for n in walk_local(f.node) if (isinstance(n, ast.Assign) and any(isinstance(t, ast.Attribute) and unparse(t.value) == tp_ for t in n.targets)) or
                   (isinstance(n, ast.Call) and call_name(n) in ('send_message', 'send_peer_messages', 'queue_message', 'queue_messages'))]
        unguarded = []
        for n in effects:
            gs = expanded_guards(eng, f, n)
            if not any(pol and any(isinstance(y, ast.Call) and call_name(y) == 'initialize' for y in ast.walk(e)) for e, pol, _ in gs):
                unguarded.append(n)
        ck.ob('R-C06-ACCEPTED', f, inits[0], f'{f.name} (started by {sorted({c_.name for c_ in from_handler})}) goes on only if `state.initialize()` accepted: every message '
              'it sends and every field it writes is control dependent on the accepted result', not unguarded,
              (f'the result of `{unparse(inits[0])}` is ignored; `{unparse(unguarded[0])[:60]}` (line {unguarded[0].lineno}) runs also after a refusal: a request accepted while '
               'abort()/pause() was awaiting the cancelled remote-queue attempt is answered with PeerTransferReply(allowed=True) and downloaded after the call returned')
              if unguarded else '', construct=f'{f.name} proceeds only if accepted')
    ck.floor('R-C06-ACCEPTED', n_acc, 1)



def registered_handle_rule(eng: Engine, ck: Check):
    """R-C06-HANDLE: abort / pause / remove act on the object they are given, after an EQUALITY test against the registry (`transfer not in
    self.transfers`; Transfer.__eq__ compares user, path and direction).  An equal but detached twin passes that test: the operation then
    runs on the twin (no tasks, own lock) and `list.remove` drops the registered one by equality, its tasks still running.  So the public
    entry point that hands out transfers hands out THE REGISTERED object: download() returns, and operates on, what `add()` returned --
    add() answers with the stored transfer when an equal one exists."""
    dl = eng.func(TM, 'TransferManager.download')
    ck.visited(dl)
    adds = [x for x in calls_on(dl.node, 'add') if unparse(x.func.value) == 'self']
    ck.floor('R-C06-HANDLE.add', len(adds), 1)
    rets = [r for r in walk_local(dl.node) if isinstance(r, ast.Return) and r.value is not None]
    ops = [x for x in calls_in(dl.node) if isinstance(x.func, ast.Attribute) and x.func.attr in ('queue', 'pause', 'abort') and mentions_attr(x.func.value, 'state')]

    def is_add(v: ast.AST) -> bool:
        return any(isinstance(y, ast.Call) and call_name(y) == 'add' and isinstance(y.func, ast.Attribute) and unparse(y.func.value) == 'self' for y in ast.walk(v))

    def from_add(e: ast.AST) -> bool:
        ex = expand_aliases(dl, e)
        if is_add(ex):
            return True
        # a name bound more than once (`t = Transfer(..); t = await self.add(t)`): what counts is the binding that reaches the use -- the last one
        # among the statements of the function body in front of it, provided it is unconditional
        root = next((n_ for n_ in ast.walk(e) if isinstance(n_, ast.Name)), None)
        if root is None:
            return False
        top = dl.node.body
        here = e
        while getattr(here, '_parent', None) is not None and here._parent is not dl.node:
            here = here._parent
        if here not in top:
            return False
        last = None
        for st in top[:top.index(here)]:
            if isinstance(st, ast.Assign) and any(isinstance(t_, ast.Name) and t_.id == root.id for t_ in st.targets):
                last = st
            elif any(isinstance(n_, ast.Name) and n_.id == root.id and isinstance(n_.ctx, ast.Store) for n_ in ast.walk(st)):
                last = None
        return last is not None and is_add(last.value)
    bad = [f'returns `{unparse(r.value)}`' for r in rets if not from_add(r.value)] + \
        [f'`{unparse(x)[:50]}`' for x in ops if not from_add(x.func.value)]
    ck.ob('R-C06-HANDLE', dl, dl.node, 'download() queues / pauses and returns the transfer that add() handed back (the registered one when the file was already known)',
          bool(rets) and not bad, f'{bad}: for a file that is already in the manager this is a detached twin; abort / pause through it return success and touch nothing, '
          'remove() drops the registered transfer by equality while its negotiation goes on', construct='download returns the registered transfer')
