"""C13 — distributed tree shape and advertised position."""
from __future__ import annotations
from .common import *

DN = 'DistributedNetwork'


def interproc_guards(eng: Engine, fn: FuncInfo, node: ast.AST, depth: int = 3) -> list[tuple[ast.AST, bool, FuncInfo]]:
    """Guards dominating `node` in fn, plus — while fn has exactly one call site —
    the guards dominating that call site in the caller (up to depth)."""
    out = [(e, pol, fn) for e, pol, _ in expanded_guards(eng, fn, node)]
    cur = fn
    for _ in range(depth):
        sites = [(c, call) for c, call, how in eng.res.callers_of(cur) if how == 'call']
        if len(sites) != 1:
            break
        caller, call = sites[0]
        out += [(e, pol, caller) for e, pol, _ in expanded_guards(eng, caller, call)]
        cur = caller
    return out


def child_list_rules(eng: Engine, ck: Check, rule: str):
    """Who may shrink / re-bind the child list, and when (shared by C13 and C14:
    a live child must stay in `children`, a closed one must leave it)."""
    repo = eng.repo
    dn = eng.cls(DN, DIST)
    rems = eng.mutations_of_attr('children', ['remove', 'pop', 'clear', 'discard'])
    sc = eng.func(DIST, f'{DN}._on_state_changed')
    for f, st, v in eng.stores_to_attr('children'):
        if f.cls is not dn:
            continue
        ok = f.name == '__init__'
        if not ok and v is not None:
            # a rebuild that filters by identity of the removed peer is a removal in disguise: accept only `x is not peer` / `x != peer`
            comp = v if isinstance(v, ast.ListComp) else None
            if comp is not None and len(comp.generators) == 1 and mentions_attr(comp.generators[0].iter, 'children'):
                tv = comp.generators[0].target
                conds = comp.generators[0].ifs
                ok = len(conds) == 1 and isinstance(conds[0], ast.Compare) and isinstance(conds[0].ops[0], (ast.IsNot, ast.NotEq)) and \
                    isinstance(conds[0].left, ast.Name) and isinstance(tv, ast.Name) and conds[0].left.id == tv.id and \
                    isinstance(conds[0].comparators[0], ast.Name) and unparse(comp.elt) == tv.id
        ck.ob(rule, f, st, 'the child list is re-bound only at construction (a rebuild may only drop the very peer object that closed)',
              ok, f'`{unparse(st)[:90]}` in {f.qualname}: removing by anything but object identity can drop a live child',
              construct=f'{f.qualname} rebinds children')
    # removal events: `children.remove(<peer>)` written in _on_state_changed itself, or in a helper that removes its parameter and is
    # called from _on_state_changed only
    sc = eng.func(DIST, f'{DN}._on_state_changed')
    ck.visited(sc)
    rc = []
    for f, call in rems:
        by_identity = call_name(call) == 'remove' and len(call.args) == 1 and isinstance(call.args[0], ast.Name)
        if f is sc:
            ok = by_identity
            if ok:
                rc.append(call)
        else:
            ok = by_identity and f.cls is dn and call.args[0].id in f.params and not eng.guards_at(f, call)
            if ok:
                for caller, x_, how_ in eng.res.callers_of(f):
                    if caller is sc and how_ == 'call':
                        rc.append(x_)
                    else:
                        ok = False
        ck.ob(rule, f, call, 'children shrink only when _on_state_changed removes the very peer object (directly or through a helper only it calls)', ok,
              f'`{unparse(call)}` in {f.qualname}', construct=f'{f.qualname} {call_name(call)} children')
    ck.floor(rule + '.closed', len(rc), 1)
    for call in rc:
        gs = eng.guards_at(sc, call)
        closed = any(pol and enum_members_in(e) == {'CLOSED'} and mentions_attr(e, 'state') for e, pol, _ in gs)
        member = any(pol and (cmp_atom(e) or ('',))[0] == 'in' and mentions_attr(cmp_atom(e)[2], 'children') for e, pol, _ in gs)
        arg0 = unparse(call.args[0]) if call.args else 'peer'       # the peer being removed: its truthiness (`if not peer: return`) is benign
        other = [unparse(e) for e, pol, _ in gs if not (mentions_attr(e, 'state', 'children', 'connection_type') or call_name(e) == 'isinstance'
                                                      or unparse(e) == arg0)]
        ck.ob(rule, sc, call, 'a child is removed when (and only because) its distributed connection reports CLOSED', closed and member and not other,
              f'guards {[unparse(e) for e, _, _ in gs]}', construct='remove child on CLOSED')
    # membership is recorded before the appending function suspends: the CLOSED handler and the "a child never becomes the parent" test
    # look the peer up in `children`, and both can run as soon as the new child's connection is read from
    for f, call in eng.mutations_of_attr('children', ['append', 'add', 'insert']):
        if f.cls is not dn:
            continue
        ck.visited(f)
        c = eng.cfg(f)
        s = c.suspension_between(c.entry, c.nodes_for(call)[0])
        ck.ob(rule, f, call, 'the append follows the admission tests without a suspension inside the appending function (a peer that is being told the '
              'branch values is already a child: its CLOSED report removes it, its branch messages cannot make it the parent)', s is None,
              f'suspension at line {s.lineno}: a close or a branch message of that peer in the window finds it in no list' if s else '', construct='admit atomic')
    # the CLOSED handler (and every other handler) finds its peer through get_distributed_peer
    from . import defs
    defs.distributed_peer_lookup(eng, ck, rule)
    lk = [x for x in calls_on(sc.node, 'get_distributed_peer')]
    ck.ob(rule, sc, sc.node, '_on_state_changed looks the peer up for the connection that changed state', len(lk) >= 1 and
          all(x.args and unparse(expand_aliases(sc, x.args[0])).endswith('.connection') for x in lk), f'{[unparse(x) for x in lk]}', construct='state change peer lookup')
    # distributed_peers bookkeeping
    dp_rm = [c for f, c in eng.mutations_of_attr('distributed_peers', ['remove']) if f is sc]
    ck.ob(rule, sc, sc.node, 'a closed distributed connection is dropped from distributed_peers', len(dp_rm) == 1, '', construct='peer dropped on CLOSED')



def unset_parent_clears(eng: Engine, ck: Check, rule: str):
    """_unset_parent forgets the parent on EVERY path (also when there is no session to advertise to): shared by C13 (tree shape) and C16
    (the position advertised after the next login is derived from self.parent)."""
    up = eng.func(DIST, f'{DN}._unset_parent')
    ck.visited(up)
    stores = [st for f, st, v in eng.stores_to_attr('parent', [up]) if v is not None and is_none_const(v)]
    ok = len(stores) == 1 and not eng.guards_at(up, stores[0])
    if ok:
        c = eng.cfg(up)
        sn = c.nodes_for(stores[0])
        p = c.find_path([c.entry], lambda n: n.kind == 'exit_return', avoid=lambda n: n in sn, edge_ok=lambda a, b, lab: lab == 'next')
        ok = p is None
    ck.ob(rule, up, stores[0] if stores else up.node, '_unset_parent clears self.parent unconditionally, before any early return', ok,
          'self.parent = None is missing, conditional, or skipped by an early return (e.g. "no session"): a parent lost while logged out stays set, and the '
          'next login advertises its level/root and switches the parent search off', construct='_unset_parent clears parent')


def run(eng: Engine, ck: Check):
    repo = eng.repo
    dn = eng.cls(DN, DIST)
    methods = list(dn.methods.values())

    # ---- R-C13-ADMIT
    apps = eng.mutations_of_attr('children', ['append', 'add', 'insert', 'extend'])
    rems = eng.mutations_of_attr('children', ['remove', 'pop', 'clear', 'discard'])
    ck.floor('R-C13-ADMIT.append', len(apps), 1)
    ck.floor('R-C13-ADMIT.remove', len(rems), 1)
    child_list_rules(eng, ck, 'R-C13-ADMIT')
    for f, call in apps:
        ck.visited(f)
        gs = interproc_guards(eng, f, call)

        def has(pred):
            return any(pred(e, pol) for e, pol, _ in gs)
        pp = has(lambda e, pol: (cmp_atom(e) or ('',))[0] == 'in' and not pol and mentions_attr(cmp_atom(e)[2], 'potential_parents')
                 and mentions_attr(cmp_atom(e)[1], 'username'))
        acc = has(lambda e, pol: pol and isinstance(e, ast.Attribute) and e.attr == '_accept_children')
        def below_max(e, pol):
            a = cmp_atom_diff(e)
            if not a or a[0] not in ('ge', 'lt', 'gt', 'le') or not mentions_attr(e, '_max_children') or not mentions_attr(e, 'children'):
                return False
            ln = lambda x: 'len(' in unparse(x) and mentions_attr(x, 'children')
            mxa = lambda x: mentions_attr(x, '_max_children') and 'len(' not in unparse(x)
            return (a[0] == 'ge' and not pol and ln(a[1]) and mxa(a[2])) or (a[0] == 'lt' and pol and ln(a[1]) and mxa(a[2])) or \
                (a[0] == 'gt' and pol and mxa(a[1]) and ln(a[2])) or (a[0] == 'le' and not pol and mxa(a[1]) and ln(a[2]))
        mx = has(below_max)
        nreq = has(lambda e, pol: (not pol) and isinstance(e, ast.Attribute) and e.attr == 'requested')
        ck.ob('R-C13-ADMIT', f, call, 'a child is admitted only if its name is not among the potential parents the server proposed', pp,
              'guard `peer.username in self.potential_parents -> reject` does not dominate the append', construct='admit: not potential parent')
        ck.ob('R-C13-ADMIT', f, call, 'a child is admitted only while child acceptance is on', acc, 'guard `_accept_children` missing',
              construct='admit: accepting')
        ck.ob('R-C13-ADMIT', f, call, 'a child is admitted only while len(children) < _max_children', mx,
              'guard `len(children) >= _max_children -> reject` missing or weakened', construct='admit: below max')
        ck.ob('R-C13-ADMIT', f, call, 'only connections the peer opened to us (not requested by us) become children', nreq,
              'guard `not event.requested` missing', construct='admit: not requested')
    # ---- R-C13-CACHE: potential parents accumulate (bounded deque), never replaced
    for f, st, v in eng.stores_to_attr('potential_parents'):
        if f.cls is not dn:
            continue
        ck.ob('R-C13-CACHE', f, st, 'the potential-parent cache is created once (bounded deque) and only extended afterwards',
              f.name == '__init__', f'`{unparse(st)[:80]}` in {f.qualname}: replacing the cache forgets earlier proposals, so an earlier '
              'proposed parent is admitted as child', construct=f'{f.qualname} rebinds potential_parents')
    ext = eng.mutations_of_attr('potential_parents', ['extend', 'append', 'appendleft', 'extendleft'])
    shr = eng.mutations_of_attr('potential_parents', ['remove', 'pop', 'popleft', 'clear'])
    ck.floor('R-C13-CACHE', len(ext), 1)
    for f, call in ext:
        ok = f.qualname == f'{DN}._on_potential_parents' and 'username' in unparse(call.args[0]) and 'message.entries' in unparse(call.args[0])
        ck.ob('R-C13-CACHE', f, call, 'every proposed parent of a PotentialParents message is remembered', ok, unparse(call)[:80],
              construct='cache extended with proposals')
    for f, call in shr:
        ck.ob('R-C13-CACHE', f, call, 'entries leave the cache only through the deque bound', False, unparse(call), construct=f'{f.qualname} shrinks cache')

    # ---- R-C13-PARENT
    sc = eng.func(DIST, f'{DN}._on_state_changed')
    pst = [(f, st, v) for f, st, v in eng.stores_to_attr('parent') if f.cls is dn]
    ck.floor('R-C13-PARENT', len(pst), 3)
    for f, st, v in pst:
        ck.visited(f)
        if v is not None and is_none_const(v):
            ok = f.name in ('__init__', '_unset_parent')
            ck.ob('R-C13-PARENT', f, st, 'parent is cleared only at construction and in _unset_parent', ok, f.qualname, construct=f'{f.qualname} clears parent')
            continue
        ok = f.name == '_set_parent'
        ck.ob('R-C13-PARENT', f, st, 'a parent is set only in _set_parent', ok, f.qualname, construct=f'{f.qualname} sets parent')
        if not ok:
            continue
        gs = interproc_guards(eng, f, st)
        no_parent = any((not pol) and isinstance(e, ast.Attribute) and e.attr == 'parent' for e, pol, _ in gs) or \
            any(pol and (cmp_atom(e) or ('',))[0] == 'is' and mentions_attr(e, 'parent') and is_none_const(cmp_atom(e)[2]) for e, pol, _ in gs)
        not_child = any((not pol) and (cmp_atom(e) or ('',))[0] == 'in' and mentions_attr(cmp_atom(e)[2], 'children') for e, pol, _ in gs)
        complete = sum(1 for e, pol, _ in gs if (not pol) and (cmp_atom(e) or ('',))[0] == 'is' and is_none_const(cmp_atom(e)[2]) and
                       mentions_attr(e, 'branch_level', 'branch_root'))
        ck.ob('R-C13-PARENT', f, st, 'a parent is taken only when there is none (at most one parent)', no_parent, 'guard `not self.parent` missing',
              construct='set parent: none yet')
        ck.ob('R-C13-PARENT', f, st, 'a peer that is one of our children is never taken as parent', not_child,
              'nothing prevents a child that announces branch level and root from becoming the parent (parent in children)',
              construct='set parent: not a child')
        ck.ob('R-C13-PARENT', f, st, 'a parent is taken only once both its branch level and root are known', complete >= 2, f'{complete} of 2 tests',
              construct='set parent: level and root known')
    unset_parent_clears(eng, ck, 'R-C13-PARENT')
    up = eng.func(DIST, f'{DN}._unset_parent')
    for call in calls_on(sc.node, '_unset_parent'):
        gs = eng.guards_at(sc, call)
        closed = any(pol and enum_members_in(e) == {'CLOSED'} for e, pol, _ in gs)
        is_parent = any(pol and 'self.parent' in unparse(e) and 'peer' in unparse(e) for e, pol, _ in gs)
        ck.ob('R-C13-PARENT', sc, call, 'the parent is unset when its connection reports CLOSED', closed and is_parent,
              f'{[unparse(e) for e, _, _ in gs]}', construct='unset parent on CLOSED')
    ck.floor('R-C13-PARENT.unset', len(calls_on(sc.node, '_unset_parent')), 1)
    sp = eng.func(DIST, f'{DN}._set_parent')
    # other distributed connections are closed, keeping parent and children
    keep = [n for n in walk_local(sp.node) if isinstance(n, (ast.ListComp, ast.SetComp)) and mentions_attr(expand_aliases(sp, n), 'parent')
            and mentions_attr(expand_aliases(sp, n), 'children')]
    disc = [c for c in calls_on(sp.node, 'disconnect')]
    ok = bool(keep) and bool(disc) and any((not pol) and (cmp_atom(e) or ('',))[0] == 'in' for d in disc for e, pol, _ in eng.guards_at(sp, d))
    ck.ob('R-C13-PARENT', sp, sp.node, '_set_parent closes every other distributed connection except parent and children', ok, '', construct='set parent closes candidates')

    # ---- R-C13-ADVERT
    gav = eng.func(DIST, f'{DN}._get_advertised_branch_values')
    ck.visited(gav)
    rows = []
    for r in [n for n in walk_local(gav.node) if isinstance(n, ast.Return)]:
        gs = expanded_guards(eng, gav, r)
        has_parent = None
        is_root = None
        for e, pol, _ in gs:
            if isinstance(e, ast.Attribute) and e.attr == 'parent':
                has_parent = pol
            a = cmp_atom(e)
            if a and a[0] == 'eq' and mentions_attr(e, 'branch_root'):
                is_root = pol
        v = expand_aliases(gav, r.value)
        rows.append((has_parent, is_root, unparse(v)))
    want_noparent = [r for r in rows if r[0] in (None, False) and r[2].endswith(', 0)') and '_session.user.name' in r[2]]
    want_root = [r for r in rows if r[0] is True and r[1] is True and r[2].endswith(', 0)') and '_session.user.name' in r[2]]
    want_child = [r for r in rows if r[0] is True and r[1] is False and r[2].replace(' ', '') == '(self.parent.branch_root,self.parent.branch_level+1)']
    ck.ob('R-C13-ADVERT', gav, gav.node, 'advertised position = (own name, 0) without parent or as branch root, else (parent root, parent level + 1)',
          len(want_noparent) == 1 and len(want_root) == 1 and len(want_child) == 1 and len(rows) == 3, f'rows {rows}',
          construct='advertised position function')
    def advertised_pair(fn: FuncInfo):
        """names bound by `root, level = self._get_advertised_branch_values()` in fn"""
        r_ = pfind(fn.node, '$root, $level = self._get_advertised_branch_values()')
        return (r_[0][1]['root'], r_[0][1]['level']) if len(r_) == 1 else None

    def request_with(fn: FuncInfo, cls_name: str, arg_expr: str, within=None) -> list:
        out_ = []
        for x_ in calls_in(within if within is not None else fn.node):
            if call_name(x_) == 'Request' and unparse(x_.func) == f'{cls_name}.Request' and x_.args and unparse(expand_aliases(fn, x_.args[0])) == arg_expr:
                out_.append(x_)
            elif call_name(x_) == 'Request' and unparse(x_.func) == f'{cls_name}.Request' and x_.args and unparse(x_.args[0]) == arg_expr:
                out_.append(x_)
        return out_
    nsp = eng.func(DIST, f'{DN}._notify_server_of_parent')
    ck.visited(nsp)
    pr = advertised_pair(nsp)
    tg = [x_ for x_ in calls_in(nsp.node) if unparse(x_.func) == 'ToggleParentSearch.Request' and x_.args and isinstance(x_.args[0], ast.Name)]
    SFP = tg[0].args[0].id if len(tg) == 1 else 'search_for_parent'
    ok = pr is not None and len(request_with(nsp, 'BranchLevel', pr[1])) == 1 and len(request_with(nsp, 'BranchRoot', pr[0])) == 1 and len(tg) == 1
    ck.ob('R-C13-ADVERT', nsp, nsp.node, 'the server is told BranchLevel(level), BranchRoot(root) from the advertised position, and ToggleParentSearch',
          ok, '', construct='server notification content')
    sfp = [n for n in walk_local(nsp.node) if isinstance(n, ast.Assign) and unparse(n.targets[0]) == SFP]
    def no_parent(conds) -> Optional[bool]:
        for e_, pol_ in conds:
            if unparse(e_) == 'self.parent':
                return not pol_
            a_ = cmp_atom(e_)
            if a_ and a_[0] == 'is' and unparse(a_[1]) == 'self.parent' and is_none_const(a_[2]):
                return pol_
        return None
    arms = [(conds, leaf) for n in sfp for conds, leaf in cond_values(eng, nsp, n)]
    direct = any(unparse(leaf) in ('not self.parent', 'self.parent is None') and no_parent(conds) is None for conds, leaf in arms)
    split = any(const(leaf) is True and no_parent(conds) is True for conds, leaf in arms) and any(const(leaf) is False and no_parent(conds) is False for conds, leaf in arms)
    # True is never assigned while there is a parent
    stray = [unparse(leaf) for conds, leaf in arms if const(leaf) is True and no_parent(conds) is not True]
    ok = (direct or split) and not stray
    ck.ob('R-C13-ADVERT', nsp, nsp.node, 'parent search is requested iff there is no parent', ok, f'{[unparse(n) for n in sfp]}', construct='toggle parent search')
    sends = calls_on(nsp.node, 'send_server_messages')
    ck.ob('R-C13-ADVERT', nsp, nsp.node, 'the three messages are sent unconditionally', len(sends) == 1 and not eng.guards_at(nsp, sends[0]), '',
          construct='server notification unconditional')
    # children notifications: every send_messages_to_children that carries the branch messages, wherever it is written (a helper of
    # its own today); its content must be the advertised pair computed in the same function
    child_sends: dict[str, list] = {}
    for fn_ in dn.methods.values():
        for call in calls_on(fn_.node, 'send_messages_to_children'):
            if any(unparse(x_.func) in ('DistributedBranchLevel.Request', 'DistributedBranchRoot.Request') for x_ in calls_in(call)):
                if 'DistributedBranchLevel.Request(0)' in unparse(call):
                    continue        # literal form on a no-parent path (accepted below in notifies())
                pr = advertised_pair(fn_)
                ok = pr is not None and len(request_with(fn_, 'DistributedBranchLevel', pr[1], within=call)) == 1 and \
                    len(request_with(fn_, 'DistributedBranchRoot', pr[0], within=call)) == 1
                ck.visited(fn_)
                ck.ob('R-C13-ADVERT', fn_, call, 'children are told DistributedBranchLevel(level), DistributedBranchRoot(root) from the advertised position', ok, '',
                      construct='children notification content')
                if ok:
                    child_sends.setdefault(fn_.name, []).append(call)
    ck.floor('R-C13-ADVERT.child_sends', len(child_sends), 1)
    # a helper that does nothing but (unconditionally) notify the children counts as the notification where it is called
    child_notifiers = {nm_ for nm_, calls_ in child_sends.items() if len(calls_) == 1 and not eng.guards_at(dn.methods[nm_], calls_[0])
                       and not any(isinstance(a_, (ast.For, ast.While, ast.Try)) for a_ in ancestors(calls_[0]))}

    # every change of an input of the position must be followed by BOTH notifications
    def notifies(fn: FuncInfo, kinds=('server', 'children')):
        c = eng.cfg(fn)
        srv = [n for call in calls_on(fn.node, '_notify_server_of_parent') for n in c.nodes_for(call)]
        chl = [n for call in calls_in(fn.node) if call_name(call) in child_notifiers and call_name(call) != fn.name and
               isinstance(call.func, ast.Attribute) and unparse(call.func.value) == 'self' for n in c.nodes_for(call)]
        chl += [n for call in child_sends.get(fn.name, []) for n in c.nodes_for(call)]
        # literal form on the no-parent path: send_messages_to_children(DistributedBranchLevel.Request(0), DistributedBranchRoot.Request(<own name>))
        for call in calls_on(fn.node, 'send_messages_to_children'):
            s = unparse(call)
            if 'DistributedBranchLevel.Request(0)' in s and 'DistributedBranchRoot.Request(' in s:
                chl += c.nodes_for(call)
        return c, srv, chl

    change_sites = []
    for f, st, v in pst:
        if f.name != '__init__':
            change_sites.append((f, st, 'parent'))
    for attr in ('branch_level', 'branch_root'):
        for f, st, v in eng.stores_to_attr(attr):
            if f.cls is dn:
                change_sites.append((f, st, attr))
    ck.floor('R-C13-ADVERT.sites', len(change_sites), 5)
    for f, st, what in change_sites:
        c, srv, chl = notifies(f)
        sn = c.nodes_for(st)
        for kind, targets in (('server', srv), ('children', chl)):
            # follow normal edges only; exempt the path where there is no session (nothing can be sent) and, for stores to a peer's
            # level/root, the paths where that peer is not the current parent (they go through _check_if_new_parent -> _set_parent)
            def exempt(n: Node) -> bool:
                if n.kind != 'assume':
                    return False
                for e_, pol_ in split_conj(n.ast, n.polarity):
                    # no session on this branch: nothing can be sent
                    if mentions_attr(e_, '_session') and not isinstance(e_, ast.Compare) and pol_ is False:
                        return True
                    a_ = cmp_atom(e_)
                    if mentions_attr(e_, '_session') and a_ and a_[0] == 'is' and is_none_const(a_[2]) and pol_ is True:
                        return True
                    # the peer whose level/root changed is NOT the current parent on this branch
                    if what != 'parent' and a_ and a_[0] in ('eq', 'is') and mentions_attr(e_, 'parent') and pol_ is False:
                        return True
                return False
            starts = [s for n in sn for s, lab in n.succ if lab == 'next']
            p = c.find_path(starts, lambda n: n.kind == 'exit_return', avoid=lambda n: n in targets or exempt(n),
                            edge_ok=lambda a, b, lab: lab == 'next')
            if starts and all(s.kind == 'exit_return' for s in starts):
                p = [(starts[0], 'next')]
            # a store to a peer's level when `peer` is the parent is relevant only if the branch compares peer with self.parent
            ck.ob('R-C13-ADVERT', f, st, f'after `{unparse(st)[:50]}` (changes the advertised position) the {kind} '
                  f'{"is" if kind == "server" else "are"} told the new position on every normal path', p is None,
                  f'normal return reachable without notifying the {kind}: lines {c.describe_path(p, f.where) if p else ""}',
                  construct=f'{f.qualname}: {what} change -> notify {kind}')
    from .c14 import fanout_rules
    fanout_rules(eng, ck, 'R-C13-ADVERT')
    from . import defs
    defs.queue_messages_definition(eng, ck, 'R-C13-ADVERT')
    defs.network_send_helpers(eng, ck, 'R-C13-ADVERT')
    osi = eng.func(DIST, f'{DN}._on_session_initialized')
    ok = any(not eng.guards_at(osi, call) for call in calls_on(osi.node, '_notify_server_of_parent'))
    ck.ob('R-C13-ADVERT', osi, osi.node, 'the initial position is advertised to the server after login', ok, '', construct='initial advert')
    ac = eng.func(DIST, f'{DN}._add_child')
    pr = advertised_pair(ac)
    lv = [c for c in calls_on(ac.node, 'send_message') if pr and any(x_ in list(ast.walk(c)) for x_ in request_with(ac, 'DistributedBranchLevel', pr[1]))]
    rt = [c for c in calls_on(ac.node, 'send_message') if pr and any(x_ in list(ast.walk(c)) for x_ in request_with(ac, 'DistributedBranchRoot', pr[0]))]
    ok = pr is not None and len(lv) == 1 and not [g for g in eng.guards_at(ac, lv[0]) if 'connection' not in unparse(g[0])] and len(rt) == 1
    ck.ob('R-C13-ADVERT', ac, ac.node, 'a new child is told our level (and the root unless we are level 0) from the advertised position', ok, '',
          construct='new child told position')

    # ---- R-C13-LIMITS
    for attr in ('_max_children', '_accept_children'):
        for f, st, v in eng.stores_to_attr(attr):
            if f.cls is not dn:
                continue
            ok = f.name in ('__init__', '_on_get_user_stats')
            ck.ob('R-C13-LIMITS', f, st, f'{attr} is written only from the own GetUserStats answer', ok, f.qualname, construct=f'{f.qualname} writes {attr}')
            if f.name == '_on_get_user_stats':
                gs = expanded_guards(eng, f, st)
                own = any(pol and (cmp_atom(e) or ('',))[0] == 'eq' and 'message.username' in unparse(e) and '_session.user.name' in unparse(e) for e, pol, _ in gs)
                ck.ob('R-C13-LIMITS', f, st, f'{attr} is derived only from stats about the own user', own, '', construct=f'{attr} own stats only')
    gus = eng.func(DIST, f'{DN}._on_get_user_stats')
    thr = [(e, pol) for st in [s for f, s, v in eng.stores_to_attr('_accept_children', [gus])] for e, pol, _ in expanded_guards(eng, gus, st)
           if (cmp_atom(e) or ('',))[0] in ('lt', 'ge')]
    vals = {(unparse(v), tuple(sorted((cmp_atom(e)[0], pol) for e, pol, _ in expanded_guards(eng, gus, st) if (cmp_atom(e) or ('',))[0] in ('lt', 'ge'))))
            for f, st, v in eng.stores_to_attr('_accept_children', [gus])}
    ok = vals == {('False', (('lt', True),)), ('True', (('lt', False),))}
    ck.ob('R-C13-LIMITS', gus, gus.node, 'children are accepted iff avg speed >= parent_min_speed * 1024', ok and any('* 1024' in unparse(e) for e, _ in thr),
          f'{vals}', construct='accept threshold')
    mc = eng.func(DIST, f'{DN}._calculate_max_children')
    sp_, rt_ = [p_ for p_ in mc.params if p_ != 'self'][:2]
    mrets = [expand_aliases(mc, n.value) for n in walk_local(mc.node) if isinstance(n, ast.Return) and n.value is not None]
    forms = [f'int({sp_} / ({rt_} / 10 * 1024))', f'int({sp_} / (1024 * ({rt_} / 10)))', f'int({sp_} / ({rt_} * 1024 / 10))', f'int({sp_} / ({rt_} * 102.4))']
    ck.ob('R-C13-LIMITS', mc, mc.node, 'max children = int(speed / ((ratio / 10) * 1024))',
          len(mrets) == 1 and any(pat.match(mrets[0], pat.compile_pattern(f_)[0]) is not None for f_ in forms),
          f'returns `{unparse(mrets[0]) if mrets else None}`', construct='max children formula')
    snd = [c for c in calls_in(gus.node) if call_name(c) == 'Request' and 'AcceptChildren' in unparse(c.func)]
    ok = len(snd) == 1 and unparse(snd[0].args[0]) == 'self._accept_children'
    ck.ob('R-C13-LIMITS', gus, gus.node, 'the server is told AcceptChildren with the stored flag', ok, '', construct='accept children sent')
    from . import defs as _d13
    _d13.presence_truthiness(eng, ck, 'R-C13-PARENT', [('DistributedPeer', DIST), ('PeerConnection', CONN)], '`if self.parent`, `if not peer.connection` decide whether there is a parent / a live connection')
    _d13.identity_semantics(eng, ck, 'R-C13-ADMIT', [('PeerConnection', CONN)], 'get_distributed_peer and the child list compare connections; two connections of one user are different connections')
    _d13.on_message_registers(eng, ck, 'R-C13-ADVERT', 'branch level / root announcements and child admission arrive through @on_message handlers')
    announced_values_rule(eng, ck)


def announced_values_rule(eng: Engine, ck: Check):
    """R-C13-ADVERT (inputs): the position we advertise is computed from the level / root the parent LAST announced, so the handlers of
    those announcements must store what was announced: DistributedBranchLevel(n) sets the peer's level to n and -- level 0 meaning "I am
    the root myself", the root message is then optional -- its root to its own name; DistributedBranchRoot(u) sets the root to u.  The
    stores are read with the effect extractor of C19; the only conditions accepted on them are "the peer is known", the level-0 test
    and a skip-when-unchanged test on the stored field itself."""
    from .c19 import effects_of

    def peer_known(cnd: str) -> bool:
        return 'get_distributed_peer' in cnd and not any(op in cnd for op in ('==', '!=', ' is ', ' in ', '<', '>', '.branch_'))

    def unchanged_skip(cnd: str, fld: str, value: str) -> bool:
        c = cnd.replace(' ', '')
        return c.startswith('not') and c.endswith(f'.{fld}=={value}'.replace(' ', '')) or (not c.startswith('not') and c.endswith(f'.{fld}!={value}'.replace(' ', '')))
    want = {
        'DistributedNetwork._on_distributed_branch_level': [('branch_level', 'message.level', set()), ('branch_root', None, {'message.level == 0'})],
        'DistributedNetwork._on_distributed_branch_root': [('branch_root', 'message.username', set())],
    }
    for qn, stores in want.items():
        f = eng.func(DIST, qn)
        ck.visited(f)
        effs = [e for e in effects_of(eng, f) if e['field'] in ('branch_level', 'branch_root') and e['kind'] == 'SET']
        for fld, value, needed in stores:
            cands = [e for e in effs if e['field'] == fld and (value is None and e['value'].endswith(('.username', '.us')) or e['value'] == value)]
            ok, why = False, f'no store of {fld}'
            for e in cands:
                conds = set(e['if'])
                extra = {c for c in conds if not peer_known(c) and c not in needed and not unchanged_skip(c, fld, e.get('value_full', e['value']))}
                if needed <= conds and not extra and not e['each']:
                    ok = True
                else:
                    why = f'stored only under {sorted(extra) or sorted(conds)}'
            what = f'{fld} := {value or "the peer itself"}' + (f' when {sorted(needed)[0]}' if needed else '')
            ck.ob('R-C13-ADVERT', f, f.node, f'{qn.split(".")[-1]}: {what}, with no further condition', ok,
                  f'{why}: a later announcement that does not meet it leaves the old value in place; we go on telling the server and every child a root / level '
                  'the parent no longer has', construct=f'{qn.split(".")[-1]} stores {fld}')
