"""C18 — search results reach only live requests; removal and timeouts exact."""
from __future__ import annotations
from .common import *

TASKS = 'tasks.py'


def run(eng: Engine, ck: Check):
    repo = eng.repo
    sm = eng.cls('SearchManager', SEARCH)

    # ---- R-C18-TICKETS: single allocator for keys of SearchManager.requests
    stores = []
    for f in repo.all_funcs():
        for n in walk_local(f.node):
            if isinstance(n, ast.Assign):
                for t in n.targets:
                    if isinstance(t, ast.Subscript) and isinstance(t.value, ast.Attribute) and t.value.attr == 'requests' and \
                            ('search' in unparse(t.value).lower() or (f.cls is sm and unparse(t.value) == 'self.requests')):
                        stores.append((f, n, t))
    ck.floor('R-C18-TICKETS', len(stores), 2)

    def key_source(fn: FuncInfo, key: ast.AST, depth=3) -> str:
        """Which generator does the key value come from?"""
        e = expand_aliases(fn, key)
        s = unparse(e)
        m = [x for x in ast.walk(e) if isinstance(x, ast.Call) and call_name(x) == 'next' and x.args]
        if m:
            return unparse(m[0].args[0])
        # attribute of self assigned from next(...) in this function
        if isinstance(key, ast.Attribute):
            for f2, st, v in eng.stores_to_attr(key.attr, [fn]):
                if v is not None:
                    mm = [x for x in ast.walk(v) if isinstance(x, ast.Call) and call_name(x) == 'next' and x.args]
                    if mm:
                        return unparse(mm[0].args[0])
        # `request.ticket` of a parameter: follow callers' argument construction
        if isinstance(key, ast.Attribute) and isinstance(key.value, ast.Name) and key.value.id in fn.params and depth > 0:
            srcs = set()
            idx = fn.params.index(key.value.id) - (1 if fn.params and fn.params[0] == 'self' else 0)
            for caller, call, how in eng.res.callers_of(fn):
                if how != 'call' or idx >= len(call.args):
                    continue
                a = expand_aliases(caller, call.args[idx])
                if isinstance(a, ast.Call):
                    kv = kw(a, key.attr) or (a.args[0] if a.args else None)
                    if kv is not None:
                        srcs.add(key_source(caller, kv, depth - 1))
            if len(srcs) == 1:
                return next(iter(srcs))
            return f'multiple/unknown {sorted(srcs)}'
        return f'unknown ({s[:40]})'
    for f, n, t in stores:
        ck.visited(f)
        src = key_source(f, t.slice)
        ok = src == 'self._ticket_generator' and f.cls is sm
        ck.ob('R-C18-TICKETS', f, n, 'every search request is registered under a ticket drawn from SearchManager\'s own generator '
              '(two generators both start at the same value: their tickets collide and one live request overwrites the other)', ok,
              f'key `{unparse(t.slice)}` comes from `{src}` in {f.qualname}', construct=f'{f.qualname} registers request')
    gens = [(f, st) for f, st, v in eng.stores_to_attr('_ticket_generator') if f.cls is sm]
    ck.ob('R-C18-TICKETS', sm, sm.node, 'SearchManager has exactly one ticket generator, created at construction', len(gens) == 1 and gens[0][0].name == '__init__', '',
          construct='single generator')
    tg = eng.func('utils.py', 'ticket_generator')
    ys = [n for n in walk_local(tg.node) if isinstance(n, ast.Yield) and isinstance(n.value, ast.Name)]
    ok = False
    if len(ys) == 1:
        cn = ys[0].value.id
        loop_ = next((a for a in ancestors(ys[0]) if isinstance(a, ast.While) and const(a.test) is True), None)
        incs = [n for n in walk_local(tg.node) if isinstance(n, ast.AugAssign) and isinstance(n.op, ast.Add) and unparse(n.target) == cn and const(n.value) == 1]
        wraps = [n for n in walk_local(tg.node) if isinstance(n, ast.Assign) and unparse(n.targets[0]) == cn and loop_ is not None and loop_ in list(ancestors(n))]
        wrap_ok = all(any(pol and (cmp_atom(e) or ('',))[0] in ('gt', 'ge') and unparse(cmp_atom(e)[1]) == cn and
                          const(cmp_atom(e)[2]) in (0xFFFFFFFF, 0x100000000) for e, pol, _ in eng.guards_at(tg, w_)) for w_ in wraps)
        ok = loop_ is not None and len(incs) == 1 and loop_ in list(ancestors(incs[0])) and not eng.guards_at(tg, incs[0])[1:] and wrap_ok and len(wraps) <= 1
    ck.ob('R-C18-TICKETS', tg, tg.node, 'ticket_generator yields strictly increasing values and wraps only beyond 2^32-1', ok, '', construct='generator monotone')

    # ---- R-C18-TIMER: removal vs timer
    removals = []
    for f in repo.all_funcs():
        if f.cls is not sm:
            continue
        for x in calls_in(f.node):
            if call_name(x) == 'pop' and unparse(x.func.value) == 'self.requests':
                removals.append((f, x, 'pop'))
        for n in walk_local(f.node):
            if isinstance(n, ast.Delete) and any(isinstance(t, ast.Subscript) and unparse(t.value) == 'self.requests' for t in n.targets):
                removals.append((f, n, 'del'))
    ck.floor('R-C18-TIMER', len(removals), 2)
    tcb = eng.func(SEARCH, 'SearchManager._timeout_search_request')
    for f, x, kind in removals:
        ck.visited(f)
        if f is tcb:
            # the timer's own callback: must tolerate a request that is already gone and report the removal only if it removed something
            tolerant = (kind == 'pop' and len(x.args) == 2) or protected_by_try_catching(eng, f, x, 'KeyError') is not None or \
                any(pol and (cmp_atom(e) or ('',))[0] in ('in', 'is', 'eq') and 'self.requests' in unparse(e) for e, pol, _ in eng.guards_at(f, x))
            ck.ob('R-C18-TIMER', f, x, 'the timeout callback tolerates a request that was already removed (no KeyError in the timer task)', tolerant,
                  f'`{unparse(x)}` raises KeyError when the user removed the request before the deadline', construct='timeout tolerant')
            ems = [y for y in calls_on(f.node, 'emit') if 'SearchRequestRemovedEvent' in unparse(y)]
            c = eng.cfg(f)
            ok = len(ems) == 1
            if ok:
                # emit only on paths where something was removed: guarded by membership / not reached from the KeyError handler / pop result test
                en = c.nodes_for(ems[0])[0]
                guarded = any(pol and ((cmp_atom(e) or ('',))[0] in ('in', 'is', 'eq') and 'self.requests' in unparse(e)) for e, pol, _ in eng.guards_at(f, ems[0])) or \
                    any((not pol) and (cmp_atom(e) or ('',))[0] == 'is' and is_none_const(cmp_atom(e)[2]) for e, pol, _ in eng.guards_at(f, ems[0])) or \
                    any(pol and isinstance(e, ast.Name) for e, pol, _ in eng.guards_at(f, ems[0]))
                hnodes = [n for n in c.nodes if n.kind == 'handler' and 'KeyError' in handler_type_names(n.ast)]
                via_handler = any(en in c.reach_from([h]) for h in hnodes)
                ok = (guarded or (bool(hnodes) and not via_handler)) if tolerant else True
            ck.ob('R-C18-TIMER', f, f.node, 'the removal is reported exactly once: only when the callback actually removed the request', ok,
                  'SearchRequestRemovedEvent is emitted even when nothing was removed', construct='timeout emits once')
            continue
        # any other removal site must cancel the request's timer first
        fn_src = f.node
        canc = [y for y in calls_in(fn_src) if call_name(y) == 'cancel' and 'timer' in unparse(y.func.value)]
        c = eng.cfg(f)
        xn = c.nodes_for(x)
        cn = [n for y in canc for n in c.nodes_for(y)]
        ok = bool(canc)
        tolerant = (kind == 'pop' and len(x.args) == 2) or protected_by_try_catching(eng, f, x, 'KeyError') is not None
        ck.ob('R-C18-TIMER', f, x, f'{f.name}: removing a request cancels its timeout timer (a superseded timer must not fire later)', ok,
              f'`{unparse(x)}` leaves the request\'s timer armed: at the deadline the callback runs for a request that is gone', construct=f'{f.name} cancels timer')
        ck.ob('R-C18-LOOKUP', f, x, f'{f.name}: removing an unknown/already removed ticket is not an error', tolerant, 'raises KeyError', construct=f'{f.name} tolerant',
              advisory=True)
    # the timeout callback runs INSIDE the timer's task: it must not cancel that timer (Task.cancel() on the running task makes the
    # next real suspension -- the emit that reports the removal -- raise CancelledError: listeners are cut off mid-way)
    def cancels_timer(fn: FuncInfo, depth: int = 2):
        for y in calls_in(fn.node):
            if call_name(y) == 'cancel' and isinstance(y.func, ast.Attribute) and mentions_attr(y.func.value, 'timer'):
                return fn, y
            if depth > 0:
                for cal in eng.res.callees(y, fn):
                    if cal.cls is fn.cls and cal is not fn:
                        r_ = cancels_timer(cal, depth - 1)
                        if r_:
                            return fn, y
        return None
    sc_ = cancels_timer(tcb)
    has_await_after = any(isinstance(n, ast.Await) for n in walk_local(tcb.node))
    ck.ob('R-C18-TIMER', tcb, sc_[1] if sc_ else tcb.node, 'the timeout callback does not cancel the timer it is running in', not (sc_ and has_await_after),
          (f'`{unparse(sc_[1])[:60]}` cancels request.timer from within its own task, and the callback still awaits afterwards: CancelledError is thrown into the '
           'emit of SearchRequestRemovedEvent at the first listener that really suspends; later listeners never hear of the removal') if sc_ else '',
          construct='timeout callback no self-cancel')
    # timers are armed with the configured timeout and the request as argument
    tm = [x for f in repo.all_funcs() if f.cls is sm for x in calls_in(f.node) if call_name(x) == 'Timer']
    ck.floor('R-C18-TIMER.create', len(tm), 2)
    for x in tm:
        f = next(ff for ff in repo.all_funcs() if ff.cls is sm and any(y is x for y in calls_in(ff.node)))
        cbk = kw(x, 'callback')
        # the request the timer is stored on / created for: `request.timer = Timer(..)` or SearchRequest(.., timer=Timer(..))
        stt = enclosing_stmt(x)
        owner = unparse(stt.targets[0].value) if isinstance(stt, ast.Assign) and isinstance(stt.targets[0], ast.Attribute) and stt.targets[0].attr == 'timer' else None
        ok = cbk is not None and owner is not None and pat.match(cbk, pat.compile_pattern(f'partial(self._timeout_search_request, {owner})')[0]) is not None
        why = unparse(cbk) if cbk is not None else 'no callback'
        if not ok and isinstance(cbk, ast.Lambda) and owner is not None and not (cbk.args.kwonlyargs or cbk.args.vararg or cbk.args.kwarg) and \
                len(cbk.args.defaults) == len(cbk.args.args) and cbk.args.args:
            # every parameter has a default: called without arguments (Timer.runner does) the defaults are what it uses, and defaults are evaluated
            # when the lambda is CREATED -- the eager idiom.  Judge the body with the defaults substituted.
            dmap = {a_.arg: d_ for a_, d_ in zip(cbk.args.args, cbk.args.defaults)}

            class _S(ast.NodeTransformer):
                def visit_Name(self, n_):
                    return ast.parse(unparse(dmap[n_.id]), mode='eval').body if isinstance(n_.ctx, ast.Load) and n_.id in dmap else n_
            body_ = unparse(_S().visit(ast.parse(unparse(cbk.body), mode='eval').body))
            ok = body_ == f'self._timeout_search_request({owner})'
            why = '' if ok else f'with its defaults the callback runs `{body_}`'
        elif not ok and isinstance(cbk, ast.Lambda) and owner is not None and not (cbk.args.args or cbk.args.kwonlyargs or cbk.args.vararg or cbk.args.kwarg) and \
                unparse(cbk.body) in (f'self._timeout_search_request({owner})',):
            # a closure names the same request -- provided it reads the variable it was created with: inside a loop that re-binds the name it
            # reads the LAST request of the round when it runs (partial binds the object at creation)
            loops_ = [a_ for a_ in ancestors(x) if isinstance(a_, (ast.For, ast.AsyncFor, ast.While))]
            rebound = any(isinstance(n_, ast.Name) and n_.id == owner and isinstance(n_.ctx, ast.Store) for lp_ in loops_ for n_ in ast.walk(lp_))
            ok = not rebound
            why = f'`{unparse(cbk)}` is created in a loop that re-binds `{owner}`: every timer of the round removes the last request of the round, the others stay registered for ever' if rebound else ''
        ck.ob('R-C18-TIMER', f, x, 'the timer removes exactly the request it was created for', ok, why, construct=f'{f.name} timer callback')
        starts = [y for y in calls_on(f.node, 'start') if 'timer' in unparse(y.func.value)]
        ck.ob('R-C18-TIMER', f, x, 'a created timer is started', len(starts) == 1, '', construct=f'{f.name} timer started')
    at = eng.func(SEARCH, 'SearchManager._attach_request_timer_and_emit')
    for x in [y for y in calls_in(at.node) if call_name(y) == 'Timer']:
        gs = [(unparse(e), pol) for e, pol, _ in eng.guards_at(at, x)]
        to = kw(x, 'timeout')
        ok = gs == [('self._settings.searches.send.request_timeout > 0', True)] and unparse(to) == 'self._settings.searches.send.request_timeout'
        ck.ob('R-C18-TIMER', at, x, 'a request gets a timer iff request_timeout > 0, with that timeout', ok, f'{gs} timeout={unparse(to)}', construct='timer iff timeout configured')
    c = eng.cfg(at)
    reg = [n for n in walk_local(at.node) if isinstance(n, ast.Assign) and any(isinstance(t, ast.Subscript) and unparse(t.value) == 'self.requests' for t in n.targets)]
    ems = [y for y in calls_on(at.node, 'emit')]
    ok = bool(reg) and bool(ems) and c.nodes_for(reg[0])[0] in c.dominators()[c.nodes_for(ems[0])[0]] and c.suspension_between(c.entry, c.nodes_for(reg[0])[0]) is None
    ck.ob('R-C18-TIMER', at, at.node, 'the request is registered (before anything suspends) and then announced', ok, '', construct='register then emit')

    # ---- R-C18-TIMERCLASS
    tc = eng.cls('Timer', TASKS)
    st, ca, rs, un = (tc.methods.get(k) for k in ('start', 'cancel', 'reschedule', '_unset_task'))
    for nm, m in (('start', st), ('cancel', ca), ('reschedule', rs)):
        if m is None:
            raise AnalysisError(f'Timer.{nm} vanished')
        ck.visited(m)
    for f, s, v in eng.stores_to_attr('_task', [st]):
        g = eng.guarded_by(st, s, lambda e, pol: (mentions_attr(e, '_task') and ((pol and (cmp_atom(e) or ('',))[0] == 'is') or
                                                                               ((not pol) and isinstance(e, ast.Attribute)))))
        pre_cancel = [y for y in calls_in(st.node) if call_name(y) == 'cancel']
        c = eng.cfg(st)
        pc = pre_cancel and all(c.nodes_for(pre_cancel[0])[0] in c.dominators()[n] for n in c.nodes_for(s))
        ck.ob('R-C18-TIMERCLASS', st, s, 'Timer.start never overwrites the handle of a running timer task (guard on an empty slot, or cancel first)',
              g is not None or bool(pc), 'start() on an armed timer loses the handle of the old task: it can no longer be cancelled and fires for the superseded deadline',
              construct='Timer.start slot write')
    if un is not None:
        used_as_cb = any(unparse(y.args[0]) == 'self._unset_task' for y in calls_on(st.node, 'add_done_callback') if y.args)
        for f, s, v in eng.stores_to_attr('_task', [un]):
            p = [x for x in un.params if x != 'self']
            g = eng.guarded_by(un, s, lambda e, pol: bool(cmp_atom(e)) and cmp_atom(e)[0] in ('is', 'eq') and pol and mentions_attr(e, '_task') and
                               any(mentions_name(e, y) for y in p))
            ck.ob('R-C18-TIMERCLASS', un, s, 'the done-callback clears the slot only if it still holds the task that finished', g is not None or not used_as_cb,
                  'after reschedule() the cancelled old task completes later and its callback erases the handle of the NEW task: cancel() then returns None '
                  'and the callback still fires', construct='Timer._unset_task identity')
    # the same for EVERY place that empties the slot (a `finally` in the runner, another callback): it either has just cancelled the task
    # the slot holds (same synchronous stretch), or it has checked that the slot still holds the task that is finishing
    for m in tc.methods.values():
        if m is un:
            continue
        for f, s, v in eng.stores_to_attr('_task', [m]):
            if not is_none_const(v) or m.name == '__init__':
                continue
            ck.visited(m)
            cm = eng.cfg(m)
            just_cancelled = any(cm.nodes_for(y) and all(cm.nodes_for(y)[0] in cm.dominators()[n] and cm.suspension_between(cm.nodes_for(y)[0], n) is None for n in cm.nodes_for(s))
                                 for y in calls_in(m.node) if call_name(y) == 'cancel' and isinstance(y.func, ast.Attribute) and
                                 unparse(expand_aliases(m, y.func.value)) == 'self._task')
            ident = eng.guarded_by(m, s, lambda e, pol: bool(cmp_atom(e)) and cmp_atom(e)[0] in ('is', 'eq') and pol and mentions_attr(e, '_task') and
                                   (any(mentions_name(e, y) for y in m.params if y != 'self') or 'current_task' in unparse(e)), no_suspension=True)
            ck.ob('R-C18-TIMERCLASS', m, s, f'Timer.{m.name} empties the slot only for the task it has just cancelled, or after checking that the slot still holds the finishing task',
                  just_cancelled or ident is not None, 'the cancelled old task of a reschedule() runs this store one loop turn later and erases the handle of the NEW task: '
                  'cancel() becomes a no-op, the timer fires although it was cancelled, and fires for the superseded deadline as well', construct=f'Timer.{m.name} empties slot')
    c = eng.cfg(ca)
    cc = [y for y in calls_in(ca.node) if call_name(y) == 'cancel']
    ok = len(cc) >= 1 and any(is_none_const(v) for f, s, v in eng.stores_to_attr('_task', [ca]))
    rets = [n for n in walk_local(ca.node) if isinstance(n, ast.Return) and n.value is not None and not is_none_const(n.value)]
    ck.ob('R-C18-TIMERCLASS', ca, ca.node, 'Timer.cancel cancels the task it takes out of the slot and returns it', ok and len(rets) == 1, '', construct='Timer.cancel')
    c = eng.cfg(rs)
    cn = [n for y in calls_on(rs.node, 'cancel') for n in c.nodes_for(y)]
    sn = [n for y in calls_on(rs.node, 'start') for n in c.nodes_for(y)]
    ok = bool(cn) and bool(sn) and all(cn[0] in c.dominators()[n] for n in sn) and not any(eng.guards_at(rs, y) for y in calls_on(rs.node, 'cancel'))
    ck.ob('R-C18-TIMERCLASS', rs, rs.node, 'reschedule = cancel the old deadline, then start the new one', ok, '', construct='Timer.reschedule')
    run_ = tc.methods.get('runner')
    ok = run_ is not None and [unparse(n.value)[:40] for n in walk_local(run_.node) if isinstance(n, ast.Await)] == ['asyncio.sleep(self.timeout)', 'self.callback()']
    ck.ob('R-C18-TIMERCLASS', run_ or tc, (run_ or tc).node, 'the timer sleeps the timeout, then runs the callback once', ok, '', construct='Timer.runner')

    # ---- R-C18-LOOKUP
    pr = eng.func(SEARCH, 'SearchManager._on_peer_search_reply')
    ck.visited(pr)
    c = eng.cfg(pr)
    ems = [y for y in calls_on(pr.node, 'emit') if 'SearchResultEvent' in unparse(y)]
    lookups = [n for n in walk_local(pr.node) if (isinstance(n, ast.Subscript) and unparse(n.value) == 'self.requests' and isinstance(n.ctx, ast.Load)) or
               (isinstance(n, ast.Call) and call_name(n) == 'get' and unparse(n.func.value) == 'self.requests')]
    ck.floor('R-C18-LOOKUP', min(len(ems), len(lookups)), 1)
    for lk in lookups:
        key = lk.slice if isinstance(lk, ast.Subscript) else lk.args[0]
        ck.ob('R-C18-LOOKUP', pr, lk, 'the request is looked up by the ticket the reply carries', unparse(key) == 'message.ticket', unparse(key), construct='lookup by ticket')
    for y in ems:
        en = c.nodes_for(y)[0]
        # found-path only
        hn = [n for n in c.nodes if n.kind == 'handler' and 'KeyError' in handler_type_names(n.ast)]
        via_missing = any(en in c.reach_from([h]) for h in hn)
        none_ok = True
        if any(isinstance(lk, ast.Call) for lk in lookups):
            none_ok = any((not pol) and (cmp_atom(e) or ('',))[0] == 'is' and is_none_const(cmp_atom(e)[2]) for e, pol, _ in eng.guards_at(pr, y)) or \
                any(pol and isinstance(e, ast.Name) for e, pol, _ in eng.guards_at(pr, y))
        ck.ob('R-C18-LOOKUP', pr, y, 'a result is reported only when the ticket matched a registered request', (not via_missing) and none_ok and bool(hn or none_ok),
              'the emit is reachable on the ticket-not-found path', construct='result only for known ticket')
        lkn = [n for lk in lookups for n in c.nodes_for(lk)]
        s = None
        for l in lkn:
            s = s or c.suspension_between(l, en)
        ck.ob('R-C18-LOOKUP', pr, y, 'no suspension between the lookup and the report (the request cannot be removed in between)', s is None,
              f'suspension at line {s.lineno} between the ticket lookup and the SearchResultEvent: a removal or timeout of the request in that window '
              'still gets a result reported' if s else '', construct='lookup-report atomic')
        ev = next(z for z in ast.walk(y) if isinstance(z, ast.Call) and 'SearchResultEvent' in unparse(z.func))
        lhs = [unparse(n.targets[0]) for n in walk_local(pr.node) if isinstance(n, ast.Assign) and any(x is lk for lk in lookups for x in ast.walk(n.value))]
        ck.ob('R-C18-LOOKUP', pr, y, 'the event carries the request that was found', bool(lhs) and unparse(ev.args[0]) == lhs[0], '', construct='event carries request')
    apps = [y for y in calls_on(pr.node, 'append') if 'results' in unparse(y.func.value)]
    for y in apps:
        hn = [n for n in c.nodes if n.kind == 'handler' and 'KeyError' in handler_type_names(n.ast)]
        ck.ob('R-C18-LOOKUP', pr, y, 'results are stored only on the found request', not any(c.nodes_for(y)[0] in c.reach_from([h]) for h in hn), '', construct='store only for known')
    from . import defs as _defs_emit
    _defs_emit.event_bus_emit_contains(eng, ck, 'R-C18-TIMER', 'the timeout callback and the reply handler await emit() between bookkeeping steps')
    from . import defs as _d18
    _d18.presence_truthiness(eng, ck, 'R-C18-TIMER', [('Timer', 'tasks.py'), ('SearchRequest', 'search/model.py')], 'the wishlist job starts a timer under `if request.timer:`, removal cancels it under the same test')
