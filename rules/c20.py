"""C20 — bandwidth limits (structural safety clauses only)."""
from __future__ import annotations
import copy
from .common import *
import math

RL = 'network/rate_limiter.py'


def swap_text(s: str) -> str:
    return s.replace('upload', '\0').replace('download', 'upload').replace('\0', 'download')


def run(eng: Engine, ck: Check):
    repo = eng.repo
    lim = eng.cls('LimitedRateLimiter', RL)
    unl = eng.cls('UnlimitedRateLimiter', RL)
    at, tk, rf, cp, ie = (lim.methods.get(k) for k in ('add_tokens', 'take_tokens', 'refill', 'copy_tokens', 'is_empty'))
    for nm, m in (('add_tokens', at), ('take_tokens', tk), ('refill', rf), ('copy_tokens', cp), ('is_empty', ie)):
        if m is None:
            raise AnalysisError(f'LimitedRateLimiter.{nm} vanished')
        ck.visited(m)

    # ---- R-C20-CAP
    writers = [(f, st, v) for f, st, v in eng.stores_to_attr('bucket') if f.module.rel == RL]
    ck.floor('R-C20-CAP', len(writers), 3)
    for f, st, v in writers:
        if f.name == '__init__':
            ck.ob('R-C20-CAP', f, st, 'the bucket starts empty', const(v) == 0, unparse(st), construct='bucket initial')
            continue
        if isinstance(st, ast.AugAssign) and isinstance(st.op, ast.Sub):
            ok = f is tk
            ck.ob('R-C20-CAP', f, st, 'the bucket is decreased only by take_tokens', ok, f.qualname, construct=f'{f.qualname} decreases bucket')
            continue
        ok = f is at
        ck.ob('R-C20-CAP', f, st, 'every store that can increase the bucket is inside add_tokens (where the clamp is)', ok,
              f'`{unparse(st)}` in {f.qualname} bypasses the clamp to limit_bps', construct=f'{f.qualname} writes bucket')
    # add_tokens clamps on every path
    c = eng.cfg(at)
    incs = [st for f, st, v in writers if f is at and isinstance(st, ast.AugAssign) and isinstance(st.op, ast.Add)]
    clamp_if = [n for n in walk_local(at.node) if isinstance(n, ast.If) and (cmp_atom(n.test) or ('',))[0] in ('gt', 'ge') and
                unparse(cmp_atom(n.test)[1]) == 'self.bucket' and unparse(cmp_atom(n.test)[2]) == 'self.limit_bps' and
                any(isinstance(x, ast.Assign) and unparse(x.targets[0]) == 'self.bucket' and unparse(x.value) == 'self.limit_bps' for x in n.body)]
    clamp_min = [st for f, st, v in writers if f is at and isinstance(st, ast.Assign) and isinstance(v, ast.Call) and call_name(v) == 'min' and
                 any(unparse(a) == 'self.limit_bps' for a in v.args)]
    ok = False
    if incs and clamp_if:
        # the clamp test post-dominates the increment on normal paths
        inc_n = c.nodes_for(incs[0])[0]
        test_n = c.nodes_for(clamp_if[0].test)
        p = c.find_path([s for s, lab in inc_n.succ if lab == 'next'], lambda n: n.kind == 'exit_return', avoid=lambda n: n in test_n,
                        edge_ok=lambda a, b, lab: lab == 'next')
        starts = [s for s, lab in inc_n.succ if lab == 'next']
        ok = p is None and not any(s.kind == 'exit_return' for s in starts) and not eng.guards_at(at, clamp_if[0])
    if clamp_min and not incs:
        ok = True
    # the same clamp written as one conditional store: `bucket = limit if <new> > limit else <new>` (expression or if/else statement)
    plain = [st for f, st, v in writers if f is at and isinstance(st, ast.Assign)]
    if plain and not incs and not ok:
        def arm_bounded(conds, leaf) -> bool:
            lt = unparse(expand_aliases(at, leaf))
            if unparse(leaf) == 'self.limit_bps':
                return True
            if isinstance(leaf, ast.Call) and call_name(leaf) == 'min' and any(unparse(a_) == 'self.limit_bps' for a_ in leaf.args):
                return True
            for e_, pol_ in conds:
                a_ = cmp_atom(e_)
                if not a_:
                    continue
                l_, r_ = unparse(expand_aliases(at, a_[1])), unparse(expand_aliases(at, a_[2]))
                if a_[0] in ('gt', 'ge') and not pol_ and l_ == lt and r_ == 'self.limit_bps':      # not (new > limit)
                    return True
                if a_[0] in ('lt', 'le') and pol_ and l_ == lt and r_ == 'self.limit_bps':           # new <= limit
                    return True
                if a_[0] in ('lt', 'le') and not pol_ and r_ == lt and l_ == 'self.limit_bps':       # not (limit < new)
                    return True
                if a_[0] in ('gt', 'ge') and pol_ and r_ == lt and l_ == 'self.limit_bps':           # limit >= new
                    return True
            return False
        ok = all(arm_bounded(conds, leaf) for st in plain for conds, leaf in cond_values(eng, at, st))
    ck.ob('R-C20-CAP', at, at.node, 'add_tokens never leaves more than limit_bps (one second of traffic) in the bucket: clamp on every path', ok,
          'no `if bucket > limit_bps: bucket = limit_bps` (or min()) after the increment', construct='add_tokens clamps')
    # take_tokens: deducts exactly what it returns, only after refill reported non-empty
    decs = [st for f, st, v in writers if f is tk and isinstance(st, ast.AugAssign)]
    rets = [n for n in walk_local(tk.node) if isinstance(n, ast.Return)]
    ok = len(decs) == 1 and len(rets) == 1 and unparse(decs[0].value) == unparse(rets[0].value)
    ck.ob('R-C20-CAP', tk, tk.node, 'take_tokens hands out exactly the amount it deducts', ok,
          f'deducts {[unparse(d.value) for d in decs]}, returns {[unparse(r.value) for r in rets]}', construct='take == deduct')
    if decs:
        gs = expanded_guards(eng, tk, decs[0])
        ok = any((not pol) and isinstance(e, ast.Call) and call_name(e) == 'refill' for e, pol, _ in gs) or \
            any((not pol) and unparse(e) == 'is_empty' for e, pol, _ in eng.guards_at(tk, decs[0])) or \
            any((not pol) and isinstance(e, ast.BoolOp) and isinstance(e.op, ast.And) and call_name(e.values[0]) == 'refill' and
                all(isinstance(v_, ast.Call) and call_name(v_) in ('refill', 'is_empty') and unparse(v_.func.value) == 'self' for v_ in e.values)
                for e, pol, _ in eng.guards_at(tk, decs[0]))      # not (refill() and is_empty()): the refill runs first, unconditionally; either way out is "not empty"
        ck.ob('R-C20-CAP', tk, decs[0], 'tokens are taken only after a refill that reported the bucket non-empty', ok, f'{[(unparse(e), p) for e, p, _ in gs]}',
              construct='take after non-empty refill')
        cdec = eng.cfg(tk)
        s = None
        for a in [a for e, pol, a in eng.guards_at(tk, decs[0])]:
            s = s or cdec.suspension_between(a, cdec.nodes_for(decs[0])[0])
        ck.ob('R-C20-CAP', tk, decs[0], 'no suspension between the non-empty test and the deduction (two connections cannot spend the same tokens)', s is None,
              f'suspension at line {s.lineno}' if s else '', construct='take atomic')
    mb = None
    for st in lim.node.body:
        if isinstance(st, ast.Assign) and unparse(st.targets[0]) == 'MIN_BUCKET_SIZE':
            mb = const(st.value)
    rets_e = [n for n in walk_local(ie.node) if isinstance(n, ast.Return)]
    ok = len(rets_e) == 1 and unparse(rets_e[0].value) == 'self.bucket < self.MIN_BUCKET_SIZE' and rets and unparse(rets[0].value) == 'self.MIN_BUCKET_SIZE'
    ck.ob('R-C20-CAP', ie, ie.node, 'non-empty means at least one chunk (MIN_BUCKET_SIZE) is available, and one chunk is what is handed out (bucket never negative)', ok, '',
          construct='is_empty threshold == chunk')
    # liveness of the smallest limit, from the constants alone.  refill() adds int((limit - bucket) * dt) and resets the clock on every
    # poll; take_tokens polls every INTERVAL seconds, so dt >= INTERVAL and an increment of at least one token is guaranteed only while
    # (limit - bucket) * INTERVAL >= 1.  The bucket is therefore only guaranteed to climb back to limit - 1/INTERVAL; a grant needs
    # bucket >= MIN_BUCKET_SIZE.  With the smallest configurable limit (1 KiB/s = 1024 tokens/s):  MIN_BUCKET_SIZE <= 1024 - 1/INTERVAL.
    interval = cval(repo, tk, ast.Name('INTERVAL', ast.Load())) if False else const(const_value(repo, repo.module(RL), 'INTERVAL'))
    sleeps = [x for x in calls_in(tk.node) if call_name(x) == 'sleep' and x.args]
    polls_interval = len(sleeps) == 1 and unparse(sleeps[0].args[0]) == 'INTERVAL'
    unit = 1024       # checked above: limit_bps = limit_kbps * 1024
    ok = isinstance(mb, int) and isinstance(interval, (int, float)) and interval > 0 and polls_interval and mb <= unit - math.ceil(1 / interval)
    ck.ob('R-C20-LIVE', lim, lim.node, 'the smallest positive limit (1 KiB/s) is granted tokens in bounded time: MIN_BUCKET_SIZE <= 1024 - 1/INTERVAL '
          '(the truncating refill stops adding once fewer than 1/INTERVAL tokens are missing)', ok,
          f'MIN_BUCKET_SIZE={mb}, INTERVAL={interval}: the bucket of a 1 KiB/s limiter is only guaranteed to reach {unit - math.ceil(1 / interval) if interval else "?"} '
          'tokens, fewer than one chunk: after the first grant take_tokens() polls forever and the transfer hangs', construct='smallest limit live')
    # refill: adds (limit - bucket) * dt through add_tokens, advances last_refill on every path that added
    adds = calls_on(rf.node, 'add_tokens')
    ok = len(adds) == 1
    if ok:
        a = expand_aliases(rf, adds[0].args[0])
        s = unparse(a)
        ok = '(self.limit_bps - self.bucket) * (current_time - self.last_refill)' in s.replace('time.monotonic()', 'current_time') or \
            '(self.limit_bps - self.bucket)' in s and 'self.last_refill' in s
        g = any(pol and (cmp_atom(e) or ('',))[0] == 'lt' and unparse(cmp_atom(e)[1]) == 'self.bucket' and unparse(cmp_atom(e)[2]) == 'self.limit_bps'
                for e, pol, _ in eng.guards_at(rf, adds[0]))
        ok = ok and g
    ck.ob('R-C20-CAP', rf, rf.node, 'refill adds (limit - bucket) * elapsed, only while bucket < limit, through add_tokens (so at most limit per second)', ok,
          f'{[unparse(x) for x in adds]}', construct='refill formula')
    lr = [(st, v) for f, st, v in eng.stores_to_attr('last_refill', [rf])]
    c = eng.cfg(rf)
    ok = len(lr) == 1
    if ok and adds:
        an = c.nodes_for(adds[0])[0]
        ln = c.nodes_for(lr[0][0])
        p = c.find_path([s for s, lab in an.succ if lab == 'next'], lambda n: n.kind == 'exit_return', avoid=lambda n: n in ln, edge_ok=lambda a, b, lab: lab == 'next')
        ok = p is None
        sa_ = single_assignments(rf)

        def uses(e, name, seen=()):
            for n in ast.walk(e):
                if isinstance(n, ast.Name):
                    if n.id == name:
                        return True
                    if n.id in sa_ and n.id not in seen and uses(sa_[n.id], name, seen + (n.id,)):
                        return True
            return False
        same_clock = isinstance(lr[0][1], ast.Name) and uses(adds[0].args[0], lr[0][1].id) and \
            'monotonic' in unparse(sa_.get(lr[0][1].id) or ast.Constant(value=0))
        ok = ok and bool(same_clock)
    ck.ob('R-C20-CAP', rf, rf.node, 'after adding tokens for an interval, last_refill is advanced to the very clock reading used (no interval is paid twice)', ok, '',
          construct='refill advances clock')
    cps = calls_on(cp.node, 'add_tokens')
    ok = len(cps) == 1 and unparse(cps[0].args[0]) == f'{cp.params[1]}.bucket' and not [st for f, st, v in writers if f is cp]
    ck.ob('R-C20-CAP', cp, cp.node, 'copy_tokens carries the old bucket over through add_tokens (clamped to the NEW limit)', ok, f'{[unparse(x) for x in cps]}',
          construct='copy_tokens clamps')
    lrs = [(st, v) for f, st, v in eng.stores_to_attr('last_refill', [cp])]
    ok = len(lrs) == 1 and unparse(lrs[0][1]) == f'{cp.params[1]}.last_refill'
    ck.ob('R-C20-CAP', cp, cp.node, 'copy_tokens carries the refill clock over (a new limiter does not start with a full second of credit)', ok, '',
          construct='copy_tokens clock')
    li = lim.methods['__init__']
    ok = any(kw(x, 'limit_bps') is not None and pat.match(kw(x, 'limit_bps'), pat.compile_pattern(f'{[p_ for p_ in li.params if p_ != "self"][0]} * 1024')[0]) is not None
             for x in calls_in(li.node)) or any(isinstance(n, ast.Assign) and unparse(n.targets[0]) == 'self.limit_bps' and pat.match(n.value, pat.compile_pattern(f'{[p_ for p_ in li.params if p_ != "self"][0]} * 1024')[0]) is not None for n in walk_local(li.node))
    ck.ob('R-C20-CAP', li, li.node, 'limit_bps = limit_kbps * 1024', ok, '', construct='limit unit')

    # ---- R-C20-GATE
    for q, lim_attr, io in (('PeerConnection.send_file', 'upload_rate_limiter', 'read'), ('PeerConnection.receive_file', 'download_rate_limiter', 'receive_data')):
        f = eng.func(CONN, q)
        ck.visited(f)
        c = eng.cfg(f)
        takes = [x for x in calls_on(f.node, 'take_tokens')]
        ios = [x for x in calls_on(f.node, io)]
        if io == 'read' and not ios:
            ios = [x for x in calls_on(f.node, 'readinto')]       # readinto(buffer[:n]) reads at most n bytes: the slice length is the size
        ck.floor(f'R-C20-GATE.{q}', min(len(takes), len(ios)), 1)
        ok = len(takes) == 1 and unparse(takes[0].func.value) == f'self.{lim_attr}' and isinstance(parent(takes[0]), ast.Await)
        ck.ob('R-C20-GATE', f, f.node, f'{q} takes tokens from `self.{lim_attr}`, read from the connection in every iteration '
              '(set_*_speed_limit replaces the limiter OBJECT on the connection; a reference hoisted out of the loop keeps a running transfer on the old limit)',
              ok, f'{[unparse(t) for t in takes]}', construct=f'{q} limiter')
        for x in ios:
            amount = x.args[0] if x.args else None
            if call_name(x) == 'readinto' and isinstance(amount, ast.Subscript) and isinstance(amount.slice, ast.Slice) and amount.slice.lower is None and \
                    amount.slice.step is None and amount.slice.upper is not None:
                amount = amount.slice.upper
            src = expand_aliases(f, amount) if amount is not None else None
            from_tokens = src is not None and any(call_name(y) == 'take_tokens' for y in ast.walk(src))
            tn = [n for t in takes for n in c.nodes_for(t)]
            xn = c.nodes_for(x)
            # within one loop iteration: every path from the loop head to the I/O passes take_tokens
            heads = [n for n in c.nodes if n.kind in ('test', 'loop') and any(isinstance(a, (ast.While, ast.For)) and (a.test if isinstance(a, ast.While) else a) is n.ast
                                                                                for a in ancestors(x))]
            p = c.find_path(heads or [c.entry], lambda n: n in xn, avoid=lambda n: n in tn)
            if amount is not None and any(any(y is t for y in ast.walk(amount)) for t in takes):
                p = None        # `io(await limiter.take_tokens())`: the argument is evaluated before the call
            ck.ob('R-C20-GATE', f, x, f'{q}: every chunk is moved only after take_tokens() in the same iteration, and its size is the granted token count',
                  bool(from_tokens) and p is None, f'size argument `{unparse(amount)}` (= `{unparse(src)}`); I/O reachable without taking tokens: {p is not None}',
                  construct=f'{q} chunk gated')
    movers = {'send_data': 'PeerConnection.send_file', 'receive_data': 'PeerConnection.receive_file'}
    for callee, owner in movers.items():
        cf = eng.func(CONN, f'PeerConnection.{callee}')
        for caller, call, how in eng.res.callers_of(cf):
            if how == 'call':
                ck.ob('R-C20-GATE', caller, call, f'file bytes move only through {owner} (the gated loop)', caller.qualname == owner, f'{callee} called from {caller.qualname}',
                      construct=f'{caller.qualname} calls {callee}')

    # ---- R-C20-SHARED
    # wherever a connection enters NEGOTIATING_TRANSFER (a file connection is finalised) it gets BOTH network-wide limiter objects, under the
    # FILE test and nothing else
    netc = eng.cls('Network', NET)
    n_fin = 0
    for fin in netc.methods.values():
        for call in calls_on(fin.node, 'set_connection_state'):
            if not (call.args and enum_member(call.args[0]) == 'NEGOTIATING_TRANSFER') or unparse(call.func.value) == 'self':
                continue
            n_fin += 1
            ck.visited(fin)
            cv = unparse(call.func.value)
            blk = parent(enclosing_stmt(call))
            sibs = [x for fld in ('body', 'orelse') for x in (getattr(blk, fld, []) or []) if any(y is enclosing_stmt(call) for y in getattr(blk, fld, []))]
            asg = {unparse(n.targets[0]): unparse(n.value) for n in sibs if isinstance(n, ast.Assign)}
            ok = asg.get(f'{cv}.download_rate_limiter') == 'self._download_rate_limiter' and asg.get(f'{cv}.upload_rate_limiter') == 'self._upload_rate_limiter'
            ck.ob('R-C20-SHARED', fin, call, 'file connections share the network-wide limiter objects (download<-download, upload<-upload, no copies)', ok, f'{asg}',
                  construct=f'finalize shares limiters in {fin.name}')
            for n in sibs:
                if isinstance(n, ast.Assign) and 'rate_limiter' in unparse(n.targets[0]):
                    gs = [(unparse(e), pol) for e, pol, _ in eng.guards_at(fin, n) if 'connection_type' in unparse(e)]
                    ck.ob('R-C20-SHARED', fin, n, 'the limiters are attached exactly to FILE connections', gs == [(f'{cv}.connection_type == PeerConnectionType.FILE', True)], f'{gs}',
                          construct=f'finalize {unparse(n.targets[0])} on FILE in {fin.name}')
    ck.floor('R-C20-SHARED.finalize', n_fin, 1)
    # no other place hands a limiter to a connection (except the two setters checked below)
    for fin in netc.methods.values():
        if fin.name in ('set_upload_speed_limit', 'set_download_speed_limit'):
            continue
        for n in walk_local(fin.node):
            if isinstance(n, ast.Assign) and any(isinstance(t_, ast.Attribute) and t_.attr in ('upload_rate_limiter', 'download_rate_limiter') and unparse(t_.value) != 'self' for t_ in n.targets):
                side = 'upload' if 'upload_rate_limiter' in unparse(n.targets[0]) else 'download'
                ck.ob('R-C20-SHARED', fin, n, 'a connection is only ever given the network-wide limiter of the same direction', unparse(n.value) == f'self._{side}_rate_limiter',
                      unparse(n), construct=f'{fin.name} assigns {side} limiter')
    su = eng.func(NET, 'Network.set_upload_speed_limit')
    sd = eng.func(NET, 'Network.set_download_speed_limit')
    ck.visited(su)
    ck.visited(sd)

    def body_text(fn: FuncInfo) -> str:
        n = copy.copy(fn.node)
        body = [s for s in fn.node.body if not (isinstance(s, ast.Expr) and isinstance(s.value, ast.Constant))]
        return '\n'.join(unparse(s) for s in body)
    a, b = body_text(su), body_text(sd)
    ck.ob('R-C20-SHARED', sd, sd.node, 'set_download_speed_limit is set_upload_speed_limit with upload<->download exchanged everywhere (sibling agreement: '
          'each side copies tokens from, replaces and distributes its OWN limiter)', swap_text(a) == b,
          'the two siblings differ after exchanging upload/download: ' + next((f'`{x}` vs `{y}`' for x, y in zip(swap_text(a).split('\n'), b.split('\n')) if x != y), ''),
          construct='speed limit siblings agree')
    for fn, side in ((su, 'upload'), (sd, 'download')):
        mk = pfind(fn.node, f'$n = RateLimiter.create_limiter({fn.params[1]})')
        ok = len(mk) == 1
        if ok:
            nl = mk[0][1]['n']
            cps = pfind(fn.node, f'{nl}.copy_tokens(self._{side}_rate_limiter)')
            inst = pfind(fn.node, f'self._{side}_rate_limiter = {nl}')
            loops = [n for n in walk_local(fn.node) if isinstance(n, ast.For) and unparse(n.iter) == 'self.peer_connections' and isinstance(n.target, ast.Name)
                     and (phas(n, f'{n.target.id}.{side}_rate_limiter = self._{side}_rate_limiter') or phas(n, f'{n.target.id}.{side}_rate_limiter = {nl}'))]
            ok = len(cps) == 1 and len(inst) == 1 and len(loops) == 1 and not eng.guards_at(fn, inst[0][0]) and not eng.guards_at(fn, loops[0])
            if ok:
                # the tokens are copied before the old limiter is replaced, and only an existing old limiter is copied from
                c_ = eng.cfg(fn)
                ok = c_.nodes_for(cps[0][0])[0].id < c_.nodes_for(inst[0][0])[0].id
        if not mk:
            # the copy as a responsibility of the factory: `self._x = RateLimiter.create_limiter(limit, previous=self._x)` where create_limiter
            # copies the tokens of `previous` into the limiter it returns (whenever there is a previous one)
            cl_ = eng.func(RL, 'RateLimiter.create_limiter')
            inst = pfind(fn.node, f'self._{side}_rate_limiter = RateLimiter.create_limiter({fn.params[1]}, previous=self._{side}_rate_limiter)') + \
                pfind(fn.node, f'self._{side}_rate_limiter = RateLimiter.create_limiter({fn.params[1]}, self._{side}_rate_limiter)')
            rets_ = {unparse(r_.value) for r_ in walk_local(cl_.node) if isinstance(r_, ast.Return) and r_.value is not None}
            prev_ = cl_.params[2] if len(cl_.params) > 2 else None
            cps = [x for x in calls_in(cl_.node) if call_name(x) == 'copy_tokens' and isinstance(x.func, ast.Attribute) and {unparse(x.func.value)} == rets_ and
                   prev_ is not None and len(x.args) == 1 and unparse(x.args[0]) == prev_ and
                   all(mentions_name(e_, prev_) and ((pol_ and isinstance(e_, ast.Name)) or
                                                     (isinstance(e_, ast.Compare) and len(e_.ops) == 1 and is_none_const(e_.comparators[0]) and
                                                      ((pol_ and isinstance(e_.ops[0], ast.IsNot)) or (not pol_ and isinstance(e_.ops[0], ast.Is)))))
                       for e_, pol_, _ in eng.guards_at(cl_, x))]
            loops = [n for n in walk_local(fn.node) if isinstance(n, ast.For) and unparse(n.iter) == 'self.peer_connections' and isinstance(n.target, ast.Name)
                     and phas(n, f'{n.target.id}.{side}_rate_limiter = self._{side}_rate_limiter')]
            ok = len(inst) == 1 and len(cps) == 1 and len(loops) == 1 and not eng.guards_at(fn, inst[0][0]) and not eng.guards_at(fn, loops[0]) and \
                eng.cfg(fn).nodes_for(inst[0][0])[0].id < eng.cfg(fn).nodes_for(loops[0])[0].id
        ck.ob('R-C20-SHARED', fn, fn.node, f'{fn.name}: builds the limiter with create_limiter(limit), copies tokens from the old {side} limiter, installs it and '
              're-assigns it to every registered connection', ok, '', construct=f'{fn.name} shape')
    cl = eng.func(RL, 'RateLimiter.create_limiter')
    rows = {}
    for r in [n for n in walk_local(cl.node) if isinstance(n, ast.Return)]:
        g = [(unparse(e), pol) for e, pol, _ in eng.guards_at(cl, r)]
        if isinstance(r.value, ast.Name) and not g:
            # `limiter = A() / B(..)` in the two branches, returned at the end: the assignments carry the table
            for a_ in [n for n in walk_local(cl.node) if isinstance(n, ast.Assign) and len(n.targets) == 1 and unparse(n.targets[0]) == r.value.id]:
                rows[unparse(a_.value)] = [(unparse(e), pol) for e, pol, _ in eng.guards_at(cl, a_)]
            continue
        rows[unparse(r.value)] = g
    ok = rows.get('UnlimitedRateLimiter()') == [('limit_kbps == 0', True)] and rows.get('LimitedRateLimiter(limit_kbps)') == [('limit_kbps == 0', False)]
    ck.ob('R-C20-SHARED', cl, cl.node, 'create_limiter(0) is the unlimited limiter, anything else a limited one with that limit', ok, f'{rows}', construct='create_limiter table')
    ut = unl.methods.get('take_tokens')
    ok = ut is not None and not [n for n in walk_local(ut.node) if isinstance(n, ast.Await)]
    ck.ob('R-C20-SHARED', ut or unl, (ut or unl).node, 'the unlimited limiter never suspends (no throttling without a limit)', ok, '', construct='unlimited never waits')
    # liveness hint (advisory): the waiting loop sleeps and re-evaluates
    loops = [n for n in walk_local(tk.node) if isinstance(n, ast.While)]
    sl = [x for x in calls_in(tk.node) if call_name(x) == 'sleep']
    ck.ob('R-C20-CAP', tk, tk.node, 'a waiting take_tokens sleeps INTERVAL and refills again (the wait is a polling loop, not a one-shot)', len(loops) == 1 and len(sl) == 1 and
          unparse(sl[0].args[0]) == 'INTERVAL', '', construct='take_tokens polls')
    from . import defs as _d20
    _d20.identity_semantics(eng, ck, 'R-C20-SHARED', [('PeerConnection', CONN)], 'set_*_speed_limit hands the new limiter to every connection in Network.peer_connections, which is kept exact by `in` / list.remove()')
