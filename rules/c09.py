"""C09 — peer-chosen names stay inside the download directory; no two downloads share a path."""
from __future__ import annotations
from .common import *

NAMING = 'naming.py'
UTILS = 'utils.py'
BAD = {'.', '..'}


def rejects_dot_components(fn: FuncInfo, repo=None) -> bool:
    """Does the function's filter / guard exclude the components '.' and '..'?  (literals, or a module-level tuple/set constant)"""
    lits = set()
    for n in walk_with_lambdas(fn.node):
        if isinstance(n, ast.Compare) and isinstance(n.ops[0], (ast.NotIn, ast.NotEq, ast.In, ast.Eq)):
            for c in ast.walk(n):
                if isinstance(c, ast.Constant) and c.value in BAD:
                    lits.add(c.value)
                if isinstance(c, ast.Name) and repo is not None:
                    d = const_value(repo, fn.module, c.id)
                    if d is None:
                        imp = fn.module.imports.get(c.id)
                        if imp and ':' in imp:
                            m = next((m_ for m_ in repo.modules.values() if m_.dotted == imp.split(':')[0]), None)
                            d = const_value(repo, m, imp.split(':')[1]) if m is not None else None
                    if d is not None:
                        lits |= {x.value for x in ast.walk(d) if isinstance(x, ast.Constant) and x.value in BAD}
    return lits == BAD


def free_name_rules(eng: Engine, ck: Check, rule: str):
    """A freshly chosen local path names a file that does not exist yet: the duplicate strategy applies iff the name is taken, matches
    the numbered siblings with an ESCAPED pattern and picks the smallest unused index (shared by C09: two downloads never share a path,
    and C04: a fresh download sends offset 0 and opens the file in append mode, which is only sound on a new file)."""
    repo = eng.repo
    nd = eng.func(NAMING, 'NumberDuplicateStrategy.apply')
    dirp, namep = nd.params[2], nd.params[3]
    facts = {}
    sp = pfind(nd.node, f'$stem, $ext = os.path.splitext({namep})')
    facts['stem and extension come from splitext(local_filename)'] = len(sp) == 1
    if sp:
        stem, ext = sp[0][1]['stem'], sp[0][1]['ext']
        sa_n = single_assignments(nd)
        lst = [x for x in calls_in(nd.node) if pat.match(x, pat.compile_pattern(f'os.listdir({dirp})')[0]) is not None]
        facts['the directory listing of local_dir is consulted'] = len(lst) == 1
        ms = regex_match_sites(nd)
        facts['every listed name is matched against escape(stem) + PATTERN + escape(ext)'] = len(ms) == 1 and string_parts(ms[0][1]) == [
            f're.escape({stem})', 'self.PATTERN', f're.escape({ext})']
        idx_src = pfind(nd.node, 'int($m.group(1))')
        facts['the captured number of every match is collected'] = len(idx_src) == 1
        # the list the numbers go to
        idx_name = None
        if idx_src:
            n0 = idx_src[0][0]
            par = parent(n0)
            if isinstance(par, ast.Call) and call_name(par) == 'append' and isinstance(par.func.value, ast.Name):
                idx_name = par.func.value.id
            else:
                st0 = enclosing_stmt(n0)
                if isinstance(st0, ast.Assign) and isinstance(st0.targets[0], ast.Name):
                    idx_name = st0.targets[0].id
        free = []
        if idx_name:
            for n_, bd_ in pfind(nd.node, f'min($cand - set({idx_name}))'):
                cand = expand_aliases(nd, ast.parse(bd_['cand'], mode='eval').body, depth=1)
                if pat.match(cand, pat.compile_pattern(f'set(range(min({idx_name}), num(max({idx_name}) + 2)))')[0]) is not None:
                    free.append(n_)
        # second idiom for the same number: walk the sorted DISTINCT indices from the smallest and stop at the first gap
        #   idx = sorted({..int(m.group(1))..});  nxt = idx[0] if idx else 1;  for i in idx: if i != nxt: break; nxt += 1
        # (distinct matters: two directory entries with the same number -- `x (1).mp3`, `x (1).mp3.bak` -- must not look like a gap)
        walk_nxt = None
        if idx_name and not free:
            idef = [n_ for n_ in walk_local(nd.node) if isinstance(n_, ast.Assign) and unparse(n_.targets[0]) == idx_name]
            distinct = len(idef) == 1 and isinstance(idef[0].value, ast.Call) and call_name(idef[0].value) == 'sorted' and len(idef[0].value.args) == 1 and (
                isinstance(idef[0].value.args[0], ast.SetComp) or (isinstance(idef[0].value.args[0], ast.Call) and call_name(idef[0].value.args[0]) in ('set', 'frozenset')))
            for lp_ in [n_ for n_ in walk_local(nd.node) if isinstance(n_, ast.For) and unparse(n_.iter) == idx_name and isinstance(n_.target, ast.Name)]:
                incs_ = [n_ for n_ in walk_local(lp_) if isinstance(n_, ast.AugAssign) and isinstance(n_.op, ast.Add) and const(n_.value) == 1 and isinstance(n_.target, ast.Name)]
                brks_ = [n_ for n_ in walk_local(lp_) if isinstance(n_, ast.Break)]
                if len(incs_) == 1 and len(brks_) == 1:
                    cand_ = incs_[0].target.id
                    eq_ = pat.compile_pattern(f'{lp_.target.id} == {cand_}')[0]
                    inc_ok = any(pat.match(e_, eq_) is not None and pol_ for e_, pol_, _ in eng.guards_at(nd, incs_[0])) and len(eng.guards_at(nd, incs_[0])) == 1
                    brk_ok = any(pat.match(e_, eq_) is not None and not pol_ for e_, pol_, _ in eng.guards_at(nd, brks_[0])) and len(eng.guards_at(nd, brks_[0])) == 1
                    inits_ = [(conds, leaf) for n_ in walk_local(nd.node) if isinstance(n_, ast.Assign) and unparse(n_.targets[0]) == cand_ and lp_ not in list(ancestors(n_))
                              for conds, leaf in cond_values(eng, nd, n_)]
                    first_ok = any(unparse(leaf) == f'{idx_name}[0]' and any(unparse(e_) == idx_name and pol_ for e_, pol_ in conds) for conds, leaf in inits_)
                    one_ok = any(const(leaf) == 1 and any(unparse(e_) == idx_name and not pol_ for e_, pol_ in conds) for conds, leaf in inits_)
                    if distinct and inc_ok and brk_ok and first_ok and one_ok and len(inits_) == 2:
                        walk_nxt = cand_
        facts['next index = min(set(range(min, max + 2)) - used): the smallest unused index'] = len(free) == 1 or walk_nxt is not None
        nxt = walk_nxt
        if free:
            stf = enclosing_stmt(free[0])
            nxt = unparse(stf.targets[0]) if isinstance(stf, ast.Assign) else None
            gs_ = [(unparse(e), pol) for e, pol, _ in eng.guards_at(nd, stf)]
            facts['that formula is used exactly when numbered files exist, otherwise the index is 1'] = gs_ == [(idx_name, True)] and any(
                isinstance(n_, ast.Assign) and unparse(n_.targets[0]) == nxt and const(n_.value) == 1 for n_ in walk_local(nd.node))
        js = [n_ for n_ in walk_local(nd.node) if isinstance(n_, ast.JoinedStr)]
        shape = None
        for j in js:
            shape = [(unparse(v_.value) if isinstance(v_, ast.FormattedValue) else v_.value) for v_ in j.values]
            if shape == [stem, ' (', nxt, ')', ext]:
                break
        facts['the new name is "<stem> (<index>)<ext>"'] = shape == [stem, ' (', nxt, ')', ext]
        rets_ = [n_ for n_ in walk_local(nd.node) if isinstance(n_, ast.Return)]
        facts['the directory is returned unchanged with the new name'] = len(rets_) == 1 and isinstance(rets_[0].value, ast.Tuple) and \
            unparse(rets_[0].value.elts[0]) == dirp and isinstance(expand_aliases(nd, rets_[0].value.elts[1]), ast.JoinedStr)
    bad_ = [k_ for k_, v_ in facts.items() if not v_]
    ck.ob(rule, nd, nd.node, 'the duplicate number is the smallest index NOT present in the directory listing and the new name is '
          '"<stem> (<index>)<ext>", the form the listing pattern recognises', not bad_, f'not established: {bad_}', construct='free index')
    dn = eng.func(NAMING, 'DuplicateNamingStrategy.should_be_applied')
    drets = [expand_aliases(dn, n.value) for n in walk_local(dn.node) if isinstance(n, ast.Return) and n.value is not None]
    ok = len(drets) == 1 and pat.match(drets[0], pat.compile_pattern(f'os.path.exists(os.path.join({dn.params[1]}, {dn.params[2]}))')[0]) is not None
    ck.ob(rule, dn, dn.node, 'a duplicate strategy applies iff join(dir, name) exists', ok, '', construct='duplicate test')
    sm_init = eng.func(SHARES, 'SharesManager.__init__')
    ns = [v for f, st, v in eng.stores_to_attr('naming_strategies', [sm_init])]
    ok = len(ns) == 1 and isinstance(ns[0], ast.List) and [call_name(e) for e in ns[0].elts][-1] == 'NumberDuplicateStrategy' and call_name(ns[0].elts[0]) == 'DefaultNamingStrategy'
    ck.ob(rule, sm_init, sm_init.node, 'the shipped chain starts with the default strategy and ends with the duplicate-numbering strategy', ok, '', construct='shipped chain')



def run(eng: Engine, ck: Check):
    repo = eng.repo
    srp = eng.func(UTILS, 'split_remote_path')
    ck.visited(srp)
    # the conditions under which split_remote_path KEEPS a component: the `if`s of the comprehension it returns, or the guards of the
    # append in the loop that builds the list
    kept: list[tuple[str, list[tuple[ast.AST, bool]]]] = []

    def separator_chars() -> set:
        """the characters the split pattern consumes (a character class repeated): no component can contain one of them"""
        import re._parser as rp
        d = const_value(repo, repo.module('constants.py'), 'PATH_SEPERATOR_PATTERN')
        src_ = const(d.args[0]) if isinstance(d, ast.Call) and d.args else const(d)
        out_ = set()
        try:
            for op_, av_ in rp.parse(src_ or ''):
                if str(op_) == 'MAX_REPEAT' and len(av_[2]) == 1 and str(av_[2][0][0]) == 'IN':
                    out_ |= {chr(c_) for k_, c_ in av_[2][0][1] if str(k_) == 'LITERAL'}
                elif str(op_) == 'IN':
                    out_ |= {chr(c_) for k_, c_ in av_ if str(k_) == 'LITERAL'}
        except Exception:
            return set()
        return out_

    def emitted(e_: ast.AST, var: str) -> str:
        """source of what is emitted; stripping characters that the split has already consumed changes nothing and is read as the component"""
        if isinstance(e_, ast.Call) and call_name(e_) in ('strip', 'lstrip', 'rstrip') and isinstance(e_.func, ast.Attribute) and unparse(e_.func.value) == var and \
                len(e_.args) == 1 and isinstance(const(e_.args[0]), str) and const(e_.args[0]) and set(const(e_.args[0])) <= separator_chars():
            return var
        return unparse(e_)
    for n in walk_local(srp.node):
        # (what is tested must be what is EMITTED: `part.rstrip() for part in .. if part not in ('.', '..')` tests the raw component and
        # emits another string -- '.. ' passes the test and comes out as '..')
        if isinstance(n, (ast.ListComp, ast.GeneratorExp)) and len(n.generators) == 1 and isinstance(n.generators[0].target, ast.Name) and \
                mentions_name(n.elt, n.generators[0].target.id) and any(call_name(x) == 'split' for x in ast.walk(n.generators[0].iter)):
            kept.append((emitted(n.elt, n.generators[0].target.id), [a_ for i_ in n.generators[0].ifs for a_ in split_conj(i_, True)]))
        if isinstance(n, ast.Call) and call_name(n) == 'append' and len(n.args) == 1:
            lp_ = next((a_ for a_ in ancestors(n) if isinstance(a_, ast.For) and isinstance(a_.target, ast.Name) and mentions_name(n.args[0], a_.target.id)), None)
            if lp_ is not None and any(call_name(x) == 'split' for x in ast.walk(expand_aliases(srp, lp_.iter))):
                kept.append((emitted(n.args[0], lp_.target.id), [(e_, pol_) for e_, pol_, _ in eng.guards_at(srp, n)]))
    ck.floor('R-C09-TAINT.split_keeps', len(kept), 1)

    def excluded_literals(v: str, atoms) -> set:
        out = set()
        for e_, pol_ in atoms:
            a_ = cmp_atom(e_)
            if a_ and a_[0] in ('in', 'eq') and not pol_ and unparse(a_[1]) == v:
                rhs = a_[2]
                if isinstance(rhs, ast.Name):
                    d = const_value(repo, srp.module, rhs.id)
                    if d is None:
                        imp = srp.module.imports.get(rhs.id)
                        if imp and ':' in imp:
                            m = next((m_ for m_ in repo.modules.values() if m_.dotted == imp.split(':')[0]), None)
                            d = const_value(repo, m, imp.split(':')[1]) if m is not None else None
                    rhs = d if d is not None else rhs
                out |= {x.value for x in ast.walk(rhs) if isinstance(x, ast.Constant)}
        return out
    split_clean = all(BAD <= excluded_literals(v_, at_) for v_, at_ in kept)
    drops_empty = all(any(pol_ and unparse(e_) == v_ for e_, pol_ in at_) or '' in excluded_literals(v_, at_) for v_, at_ in kept)
    ck.ob('R-C09-TAINT', srp, srp.node, 'split_remote_path drops empty components (repeated / leading / trailing separators)', drops_empty,
          f'kept components {[v_ for v_, _ in kept]}: no truth test on the emitted string itself (a test on the raw component does not cover what is emitted)', construct='split drops empty')
    sep_pat = const_value(repo, repo.module('constants.py'), 'PATH_SEPERATOR_PATTERN')
    ck.ob('R-C09-TAINT', 'constants.py:PATH_SEPERATOR_PATTERN', 'src/aioslsk/constants.py', 'remote paths are split on both \\ and /', sep_pat is not None and
          const(sep_pat.args[0]) == '[\\\\/]+', unparse(sep_pat), construct='separator pattern')

    base = eng.cls('NamingStrategy', NAMING)
    strategies = [c for c in repo.subclasses(base) if 'apply' in c.methods]
    ck.floor('R-C09-TAINT.strategies', len(strategies), 3)
    for ci in strategies:
        ap = ci.methods['apply']
        ck.visited(ap)
        rp = ap.params[1]
        # tainted locals: anything computed from remote_path
        tainted: dict[str, ast.AST] = {}
        for n in walk_local(ap.node):
            if isinstance(n, ast.Assign) and isinstance(n.targets[0], ast.Name) and mentions_name(n.value, rp, *tainted):
                tainted[n.targets[0].id] = n.value
        local_clean = rejects_dot_components(ap, repo)
        for r in [n for n in walk_local(ap.node) if isinstance(n, ast.Return)]:
            if not isinstance(r.value, ast.Tuple) or len(r.value.elts) != 2:
                ck.ob('R-C09-TAINT', ap, r, f'{ci.name}.apply returns (directory, filename)', False, unparse(r.value), construct=f'{ci.name} return shape')
                continue
            d, fname = r.value.elts
            for role, e in (('directory', d), ('file name', fname)):
                uses = mentions_name(e, rp, *tainted)
                if not uses:
                    continue
                ex = expand_aliases(ap, e)
                # components taken from the split list
                subs = [s for s in ast.walk(ex) if isinstance(s, ast.Subscript) and 'split_remote_path' in unparse(s.value)]
                whole = mentions_name(ex, rp) and not subs and 'split_remote_path' not in unparse(ex)
                # the guarantee of the split ("no component is '.', '..' or empty, none contains a separator") holds for the component AS IT LEFT
                # the filter: a transformation applied afterwards (unicode normalisation, strip, replace, case folding ..) can produce what the filter
                # had refused (NFKC folds U+FF0E / U+2025 into '.' / '..' and U+FF0F into '/'); then only a check on the transformed value counts
                def wrappers(root: ast.AST, target: ast.AST, acc=()):
                    if root is target:
                        return acc
                    for ch_ in ast.iter_child_nodes(root):
                        r_ = wrappers(ch_, target, acc + ((root,) if isinstance(root, (ast.Call, ast.JoinedStr, ast.BinOp)) else ()))
                        if r_ is not None:
                            return r_
                    return None
                transformed = []
                for s_ in subs:
                    for w_ in wrappers(ex, s_) or ():
                        if isinstance(w_, ast.Call) and unparse(w_.func) == 'os.path.join':
                            continue
                        transformed.append(unparse(w_)[:60])
                ok = not whole and ((split_clean and not transformed) or local_clean)
                ck.ob('R-C09-TAINT', ap, r, f'{ci.name}.apply: the peer-supplied component used as {role} can be neither "." nor ".." '
                      '(filtered by split_remote_path or checked locally)', ok,
                      (f'the component is transformed after the filter ({transformed[0]}) and the result is not checked: ' if transformed and split_clean else '') +
                      f'`{unparse(e)}` = `{unparse(ex)[:70]}` reaches the returned {role} unchecked: a remote path like `a\\..\\x` or `a\\b\\..` yields '
                      f'{"<download dir>/.." if role == "directory" else "the file name .."}', construct=f'{ci.name} {role} sanitised')
                for s in subs:
                    # the index must be protected against an empty component list
                    guarded = any(('len(' in unparse(g) or unparse(g).startswith('not ') or isinstance(g, ast.Name)) and
                                  mentions_name(g, *[k for k, v in tainted.items() if 'split_remote_path' in unparse(v)])
                                  for g, pol, _ in eng.guards_at(ap, r)) or \
                        protected_by_try_catching(eng, ap, r, 'IndexError') is not None
                    idx = const(s.slice)
                    if idx == -2:
                        guarded = guarded or any('len(' in unparse(g) for g, pol, _ in eng.guards_at(ap, r))
                        continue
                    ck.ob('R-C09-TAINT', ap, r, f'{ci.name}.apply: indexing the component list is guarded against an empty list '
                          '(a remote path made only of separators has no components)', guarded,
                          f'`{unparse(s)}` raises IndexError for the remote path `\\\\`: no local path is chosen at all', construct=f'{ci.name} index guarded')
            # R-C09-INSIDE: the directory is local_dir or join(local_dir, clean component)
            dx = expand_aliases(ap, d)
            inside = unparse(d) == ap.params[2] or (isinstance(dx, ast.Call) and unparse(dx.func) == 'os.path.join' and dx.args and unparse(dx.args[0]) == ap.params[2]
                                                   and len(dx.args) == 2)
            ck.ob('R-C09-INSIDE', ap, r, f'{ci.name}.apply: the directory returned is local_dir or local_dir joined with ONE component', inside, unparse(dx)[:80],
                  construct=f'{ci.name} directory shape {alpha_key(d)[:40]}')
            if isinstance(dx, ast.Call) and unparse(dx.func) == 'os.path.join' and len(dx.args) == 2:
                comp_e = dx.args[1]
                gs = [(unparse(g), pol) for g, pol, _ in eng.guards_at(ap, r)]
                abs_guard = any("startswith('@@')" in g and not pol for g, pol in gs) and any('re.match' in g for g, pol in gs)
                ck.ob('R-C09-INSIDE', ap, r, f'{ci.name}.apply: aliases (@@..) and drive letters are not used as directory', abs_guard, f'{gs}', construct=f'{ci.name} skips alias and drive')

    # ---- R-C09-CHAIN
    ch = eng.func(NAMING, 'chain_strategies')
    ck.visited(ch)
    loops = [n for n in walk_local(ch.node) if isinstance(n, ast.For)]
    ok = False
    detail = 'loop not recognised'
    if len(loops) == 1:
        lp = loops[0]
        asg = [n for n in walk_local(lp) if isinstance(n, ast.Assign) and isinstance(n.value, ast.Call) and call_name(n.value) == 'apply']
        tst = [x for x in calls_in(lp) if call_name(x) == 'should_be_applied']
        if len(asg) == 1 and len(tst) == 1:
            carried = [unparse(t) for t in asg[0].targets[0].elts] if isinstance(asg[0].targets[0], ast.Tuple) else []
            ap_args = [unparse(a) for a in asg[0].value.args]
            t_args = [unparse(a) for a in tst[0].args]
            ok = len(carried) == 2 and ap_args[1:] == carried and t_args == carried and ap_args[0] == ch.params[1] and \
                any(pol and g is tst[0] for g, pol, _ in eng.guards_at(ch, asg[0]))
            detail = f'carried {carried}; should_be_applied({", ".join(t_args)}); apply({", ".join(ap_args)})'
    ck.ob('R-C09-CHAIN', ch, ch.node, 'chain_strategies threads (path, filename) through the chain: each strategy is asked (should_be_applied) about and applied to the '
          'CURRENT pair, the result becomes the current pair', ok, detail + ': the duplicate check must look at the directory the file will really go to',
          construct='chain threads current pair')
    rets = [n for n in walk_local(ch.node) if isinstance(n, ast.Return)]
    init: dict[str, str] = {}
    for n in ch.node.body:
        if isinstance(n, ast.Assign):
            for t in n.targets:
                if isinstance(t, ast.Tuple) and isinstance(n.value, ast.Tuple) and len(t.elts) == len(n.value.elts):
                    init.update({unparse(a_): unparse(b_) for a_, b_ in zip(t.elts, n.value.elts)})
                else:
                    init[unparse(t)] = unparse(n.value)
    carried_ = carried if len(loops) == 1 and 'carried' in dir() else []
    ok = len(rets) == 1 and isinstance(rets[0].value, ast.Tuple) and [unparse(x) for x in rets[0].value.elts] == carried_ and len(carried_) == 2 and \
        (init.get(carried_[0]) == ch.params[2] or (carried_[0] == ch.params[2] and carried_[0] not in init)) and init.get(carried_[1]) in ("''", '""')
    ck.ob('R-C09-CHAIN', ch, ch.node, 'the chain starts at (download directory, empty name) and returns the final pair', ok, f'{init}', construct='chain start and result')
    cdp = eng.func(SHARES, 'SharesManager.calculate_download_path')
    x = calls_in(cdp.node)
    ok = any(call_name(y) == 'chain_strategies' and len(y.args) == 3 and unparse(y.args[0]) == 'self.naming_strategies' and unparse(y.args[1]) == cdp.params[1]
             and phas(expand_aliases(cdp, y.args[2]), 'self.get_download_directory()') for y in x)
    ck.ob('R-C09-INSIDE', cdp, cdp.node, 'calculate_download_path starts the chain at the configured download directory', ok, '', construct='download dir is chain root')
    gdd = eng.func(SHARES, 'SharesManager.get_download_directory')
    grets = [expand_aliases(gdd, n.value) for n in walk_local(gdd.node) if isinstance(n, ast.Return) and n.value is not None]
    ok = len(grets) == 1 and phas(grets[0], 'os.path.abspath($x)') and (chain_str(pfirst(grets[0], 'os.path.abspath($x)')[0].args[0]) or '').endswith('_settings.shares.download')
    ck.ob('R-C09-INSIDE', gdd, gdd.node, 'the download directory is the absolute path of settings.shares.download', ok, '', construct='download dir')
    # the function of the transfer manager that chooses the local path (a helper of _download_file, or _download_file itself)
    choosers = [f_ for f_ in eng.cls('TransferManager', TM).methods.values() if calls_on(f_.node, 'calculate_download_path')]
    if len(choosers) != 1:
        raise AnalysisError(f'R-C09-INSIDE: {len(choosers)} functions of TransferManager call calculate_download_path (expected 1)')
    pdp = choosers[0]
    ck.visited(pdp)
    tp = [p_ for p_ in pdp.params if p_ != 'self'][0]
    facts = {}
    chosen = pfind(pdp.node, f'$d, $f = $_.calculate_download_path({tp}.remote_path)')
    facts['the pair comes from calculate_download_path(transfer.remote_path)'] = len(chosen) == 1
    if chosen:
        bd = chosen[0][1]
        stores = [(st_, v_) for f_, st_, v_ in eng.stores_to_attr('local_path', [pdp])]
        facts['local_path = join(chosen directory, chosen name) and nothing else'] = len(stores) == 1 and stores[0][1] is not None and \
            pat.match(expand_aliases(pdp, stores[0][1]), pat.compile_pattern(f"os.path.join({bd['d']}, {bd['f']})")[0]) is not None
    mk = calls_on(pdp.node, 'create_directory')
    heads = {bd_['h'] for _, bd_ in pfind(pdp.node, '$h, $_ = os.path.split($p)') if chain_str(expand_aliases(pdp, ast.parse(bd_['p'], mode='eval').body)) == f'{tp}.local_path'}
    facts['only the parent directory of local_path is created'] = len(mk) == 1 and bool(mk[0].args) and (
        unparse(mk[0].args[0]) in heads or phas(expand_aliases(pdp, mk[0].args[0]), f'os.path.dirname({tp}.local_path)') or
        phas(expand_aliases(pdp, mk[0].args[0]), f'os.path.split({tp}.local_path)[0]'))
    bad_ = [k_ for k_, v_ in facts.items() if not v_]
    ck.ob('R-C09-INSIDE', pdp, pdp.node, 'the local path is join(chosen directory, chosen name) and only its parent directory is created', not bad_,
          f'not established: {bad_}', construct='prepare download path')

    # ---- R-C09-NUMBER
    free_name_rules(eng, ck, 'R-C09-NUMBER')

    # ---- R-C09-RESERVE: check-then-create atomicity
    df = eng.func(TM, 'TransferManager._download_file')
    ck.visited(df)
    c = eng.cfg(df)
    prep = [n for x in calls_on(df.node, pdp.name if pdp is not df else 'calculate_download_path') for n in c.nodes_for(x)]
    opn = [n for n in c.nodes if n.kind == 'with_enter' and n.ast is not None and 'aiofiles.open' in unparse(n.ast.items[0].context_expr)]
    ck.floor('R-C09-RESERVE', min(len(prep), len(opn)), 1)
    if prep and opn:
        s = c.suspension_between(prep[0], opn[0])
        inner = [n for n in walk_local(pdp.node) if isinstance(n, ast.Await)] if pdp is not df else []
        reserved = any('local_path' in unparse(n) and ('_transfers' in unparse(n) or 'transfers' in unparse(n)) and isinstance(n, (ast.SetComp, ast.ListComp, ast.GeneratorExp, ast.For))
                       for n in walk_with_lambdas(pdp.node)) or any(call_name(x) in ('_reserve_local_path', 'reserve_local_path', 'is_local_path_reserved') for x in calls_in(pdp.node))
        ck.ob('R-C09-RESERVE', df, opn[0].ast, 'between choosing a not-yet-existing local path and creating the file nothing suspends, or the choice is checked against the '
              'local paths of the other transfers (in-memory reservation)', (s is None and not inner) or reserved,
              f'the path is chosen in {pdp.name} (exists-check on disk only), then the task suspends (line {s.lineno if s else inner[0].lineno}) before '
              'aiofiles.open(.., "ab") creates the file: two downloads of equally named files that start in the same window get the same local path and both append to it',
              construct='choose-then-create atomic')
    from . import defs as _d_rq
    _d_rq.requeue_forgets_local_file(eng, ck, 'R-C09-RESERVE')
