"""C08 — entitlement: locked files, blocked users, excluded phrases."""
from __future__ import annotations
from .common import *

PEER = 'peer.py'


def blocked_guard(flag: str, user_pred):
    def pred(e, pol):
        if isinstance(e, ast.Call) and call_name(e) == 'is_blocked' and len(e.args) >= 2:
            return (not pol) and enum_member(e.args[1]) == flag and user_pred(e.args[0])
        return False
    return pred


def reeval_rules(eng: Engine, ck: Check, rule: str, constructs: Optional[set] = None):
    """Re-evaluation of uploads after a shares / block-list / friends change (R-C08-REEVAL).  `constructs` restricts the obligations to
    the named ones: C06 relies on the part that keeps an upload aborted ON REQUEST aborted (the REQUESTED reason is tested first and
    wins; a re-queue happens only for an ABORTED upload whose reason vanished)."""
    repo = eng.repo

    def ob(fn_, node_, text_, ok_, why_='', construct=None):
        if constructs is None or construct in constructs:
            ck.ob(rule, fn_, node_, text_, ok_, why_, construct=construct)

    def floor(name_, n_, least_):
        if constructs is None:
            ck.floor(f'{rule}.{name_}', n_, least_)
    ms = eng.func(TM, 'TransferManager.manage_shares_changed')
    # the evaluation of one upload: the helper manage_shares_changed calls for `<change>, <reason> = self.<helper>(upload)`, or
    # manage_shares_changed itself when the evaluation is written in place
    mr = [(n_, {'sc': unparse(n_.targets[0].elts[0]), 'ar': unparse(n_.targets[0].elts[1]), 'h': n_.value.func.attr}) for n_ in walk_local(ms.node)
          if isinstance(n_, ast.Assign) and isinstance(n_.targets[0], ast.Tuple) and len(n_.targets[0].elts) == 2 and isinstance(n_.value, ast.Call) and
          isinstance(n_.value.func, ast.Attribute) and unparse(n_.value.func.value) == 'self' and len(n_.value.args) == 1 and
          eng.repo.find_func(TM, f'TransferManager.{n_.value.func.attr}') is not None and
          any(isinstance(r_.value, ast.Tuple) and len(r_.value.elts) == 2 for r_ in walk_local(eng.repo.find_func(TM, f'TransferManager.{n_.value.func.attr}').node) if isinstance(r_, ast.Return) and r_.value is not None)]
    mr = [x for x in mr if x[1]['h'] != '_get_queued_transfers']
    ev = eng.repo.find_func(TM, f'TransferManager.{mr[0][1]["h"]}') if len(mr) == 1 else ms
    ck.visited(ms)
    ck.visited(ev)
    src = unparse(ms.node)
    skipped = set()
    for n in walk_with_lambdas(ms.node):
        if isinstance(n, ast.Compare) and isinstance(n.ops[0], ast.NotIn) and mentions_attr(n.left, 'state'):
            skipped = enum_members_in(n.comparators[0])
        # the same population as guard clauses: `if <state> in (..): continue` / `if <state> == X: continue`
        if isinstance(n, ast.If) and len(n.body) == 1 and isinstance(n.body[0], ast.Continue) and not n.orelse and isinstance(n.test, ast.Compare) and \
                len(n.test.ops) == 1 and isinstance(n.test.ops[0], (ast.In, ast.Eq)) and mentions_attr(n.test.left, 'state'):
            skipped = skipped | enum_members_in(n.test.comparators[0])
    ob(ms, ms.node, 'every upload except COMPLETE and FAILED ones is re-evaluated', skipped == {'COMPLETE', 'FAILED'} and
          'is_upload()' in src, f'skipped states: {sorted(skipped)}', construct='reeval population')
    conds = None
    # the (condition, reason) pairs IN THE ORDER THE LOOP VISITS THEM: the loop's iterable is evaluated as a sequence (a table listed in
    # another order and re-ordered at the loop -- `(requested, *transient)` -- is judged by what the loop does, not by the listing)
    for lp_ in [n for n in walk_local(ev.node) if isinstance(n, ast.For) and isinstance(n.target, ast.Tuple) and len(n.target.elts) == 2]:
        seq = eval_sequence(ev, lp_.iter)
        if seq and all(isinstance(x, ast.Tuple) and len(x.elts) == 2 and enum_member(x.elts[1]) for x in seq):
            conds = [(unparse(x.elts[0]), enum_member(x.elts[1])) for x in seq]
    ob(ev, ev.node, 'abort reasons are evaluated in the order REQUESTED > BLOCKED > FILE_NOT_SHARED, first hit wins',
          conds is not None and [c[1] for c in conds] == ['REQUESTED', 'BLOCKED', 'FILE_NOT_SHARED'] and
          any(isinstance(x, ast.Break) for x in walk_local(ev.node)), f'{conds}', construct='reason order')
    inner = {f.name: f for f in repo.all_funcs() if f.outer is ev}
    exp = {'_is_abort_requested': ('abort_reason', 'REQUESTED'), '_is_blocked': ('is_blocked', 'UPLOADS'), '_is_not_shared': ('find_shared_item_cache', None)}
    for nm, (needle, mem) in exp.items():
        f = inner.get(nm)
        ok = f is not None and needle in unparse(f.node) and (mem is None or mem in enum_members_in(f.node))
        if ok and nm == '_is_not_shared':
            ok = any(isinstance(x, ast.UnaryOp) and isinstance(x.op, ast.Not) for x in ast.walk(f.node)) and 'transfer.username' in unparse(f.node)
        if ok and nm == '_is_blocked':
            ok = 'transfer.username' in unparse(f.node) and 'not ' not in unparse(f.node)
        ob(f or ev, (f or ev).node, f'condition {nm} tests {needle}{" " + mem if mem else ""} for the upload\'s user', bool(ok),
              unparse(f.node)[:120] if f else 'missing', construct=f'condition {nm}')
    # names discovered from the definition `<should change> = <aborted> != bool(<reason>)`
    scd = pfind(ev.node, '$sc = $a != bool($ar)') + pfind(ev.node, '$sc = $a != ($ar is not None)')
    SC, AR = (scd[0][1]['sc'], scd[0][1]['ar']) if len(scd) == 1 else ('should_change', 'abort_reason')
    if ev is not ms:
        evr = [n for n in walk_local(ev.node) if isinstance(n, ast.Return)]
        ob(ev, ev.node, 'the evaluation returns (should change, reason)', len(evr) == 1 and isinstance(evr[0].value, ast.Tuple) and
              [unparse(x) for x in evr[0].value.elts] == [SC, AR], f'{[unparse(r_) for r_ in evr]}', construct='evaluation result')
    sc = [n for n in walk_local(ev.node) if isinstance(n, ast.Assign) and unparse(n.targets[0]) == SC]
    ok = len(sc) == 1 and isinstance(sc[0].value, ast.Compare) and isinstance(sc[0].value.ops[0], ast.NotEq)
    ab = None
    if ok:
        sides = [sc[0].value.left, sc[0].value.comparators[0]]
        reason_side = [x for x in sides if unparse(x) in (f'bool({AR})', f'{AR} is not None')]
        ab_side = [x for x in sides if x not in reason_side]
        ok = len(reason_side) == 1 and len(ab_side) == 1
        if ok:
            ab = expand_aliases(ev, ab_side[0])
    ob(ev, sc[0] if sc else ev.node, 'should_change = (is ABORTED) != (has a reason to be aborted)', ok,
          f'{[unparse(s) for s in sc]}', construct='should_change')
    ob(ev, ev.node, '`aborted` means state == ABORTED', ab is not None and enum_members_in(ab) == {'ABORTED'} and
          isinstance(ab, ast.Compare) and isinstance(ab.ops[0], ast.Eq), unparse(ab), construct='aborted definition')
    # in manage_shares_changed:  <sc>, <reason> = self._evaluate_aborted_state(upload)
    SC2, AR2 = (mr[0][1]['sc'], mr[0][1]['ar']) if len(mr) == 1 else (SC, AR)
    qs = [c for c in calls_in(ms.node) if call_name(c) == 'queue' and mentions_attr(c.func.value, 'state')]
    abs_ = [c for c in calls_in(ms.node) if call_name(c) == 'abort' and mentions_attr(c.func.value, 'state')]
    floor('actions', min(len(qs), len(abs_)), 1)
    for c in qs:
        gs = eng.guards_at(ms, c)
        ok = any(pol and unparse(e) == SC2 for e, pol, _ in gs) and any(pol and enum_members_in(e) == {'ABORTED'} for e, pol, _ in gs)
        ob(ms, c, 'an ABORTED upload whose reason vanished is queued again', ok, f'{[(unparse(e), p) for e, p, _ in gs]}',
              construct='requeue')
    for c in abs_:
        gs = eng.guards_at(ms, c)
        ok = any(pol and unparse(e) == SC2 for e, pol, _ in gs) and any((not pol) and enum_members_in(e) == {'ABORTED'} for e, pol, _ in gs)
        r = kw(c, 'reason') or (c.args[0] if c.args else None)
        ok = ok and r is not None and unparse(r) == AR2
        ob(ms, c, 'an upload that is no longer permitted is aborted with the matching reason', ok,
              f'{[(unparse(e), p) for e, p, _ in gs]} reason={unparse(r)}', construct='abort with reason')
    # the awaits are actually awaited
    g = [c for c in calls_in(ms.node) if call_name(c) == 'gather']
    ob(ms, ms.node, 'the collected state changes are awaited before the cycle continues', bool(g) and
          all(isinstance(parent(x), ast.Await) for x in g), '', construct='reeval awaited')
    # events -> SHARES cycle
    rl = eng.func(TM, 'TransferManager.register_listeners')
    regs = {}
    for c in calls_on(rl.node, 'register'):
        if len(c.args) >= 2:
            regs[unparse(c.args[0])] = unparse(c.args[1])
    need = ['BlockListChangedEvent', 'FriendListChangedEvent', 'SharedDirectoryChangeEvent', 'ScanCompleteEvent']
    for ev_name in need:
        ob(rl, rl.node, f'{ev_name} requests a shares re-evaluation cycle', regs.get(ev_name) == 'self._request_shares_cycle',
              f'registered: {regs.get(ev_name)}', construct=f'listener {ev_name}')
    rsc = eng.func(TM, 'TransferManager._request_shares_cycle')
    ok = any(call_name(c) == 'request_management_cycle' and c.args and enum_member(c.args[0]) == 'SHARES_CHANGE' and not eng.guards_at(rsc, c)
             for c in calls_in(rsc.node))
    ob(rsc, rsc.node, '_request_shares_cycle sets the SHARES_CHANGE flag unconditionally', ok, '', construct='shares flag set')
    rmc = eng.func(TM, 'TransferManager.request_management_cycle')
    ok = any(isinstance(n, ast.AugAssign) and isinstance(n.op, ast.BitOr) and mentions_attr(n.target, '_management_flags') and
             unparse(n.value) == rmc.params[1] and not eng.guards_at(rmc, n) for n in walk_local(rmc.node)) and \
        any(call_name(c) == 'put_nowait' for c in calls_in(rmc.node))
    ob(rmc, rmc.node, 'request_management_cycle ORs the flag in and wakes the management job', ok, '', construct='flag or-ed')
    mj = eng.func(TM, 'TransferManager._management_job')
    ck.visited(mj)
    c = eng.cfg(mj)
    msn = [n for call in calls_on(mj.node, 'manage_shares_changed') for n in c.nodes_for(call)]
    mtn = [n for call in calls_on(mj.node, 'manage_transfers') for n in c.nodes_for(call)]
    floor('job', min(len(msn), len(mtn)), 1)
    for call in calls_on(mj.node, 'manage_shares_changed'):
        gs = expanded_guards(eng, mj, call)
        ok = any(pol and 'SHARES_CHANGE' in enum_members_in(e) and ((isinstance(e, ast.BinOp) and isinstance(e.op, ast.BitAnd)) or ((cmp_atom(e) or ('',))[0] == 'in' and 'SHARES_CHANGE' in enum_members_in(cmp_atom(e)[1]))) for e, pol, _ in gs) and len(gs) == 1
        ob(mj, call, 'the management job re-evaluates uploads iff the SHARES_CHANGE flag was set', ok,
              f'{[(unparse(e), p) for e, p, _ in gs]}', construct='job runs reeval on flag')
    # re-evaluation precedes starting transfers in the same cycle
    if msn and mtn:
        # on the flag-set path manage_transfers is only reached through manage_shares_changed
        asm = [a for a in c.nodes if a.kind == 'assume' and a.polarity and 'SHARES_CHANGE' in unparse(expand_aliases(mj, a.ast))]
        p = c.find_path(asm, lambda n: n in mtn, avoid=lambda n: n in msn) if asm else 'x'
        ob(mj, mj.node, 'with the flag set, uploads are re-evaluated before transfers are started in that cycle',
              p is None, 'manage_transfers reachable first', construct='reeval before start')


def run(eng: Engine, ck: Check):
    repo = eng.repo
    sm = eng.cls('SharesManager', SHARES)

    # ---- R-C08-LOCKFN
    dl = eng.func(SHARES, 'SharesManager.is_directory_locked')
    ck.visited(dl)
    rows = {}
    for r in [n for n in walk_local(dl.node) if isinstance(n, ast.Return)]:
        gs = eng.guards_at(dl, r)
        mode = None
        for e, pol, _ in gs:
            if pol and mentions_attr(e, 'share_mode'):
                mm = enum_members_in(e) & {'FRIENDS', 'USERS', 'EVERYONE'}
                if len(mm) == 1:
                    mode = next(iter(mm))
        rows[mode] = r.value
    user_param = [p for p in dl.params if p not in ('self', 'directory')][0] if len(dl.params) >= 3 else 'username'

    def not_in(v, coll_suffix):
        a = cmp_atom(v) if isinstance(v, ast.Compare) else None
        if isinstance(v, ast.Compare) and isinstance(v.ops[0], ast.NotIn):
            return unparse(v.left) == user_param and (chain_str(v.comparators[0]) or '').endswith(coll_suffix)
        if isinstance(v, ast.UnaryOp) and isinstance(v.op, ast.Not):
            a = cmp_atom(v.operand)
            return bool(a and a[0] == 'in' and unparse(a[1]) == user_param and (chain_str(a[2]) or '').endswith(coll_suffix))
        return False
    ck.ob('R-C08-LOCKFN', dl, rows.get('FRIENDS') or dl.node, 'FRIENDS directory: locked iff username not in settings.users.friends',
          'FRIENDS' in rows and not_in(rows['FRIENDS'], '_settings.users.friends'), f'{unparse(rows.get("FRIENDS"))}',
          construct='lock FRIENDS')
    ck.ob('R-C08-LOCKFN', dl, rows.get('USERS') or dl.node, 'USERS directory: locked iff username not in directory.users',
          'USERS' in rows and not_in(rows['USERS'], 'directory.users'), f'{unparse(rows.get("USERS"))}', construct='lock USERS')
    other = [v for k, v in rows.items() if k not in ('FRIENDS', 'USERS')]
    ck.ob('R-C08-LOCKFN', dl, dl.node, 'EVERYONE directory: never locked (and no other row exists)',
          len(other) == 1 and const(other[0]) is False, f'{[unparse(v) for v in other]}', construct='lock EVERYONE')
    il = eng.func(SHARES, 'SharesManager.is_item_locked')
    rets = [n for n in walk_local(il.node) if isinstance(n, ast.Return)]
    ok = len(rets) == 1 and isinstance(rets[0].value, ast.Call) and call_name(rets[0].value) == 'is_directory_locked' and \
        len(rets[0].value.args) == 2 and chain_str(rets[0].value.args[0]) == 'item.shared_directory' and \
        unparse(rets[0].value.args[1]) == il.params[2]
    ck.ob('R-C08-LOCKFN', il, il.node, 'is_item_locked(item, user) = is_directory_locked(item.shared_directory, user)', ok,
          f'{[unparse(r.value) for r in rets]}', construct='item lock delegates')
    ib = eng.func('settings.py', 'UsersSettings.is_blocked') if repo.find_func('settings.py', 'UsersSettings.is_blocked') else None
    if ib is None:
        cands = [f for f in repo.funcs_by_name.get('is_blocked', []) if f.module.rel == 'settings.py']
        if not cands:
            raise AnalysisError('anchor function vanished: settings.py:*.is_blocked')
        ib = cands[0]
    rets = [n for n in walk_local(ib.node) if isinstance(n, ast.Return)]
    src = unparse(rets[0].value) if rets else ''
    ok = len(rets) == 1 and any(isinstance(b, ast.BinOp) and isinstance(b.op, ast.BitAnd) and
                                (unparse(b.right) == ib.params[2] or unparse(b.left) == ib.params[2]) and
                                mentions_attr(b, 'blocked') for b in ast.walk(rets[0].value)) and 'not ' not in src
    ck.ob('R-C08-BLOCK', ib, ib.node, 'is_blocked(user, flag) = bool(blocked[user] & flag)', ok, src, construct='is_blocked definition')

    # ---- R-C08-BLOCK: every answering handler is dominated by the block test of its kind
    conn_user = lambda e: (chain_str(e) or '') in ('connection.username', 'username') or unparse(e) == 'username'
    table = [
        (SEARCH, 'SearchManager._query_shares_and_reply', 'SEARCHES', lambda f: calls_on(f.node, 'query'), 'share query for a search'),
        (PEER, 'PeerManager._on_peer_shares_request', 'SHARES', lambda f: calls_on(f.node, 'create_shares_reply'), 'shares listing'),
        (PEER, 'PeerManager._on_peer_directory_contents_req', 'SHARES', lambda f: calls_on(f.node, 'create_directory_reply'), 'directory listing'),
        (PEER, 'PeerManager._on_peer_user_info_request', 'INFO', lambda f: calls_on(f.node, 'send_message'), 'user info reply'),
        (TM, 'TransferManager._on_peer_transfer_queue', 'UPLOADS', lambda f: calls_on(f.node, '_add_upload') + calls_on(f.node, 'find_shared_item'),
         'queueing an upload'),
    ]
    for rel, q, flag, finder, what in table:
        f = eng.func(rel, q)
        ck.visited(f)
        acts = finder(f)
        ck.floor(f'R-C08-BLOCK.{q}', len(acts), 1)
        for a in acts:
            gs = expanded_guards(eng, f, a)
            ok = any(blocked_guard(flag, lambda u: True)(e, pol) for e, pol, _ in gs)
            who = [unparse(e.args[0]) for e, pol, _ in gs if isinstance(e, ast.Call) and call_name(e) == 'is_blocked' and e.args]
            who_ok = all(w in ('connection.username', 'username') for w in who)
            ck.ob('R-C08-BLOCK', f, a, f'{what} is dominated by `not is_blocked(<requesting user>, {flag})`', ok and who_ok,
                  f'dominating block tests: {[unparse(e) for e, pol, _ in gs if isinstance(e, ast.Call) and call_name(e) == "is_blocked"]}',
                  construct=f'{q} blocked({flag})')
    # upload-direction transfer request
    tr = eng.func(TM, 'TransferManager._on_peer_transfer_request')
    acts = calls_on(tr.node, '_add_upload')
    ck.floor('R-C08-BLOCK.transfer_request', len(acts), 1)
    for a in acts:
        gs = expanded_guards(eng, tr, a)
        raw = eng.guards_at(tr, a)
        # early return under `is_blocked(user, UPLOADS) and direction == UPLOAD`; the action itself is under direction == UPLOAD
        blocked_and_upload = any((not pol) and isinstance(e, ast.BoolOp) and isinstance(e.op, ast.And) and
                                 any(isinstance(v, ast.Call) and call_name(v) == 'is_blocked' and enum_member(v.args[1]) == 'UPLOADS' for v in e.values)
                                 and all((isinstance(v, ast.Call) and call_name(v) == 'is_blocked') or 'UPLOAD' in enum_members_in(v) for v in e.values)
                                 for e, pol, _ in raw) or any(blocked_guard('UPLOADS', lambda u: True)(e, pol) for e, pol, _ in gs)
        is_up = any(pol and 'UPLOAD' in enum_members_in(e) and (mentions_name(e, 'direction') or mentions_attr(e, 'direction')) for e, pol, _ in list(gs) + list(raw))
        ck.ob('R-C08-BLOCK', tr, a, 'creating an upload on a transfer request is dominated by the UPLOADS block test',
              blocked_and_upload and is_up, 'block test missing or weaker than `is_blocked(user, UPLOADS) and direction == UPLOAD`',
              construct='transfer request blocked(UPLOADS)')

    # ---- R-C08-GATE: entitlement on every outbound listing / upload creation
    # (1) query(): the visible list only contains items for which is_item_locked(item, username) is false
    q = eng.func(SHARES, 'SharesManager.query')
    ck.visited(q)
    upar = 'username'
    vis_apps = [a for a in calls_in(q.node) if call_name(a) == 'append' and 'visible' in unparse(a.func.value)]
    ck.floor('R-C08-GATE.query', len(vis_apps), 1)
    for a in vis_apps:
        gs = eng.guards_at(q, a)
        ok = any((not pol) and isinstance(e, ast.Call) and call_name(e) == 'is_item_locked' and len(e.args) == 2 and
                 unparse(e.args[0]) == unparse(a.args[0]) and unparse(e.args[1]) == upar for e, pol, _ in gs)
        ck.ob('R-C08-GATE', q, a, 'query(): an item goes to the visible list only if not is_item_locked(item, username)', ok,
              f'guards {[unparse(e) for e, _, _ in gs]}', construct='query visible gate')
    # without username nothing is filtered: callers that answer a peer must pass the requesting user
    qr = eng.func(SEARCH, 'SearchManager._query_shares_and_reply')
    for c in calls_on(qr.node, 'query'):
        u = kw(c, 'username') or (c.args[1] if len(c.args) > 1 else None)
        ck.ob('R-C08-GATE', qr, c, 'the search answer queries the shares with the asking user (so locked files are split off)',
              u is not None and unparse(u) == 'username', f'username argument: {unparse(u)}', construct='search reply passes username')
        e = kw(c, 'excluded_search_phrases')
        ck.ob('R-C08-GATE', qr, c, 'the search answer passes the server-excluded phrases', e is not None and
              mentions_attr(e, 'excluded_search_phrases'), f'{unparse(e)}', construct='search reply passes excluded phrases')
    for c in [x for x in calls_in(qr.node) if call_name(x) == 'Request' and 'PeerSearchReply' in unparse(x.func)]:
        r = kw(c, 'results')
        l = kw(c, 'locked_results')
        names = [unparse(t) for n in walk_local(qr.node) if isinstance(n, ast.Assign) and isinstance(n.value, ast.Call)
                 and call_name(n.value) == 'query' for t in (n.targets[0].elts if isinstance(n.targets[0], ast.Tuple) else [])]
        ok = len(names) == 2 and r is not None and l is not None and mentions_name(r, names[0]) and not mentions_name(r, names[1]) \
            and mentions_name(l, names[1]) and not mentions_name(l, names[0])
        ck.ob('R-C08-GATE', qr, c, 'PeerSearchReply: results <- visible list, locked_results <- locked list (not swapped/merged)', ok,
              f'results={unparse(r)[:50]}, locked_results={unparse(l)[:50]}, query returns {names}', construct='search reply positions')
    # (2) shares reply
    sr = eng.func(SHARES, 'SharesManager.create_shares_reply')
    gsd = eng.func(SHARES, 'SharesManager.get_shared_directories_for_user')
    ck.visited(sr)
    ck.visited(gsd)
    pub = [a for a in calls_in(gsd.node) if call_name(a) == 'append' and ('public' in unparse(a.func.value) or 'visible' in unparse(a.func.value))]
    ck.floor('R-C08-GATE.shares', len(pub), 1)
    for a in pub:
        gs = eng.guards_at(gsd, a)
        ok = any((not pol) and isinstance(e, ast.Call) and call_name(e) == 'is_directory_locked' and len(e.args) == 2 and
                 unparse(e.args[0]) == unparse(a.args[0]) and unparse(e.args[1]) == gsd.params[1] for e, pol, _ in gs)
        ck.ob('R-C08-GATE', gsd, a, 'a directory is listed as public only if not is_directory_locked(dir, username)', ok,
              f'guards {[unparse(e) for e, _, _ in gs]}', construct='shares reply public gate')
    rets = [n for n in walk_local(gsd.node) if isinstance(n, ast.Return)]
    ok = all(isinstance(r.value, ast.Tuple) and len(r.value.elts) == 2 and ('public' in unparse(r.value.elts[0]) or 'visible' in unparse(r.value.elts[0]))
             and 'locked' in unparse(r.value.elts[1]) for r in rets)
    ck.ob('R-C08-GATE', gsd, gsd.node, 'get_shared_directories_for_user returns (public, locked) in this order', ok,
          f'{[unparse(r.value) for r in rets]}', construct='public/locked order')
    psr = eng.func(PEER, 'PeerManager._on_peer_shares_request')
    for c in calls_on(psr.node, 'create_shares_reply'):
        ck.ob('R-C08-GATE', psr, c, 'the shares reply is built for the requesting user', c.args and
              unparse(c.args[0]) == 'connection.username', unparse(c), construct='shares reply user')
    for c in [x for x in calls_in(psr.node) if call_name(x) == 'Request' and 'PeerSharesReply' in unparse(x.func)]:
        names = [unparse(t) for n in walk_local(psr.node) if isinstance(n, ast.Assign) and isinstance(n.value, ast.Call)
                 and call_name(n.value) == 'create_shares_reply' for t in (n.targets[0].elts if isinstance(n.targets[0], ast.Tuple) else [])]
        d, l = kw(c, 'directories'), kw(c, 'locked_directories')
        ok = len(names) == 2 and d is not None and l is not None and unparse(d) == names[0] and unparse(l) == names[1]
        ck.ob('R-C08-GATE', psr, c, 'PeerSharesReply: directories <- visible, locked_directories <- locked', ok,
              f'{unparse(d)}, {unparse(l)}', construct='shares reply positions')
    rs = [n for n in walk_local(sr.node) if isinstance(n, ast.Return)]
    for r in rs:
        ok = isinstance(r.value, ast.Tuple) and len(r.value.elts) == 2 and 'visible' in unparse(r.value.elts[0]) and 'locked' in unparse(r.value.elts[1])
        vis_def = single_assignments(sr).get(unparse(r.value.elts[0])) if ok else None
        ok = ok and vis_def is not None and 'visible' in unparse(vis_def) and 'locked' not in unparse(vis_def)
        ck.ob('R-C08-GATE', sr, r, 'create_shares_reply returns (listing of public dirs, listing of locked dirs)', bool(ok),
              unparse(r.value), construct='shares reply order')
    # (3) directory reply: must filter by the requesting user
    dr = eng.func(SHARES, 'SharesManager.create_directory_reply')
    pdr = eng.func(PEER, 'PeerManager._on_peer_directory_contents_req')
    ck.visited(dr)
    has_user = any(p in ('username', 'user') for p in dr.params)
    gate = False
    for a in [x for x in calls_in(dr.node) if call_name(x) == 'append']:
        for e, pol, _ in eng.guards_at(dr, a):
            if (not pol) and isinstance(e, ast.Call) and call_name(e) in ('is_item_locked', 'is_directory_locked') and \
                    len(e.args) == 2 and unparse(e.args[1]) in dr.params:
                gate = True
    passes = any(len(c.args) + len(c.keywords) >= 2 and any(unparse(x) == 'connection.username' for x in list(c.args) + [k.value for k in c.keywords])
                 for c in calls_on(pdr.node, 'create_directory_reply'))
    ck.ob('R-C08-GATE', dr, dr.node,
          'directory contents reply lists a file only if it is not locked for the requesting user '
          '(create_directory_reply filters with is_item_locked(item, <requesting user>) and the handler passes connection.username)',
          has_user and gate and passes, f'takes a user: {has_user}; filters by lock: {gate}; handler passes requesting user: {passes}',
          construct='directory reply gate')
    # (4) upload creation
    au = eng.func(TM, 'TransferManager._add_upload')
    for c in calls_on(au.node, 'get_shared_item'):
        ok = len(c.args) >= 2 and unparse(c.args[1]) == au.params[1] or unparse(kw(c, 'username')) == au.params[1]
        ck.ob('R-C08-GATE', au, c, 'an upload is created only via get_shared_item(path, <requesting user>) (raises if locked / unknown)', ok,
              unparse(c), construct='_add_upload passes user')
    gsi = eng.func(SHARES, 'SharesManager.get_shared_item_cache')
    raises = [n for n in walk_local(gsi.node) if isinstance(n, ast.Raise) and 'FileNotSharedError' in unparse(n.exc)]
    ok = False
    for r in raises:
        for e, pol, _ in eng.guards_at(gsi, r):
            if pol and isinstance(e, ast.Call) and call_name(e) == 'is_item_locked' and unparse(e.args[1]) == 'username':
                ok = True
    ck.ob('R-C08-GATE', gsi, gsi.node, 'get_shared_item_cache raises FileNotSharedError when the item is locked for the user', ok,
          'lock test missing', construct='get_shared_item lock')
    for hq in ('TransferManager._on_peer_transfer_queue', 'TransferManager._on_peer_transfer_request'):
        h = eng.func(TM, hq)
        for c in calls_on(h.node, '_add_upload') + calls_on(h.node, 'find_shared_item'):
            connp = next((p_ for p_ in h.params if 'connection' in p_.lower()), h.params[-1])
            us = [unparse(expand_aliases(h, x)) for x in c.args] + [unparse(expand_aliases(h, k.value)) for k in c.keywords]
            ck.ob('R-C08-GATE', h, c, f'{h.name}: share lookup is made for the requesting user (connection.username, directly or through a local)',
                  f'{connp}.username' in us, unparse(c)[:70] + f' -> {us}', construct=f'{h.name} {call_name(c)} user')

    from . import defs
    defs.shared_item_lookups(eng, ck, 'R-C08-GATE')
    # a file is gated by the share mode of the directory it is FILED under; filing uses the containment predicates
    from .c07 import containment_rules
    containment_rules(eng, ck, 'R-C08-GATE')

    # ---- R-C08-CASE: needle and haystack agree on case normalisation
    tests = []
    for q_ in eng.scope(q):
        for n in walk_local(q_.node):
            if isinstance(n, ast.Compare) and isinstance(n.ops[0], ast.In) and 'get_query_path' in unparse(n.comparators[0]):
                tests.append((q_, n))
    ck.floor('R-C08-CASE', len(tests), 1)
    q_outer = q
    for q, t in tests:
        hay_lower = any(call_name(x) in ('lower', 'casefold') for x in ast.walk(t.comparators[0]))
        needle = t.left
        needle_lower = any(call_name(x) in ('lower', 'casefold') for x in ast.walk(needle))
        if not needle_lower and isinstance(needle, ast.Name):
            # follow the loop variable to its iterable and the iterable to its definition(s)
            for lp in [a for a in ancestors(t) if isinstance(a, ast.For)]:
                if isinstance(lp.target, ast.Name) and lp.target.id == needle.id:
                    it = expand_aliases(q, lp.iter)
                    if any(call_name(x) in ('lower', 'casefold') for x in ast.walk(it)):
                        needle_lower = True
        if not needle_lower:
            # normalised where the phrases are stored?
            h = eng.func(SEARCH, 'SearchManager._on_excluded_search_phrases')
            for f, st, v in eng.stores_to_attr('excluded_search_phrases', [h]):
                if v is not None and any(call_name(x) in ('lower', 'casefold') for x in ast.walk(v)):
                    needle_lower = True
        ck.ob('R-C08-CASE', q, t, 'excluded-phrase test compares like with like: the path is lower-cased, so the phrase must be too',
              hay_lower == needle_lower, f'path side normalised: {hay_lower}; phrase side normalised: {needle_lower} '
              '(a phrase sent in upper case never matches)', construct='excluded phrase case')
        ck.ob('R-C08-CASE', q, t, 'the excluded-phrase test is case-insensitive (path side normalised)', hay_lower, '',
              construct='excluded phrase path lowered')
        # a hit must drop the item: the test leads to break (for/else) or continue, not to keeping it
        st = enclosing_stmt(t)
        comp = next((a_ for a_ in ancestors(t) if isinstance(a_, (ast.GeneratorExp, ast.ListComp))), None)
        if comp is not None and any(t is i_ or any(t is y_ for y_ in ast.walk(i_)) for g_ in comp.generators for i_ in g_.ifs) or (comp is not None and comp.elt is t):
            # the same search as an expression: `any(<test> for p in phrases)` / `next((p for p in phrases if <test>), None)`;
            # the item may be kept only where that expression says "no hit"
            user = parent(comp)
            kind = call_name(user) if isinstance(user, ast.Call) and user.args and user.args[0] is comp else None
            if kind == 'next' and not (len(user.args) == 2 and is_none_const(user.args[1]) and comp.elt is not t):
                kind = None
            if kind == 'any' and comp.elt is not t:
                kind = None
            item_loop = next((a_ for a_ in ancestors(st) if isinstance(a_, ast.For) and isinstance(a_.target, ast.Name)), None)
            keeps = [x for x in calls_in(item_loop) if call_name(x) in ('add', 'append') and x.args and unparse(x.args[0]) == item_loop.target.id] if item_loop is not None else []
            ok = kind in ('any', 'next') and bool(keeps)
            for k_ in keeps:
                hit_src = unparse(expand_aliases(q, user))
                no_hit = False
                for e_, pol_, _ in expanded_guards(eng, q, k_):
                    a_ = cmp_atom(e_)
                    if kind == 'any' and unparse(e_) == hit_src and not pol_:
                        no_hit = True
                    if kind == 'next' and a_ and a_[0] == 'is' and unparse(a_[1]) == hit_src and is_none_const(a_[2]) and pol_:
                        no_hit = True
                ok = ok and no_hit
        else:
            ok = isinstance(st, ast.If) and st.test is t and is_terminating(st.body) or (isinstance(st, ast.If) and any(isinstance(x, (ast.Break, ast.Continue)) for x in st.body))
        ck.ob('R-C08-CASE', q, t, 'an item containing an excluded phrase is dropped', bool(ok), 'hit does not skip the item', construct='excluded phrase drops')
    q = q_outer

    # ---- R-C08-REEVAL
    reeval_rules(eng, ck, 'R-C08-REEVAL')
    mj = eng.func(TM, 'TransferManager._management_job')
    c = eng.cfg(mj)
    # ---- R-C08-FLAGS (atomic snapshot-and-clear of the request flags)
    reads = [n for n in walk_local(mj.node) if isinstance(n, ast.Attribute) and n.attr == '_management_flags' and isinstance(n.ctx, ast.Load)]
    resets = [st for f, st, v in eng.stores_to_attr('_management_flags', [mj]) if not isinstance(st, ast.AugAssign)]
    ck.floor('R-C08-FLAGS', min(len(reads), len(resets)), 1)
    for st in resets:
        rn = c.nodes_for(st)[0]
        bad = None
        for rd in reads:
            for n in c.nodes_for(rd):
                s = c.suspension_between(n, rn) or c.suspension_between(rn, n)
                if s is not None:
                    bad = (rd, s)
        ck.ob('R-C08-FLAGS', mj, st, 'the request flags are read and cleared without a suspension point in between '
              '(a request arriving while the cycle is suspended must survive for the next cycle)', bad is None,
              f'flags read at line {bad[0].lineno} and cleared at line {st.lineno} with a suspension at line {bad[1].lineno} between them: '
              'a SHARES_CHANGE request made during that window is wiped' if bad else '', construct='flags snapshot-and-clear atomic')
    from . import defs as _d08
    _d08.enum_members_distinct(eng, ck, 'R-C08-GATE', [('BlockingFlag', 'user/model.py'), ('DirectoryShareMode', 'shares/model.py'), ('_RequestFlag', TM), ('AbortReason', 'transfer/model.py')], 'uploads are refused to users blocked for UPLOADS, listings to users blocked for SHARES; a directory is FRIENDS or USERS or EVERYONE')
    _d08.job_raises_nothing_typed(eng, ck, 'R-C08-REEVAL', TM, 'TransferManager._management_job', 'the job is what re-evaluates uploads after a shares / block / friends change')
    from .c07 import innermost_rules
    innermost_rules(eng, ck, 'R-C08-GATE')
    _d08.lock_wrapper_forwards_arguments(eng, ck, 'R-C08-REEVAL', 'an upload aborted on the user\'s request is recognised by its REQUESTED reason, which abort() receives by keyword')
