"""C14 — search requests flow down exactly once; replies go to the asker."""
from __future__ import annotations
from .common import *
from .c13 import child_list_rules

DN = 'DistributedNetwork'
CARRIERS = {'ServerSearchRequest.Response', 'DistributedSearchRequest.Request', 'DistributedServerSearchRequest.Request'}


def handlers_for(eng: Engine, cls: ClassInfo, carriers=CARRIERS) -> list[tuple[FuncInfo, str]]:
    out = []
    for m in cls.methods.values():
        for d in m.decorators:
            if isinstance(d, ast.Call) and call_name(d) == 'on_message' and d.args and unparse(d.args[0]) in carriers:
                out.append((m, unparse(d.args[0])))
    return out


def own_name_guard(eng: Engine, fn: FuncInfo, node: ast.AST) -> bool:
    """Every path to `node` passes the test `message.username != own name`, or
    a test establishing that there is no session (then there is no logged-in
    user whose searches could come back)."""
    c = eng.cfg(fn)

    def is_guard(n: Node) -> bool:
        if n.kind != 'assume':
            return False
        ex = expand_aliases(fn, n.ast)
        polarity = n.polarity
        while isinstance(ex, ast.UnaryOp) and isinstance(ex.op, ast.Not):       # `not (a and b)` taken true is `a and b` taken false
            ex, polarity = ex.operand, not polarity
        atoms = split_conj(ex, polarity)
        if isinstance(ex, ast.BoolOp) and isinstance(ex.op, ast.And) and not polarity:
            # `if session and username == own: return` — on the false edge either there is no session or the name differs:
            # acceptable iff the negation of EVERY conjunct is one of the two accepted facts
            def neg_ok(c):
                a = cmp_atom(c)
                if a and a[0] == 'eq':
                    s = {unparse(a[1]), unparse(a[2])}
                    return 'message.username' in s and any(x.endswith('_session.user.name') for x in s)
                return unparse(c).endswith('_session')
            if all(neg_ok(c) for c in ex.values):
                return True
        for e, pol in atoms:
            a = cmp_atom(e)
            if a and a[0] == 'eq' and not pol:
                s = {unparse(a[1]), unparse(a[2])}
                if 'message.username' in s and any(x.endswith('_session.user.name') for x in s):
                    return True
            # no session
            if (not pol) and unparse(e).endswith('_session'):
                return True
            if pol and a and a[0] == 'is' and unparse(a[1]).endswith('_session') and is_none_const(a[2]):
                return True
        return False
    targets = c.nodes_for(node)
    return c.find_path([c.entry], lambda n: n in targets, avoid=is_guard) is None


def same_sequence(fn: FuncInfo, e: ast.AST, name: str) -> bool:
    """`e` denotes the elements of the sequence `name`, all of them, in order, and can be traversed again: the name itself, or a MATERIALISED copy
    (`tuple(..)` / `list(..)` / `[..]` of `x for x in name` without filter, or of the name) bound once -- never a bare generator"""
    if unparse(e) == name:
        return True
    v = expand_aliases(fn, e)
    if isinstance(v, ast.Call) and isinstance(v.func, ast.Name) and v.func.id in ('tuple', 'list') and len(v.args) == 1 and not v.keywords:
        v = v.args[0]
        if unparse(v) == name:
            return True
        if isinstance(v, (ast.GeneratorExp, ast.ListComp)) and len(v.generators) == 1 and not v.generators[0].ifs and unparse(v.generators[0].iter) == name and \
                unparse(v.elt) == unparse(v.generators[0].target):
            return True
    if isinstance(v, ast.ListComp) and len(v.generators) == 1 and not v.generators[0].ifs and unparse(v.generators[0].iter) == name and unparse(v.elt) == unparse(v.generators[0].target):
        return True
    return False


def fanout_rules(eng: Engine, ck: Check, rule: str):
    """send_messages_to_children delivers every message to every CURRENT child: shared by C14 (searches flow down exactly once) and
    C13 (every child is told the current position)."""
    stc = eng.func(DIST, f'{DN}.send_messages_to_children')
    ck.visited(stc)
    loops = [n for n in walk_local(stc.node) if isinstance(n, (ast.For, ast.AsyncFor))]
    ok = len(loops) == 1 and chain_str(loops[0].iter) == 'self.children'
    ck.ob(rule, stc, stc.node, 'send_messages_to_children iterates exactly self.children, once', ok,
          f'iterates {[unparse(l.iter) for l in loops]}', construct='fan-out iterable')
    if loops:
        lp = loops[0]
        tv = lp.target.id if isinstance(lp.target, ast.Name) else '?'
        qs = [c for st in lp.body for c in calls_in(st) if call_name(c) in ('queue_messages', 'queue_message', 'send_message')]
        ok = len(qs) == 1 and unparse(qs[0].func.value) == f'{tv}.connection' and not eng.guards_at(stc, qs[0]) and \
            any(isinstance(a, ast.Starred) and same_sequence(stc, a.value, stc.params[-1]) for a in qs[0].args)
        ck.ob(rule, stc, lp, 'each child gets all messages, queued once on its own connection, unconditionally', ok,
              f'{[unparse(q) for q in qs]}', construct='fan-out body')
        other = [c for c in calls_in(stc.node) if call_name(c) in ('queue_messages', 'queue_message', 'send_message', 'send_peer_messages',
                                                                 'send_server_messages') and c not in qs]
        ck.ob(rule, stc, stc.node, 'nothing else is sent from send_messages_to_children', not other, f'{[unparse(o)[:50] for o in other]}',
              construct='fan-out no other target')
    for lp in loops:
        aw = [n for st in lp.body for n in walk_local(st) if isinstance(n, (ast.Await, ast.AsyncWith, ast.AsyncFor))]
        live = chain_str(lp.iter) == 'self.children'
        ck.ob(rule, stc, lp, 'the loop over the live child list does not suspend (a child that closes during an awaited send is removed from the list '
              'under the loop, and the next child is skipped)', not (aw and live),
              f'await at line {aw[0].lineno} inside `for .. in self.children`' if aw else '', construct='fan-out loop atomic')
    # what is queued for one child is queued on THAT child's connection only (containers are per instance), and queue_messages means
    # one send task per message, in order
    dn_ = eng.cls(DN, DIST)
    n_pi = per_instance_state_rule(eng, ck, rule, [eng.cls('PeerConnection', CONN), dn_],
                                   'a message queued for one child must not be visible to (or cancelled by the close of) any other connection')
    ck.floor(rule + '.per-instance', n_pi, 2)
    from . import defs
    defs.queue_messages_definition(eng, ck, rule)


def run(eng: Engine, ck: Check):
    repo = eng.repo
    dn = eng.cls(DN, DIST)
    smc = eng.cls('SearchManager', SEARCH)

    # ---- R-C14-FANOUT
    fanout_rules(eng, ck, 'R-C14-FANOUT')
    fwd = handlers_for(eng, dn)
    ck.floor('R-C14-FANOUT.handlers', len(fwd), 3)
    for h, carrier in fwd:
        ck.visited(h)
        sends = [c for c in calls_in(h.node) if call_name(c) in ('queue_messages', 'queue_message', 'send_message', 'send_peer_messages',
                                                               'send_server_messages', 'send_messages_to_children')]
        good = [c for c in sends if call_name(c) == 'send_messages_to_children' and unparse(c.func.value) == 'self']
        ck.ob('R-C14-FANOUT', h, h.node, f'{h.name}: a search carrier is passed on only through send_messages_to_children (never to the parent, '
              'to candidates or to the server)', len(good) >= 1 and len(good) == len(sends), f'{[unparse(s)[:60] for s in sends if s not in good]}',
              construct=f'{h.name} forwards via children only')
        c = eng.cfg(h)
        gn = [n for g in good for n in c.nodes_for(g)]
        # at most once per message: no path passes two forwarding calls
        twice = False
        for n in gn:
            nxt = [s for s, lab in n.succ if lab == 'next']
            if c.find_path(nxt, lambda x: x in gn, edge_ok=lambda a, b, lab: lab == 'next') is not None:
                twice = True
        ck.ob('R-C14-FANOUT', h, h.node, f'{h.name}: forwards at most once per received message', not twice, 'two forwarding calls on one path',
              construct=f'{h.name} forwards once')
    # nobody else queues search carriers on arbitrary connections
    for f in repo.all_funcs():
        if f.cls is dn and f.name != 'send_messages_to_children':
            for c in calls_in(f.node):
                if call_name(c) in ('queue_messages', 'queue_message', 'send_message') and 'Search' in unparse(c):
                    ck.ob('R-C14-FANOUT', f, c, 'search carriers are never queued on a hand-picked connection', False, unparse(c)[:80],
                          construct=f'{f.qualname} sends a search carrier')

    # closed children leave the list, live ones stay (forwarding reaches exactly the current children)
    child_list_rules(eng, ck, 'R-C14-CHILDREN')

    # ---- R-C14-FIELDS
    for h, carrier in fwd:
        for c in calls_on(h.node, 'send_messages_to_children'):
            for a in c.args:
                v = expand_aliases(h, a)
                if isinstance(v, ast.Name) and v.id == 'message':
                    ck.ob('R-C14-FIELDS', h, c, f'{h.name}: the received request object itself is passed on', True, construct=f'{h.name} fields')
                    continue
                ok = isinstance(v, ast.Call) and unparse(v.func) == 'DistributedSearchRequest.Request'
                if ok:
                    kws = {k.arg: unparse(k.value) for k in v.keywords}
                    pos = ['unknown', 'username', 'ticket', 'query']
                    for i, x in enumerate(v.args):
                        kws[pos[i]] = unparse(x)
                    ok = kws.get('username') == 'message.username' and kws.get('ticket') == 'message.ticket' and kws.get('query') == 'message.query'
                ck.ob('R-C14-FIELDS', h, c, f'{h.name}: the forwarded DistributedSearchRequest carries the same user, ticket and query', bool(ok),
                      unparse(v)[:120], construct=f'{h.name} fields')

    # ---- R-C14-OWN: sibling agreement on the own-name guard
    ans = handlers_for(eng, smc, CARRIERS | {'FileSearch.Response'})
    ck.floor('R-C14-OWN', len(fwd) + len(ans), 7)
    for h, carrier in fwd:
        for c in calls_on(h.node, 'send_messages_to_children'):
            ck.ob('R-C14-OWN', h, c, f'{h.name} ({carrier}): a search that carries the logged-in user\'s own name is not forwarded', own_name_guard(eng, h, c),
                  'no dominating `message.username != session.user.name` test (sibling handlers have it)', construct=f'{DN}.{h.name} own-name guard')
    for h, carrier in ans:
        ck.visited(h)
        qs = calls_on(h.node, '_query_shares_and_reply')
        for c in qs:
            ck.ob('R-C14-OWN', h, c, f'{h.name} ({carrier}): a search that carries the logged-in user\'s own name is not answered', own_name_guard(eng, h, c),
                  'no dominating `message.username != session.user.name` test (sibling handlers have it)', construct=f'SearchManager.{h.name} own-name guard')
            args = [unparse(a) for a in c.args]
            ck.ob('R-C14-REPLY', h, c, f'{h.name}: the answer is computed for the ticket, user and query of the request', args == ['message.ticket', 'message.username', 'message.query'],
                  f'{args}', construct=f'{h.name} passes request fields')
        ck.ob('R-C14-REPLY', h, h.node, f'{h.name} answers at most once', len(qs) == 1, f'{len(qs)} calls', construct=f'{h.name} answers once')

    # ---- R-C14-REPLY
    qr = eng.func(SEARCH, 'SearchManager._query_shares_and_reply')
    ck.visited(qr)
    sends = [c for c in calls_in(qr.node) if call_name(c) in ('send_peer_messages', 'queue_message', 'send_message')]
    ck.floor('R-C14-REPLY', len(sends), 1)
    ck.ob('R-C14-REPLY', qr, qr.node, 'exactly one reply is sent per call', len(sends) == 1, f'{len(sends)} send sites', construct='one reply')
    for s in sends:
        to = s.args[0] if s.args else None
        ck.ob('R-C14-REPLY', qr, s, 'the reply goes to the asking user', to is not None and unparse(to) == qr.params[2], f'sent to `{unparse(to)}`',
              construct='reply recipient')
        req = [c for c in ast.walk(s) if isinstance(c, ast.Call) and call_name(c) == 'Request' and 'PeerSearchReply' in unparse(c.func)]
        ok = len(req) == 1
        if ok:
            k = {x.arg: unparse(x.value) for x in req[0].keywords}
            ok = k.get('ticket') == qr.params[1] and (k.get('username') or '').endswith('_session.user.name')
        ck.ob('R-C14-REPLY', qr, s, 'the reply carries the request\'s ticket and the own username', ok, unparse(req[0])[:100] if req else '',
              construct='reply ticket and name')
        gs = expanded_guards(eng, qr, s)
        nonempty = any((not pol) and (cmp_atom(e) or ('',))[0] == 'eq' and const(cmp_atom(e)[2]) == 0 and 'len(' in unparse(cmp_atom(e)[1]) for e, pol, _ in gs) or \
            any(pol and (cmp_atom(e) or ('',))[0] == 'gt' and const(cmp_atom(e)[2]) == 0 for e, pol, _ in gs) or \
            any(pol and isinstance(e, ast.Name) and 'result' in e.id for e, pol, _ in gs)
        ck.ob('R-C14-REPLY', qr, s, 'no reply is sent when nothing matched (visible + locked == 0)', nonempty, f'{[unparse(e) for e, _, _ in gs]}',
              construct='no empty reply')
        both = any('visible' in unparse(e) and 'locked' in unparse(e) for e, pol, _ in gs if 'len(' in unparse(e))
        ck.ob('R-C14-REPLY', qr, s, 'locked matches alone also produce a reply', both, '', construct='locked counts')
        sess = any((not pol) and unparse(e).endswith('_session') for e, pol, _ in eng.guards_at(qr, s)) or any(
            pol and '_session' in unparse(e) for e, pol, _ in eng.guards_at(qr, s))
        ck.ob('R-C14-REPLY', qr, s, 'a reply needs a session (own username)', sess, '', construct='reply needs session')
    for c in calls_on(qr.node, 'query'):
        ok = unparse(c.args[0]) == qr.params[3] if c.args else False
        ck.ob('R-C14-REPLY', qr, c, 'the shares are queried with the query string of the request', ok, unparse(c)[:80], construct='query string')
    from . import defs as _d14
    _d14.presence_truthiness(eng, ck, 'R-C14-OWN', [('Session', 'session.py')], 'the own-name guard is `if self._session and message.username == self._session.user.name`')
    _d14.identity_semantics(eng, ck, 'R-C14-CHILDREN', [('PeerConnection', CONN)], 'the child list and the peer lookup compare connections; two connections of one user are different connections')
    _d14.on_message_registers(eng, ck, 'R-C14-FWD', 'the three carriers of a search are three @on_message handlers in each of two managers')
    from . import defs as _d_act
    _d_act.active_connection_definition(eng, ck, 'R-C14-REPLY', 'the search reply is sent over a connection picked by this test, or a new one is made')
