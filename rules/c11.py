"""C11 — peer connect: leaves nothing behind, answers the asking peer, error mapping."""
from __future__ import annotations
from .common import *
from sa.engine import ReleaseSummaries


def bound_iter_of(name: str, at: ast.AST) -> Optional[ast.AST]:
    """Expression the local `name` iterates over, if it is bound by an enclosing
    for-loop or by a comprehension inside the same statement."""
    for a in ancestors(at):
        if isinstance(a, (ast.For, ast.AsyncFor)) and isinstance(a.target, ast.Name) and a.target.id == name:
            return a.iter
        if isinstance(a, (ast.ListComp, ast.SetComp, ast.GeneratorExp)):
            for g in a.generators:
                if isinstance(g.target, ast.Name) and g.target.id == name:
                    return g.iter
    return None


def pending_names(fn: FuncInfo) -> set[str]:
    """locals that receive the not-yet-finished set of asyncio.wait(): `done, pending = await asyncio.wait(..)`, and copies `pending = set(tasks)`"""
    out = set()
    for n in walk_local(fn.node):
        if isinstance(n, ast.Assign) and isinstance(n.targets[0], ast.Tuple) and len(n.targets[0].elts) == 2 and \
                any(isinstance(x, ast.Call) and call_name(x) == 'wait' for x in ast.walk(n.value)) and isinstance(n.targets[0].elts[1], ast.Name):
            out.add(n.targets[0].elts[1].id)
    return out


def cancel_release(fn: FuncInfo, resource_names: set[str]):
    """CFG-node predicate: the node cancels (all of) the tracked futures/tasks."""
    def pred(n: Node) -> bool:
        if n.ast is None:
            return False
        if n.kind == 'assume':
            # `if pending:` false branch / `if not done:` style emptiness tests: nothing left to cancel
            e = n.ast
            neg = n.polarity
            if isinstance(e, ast.UnaryOp) and isinstance(e.op, ast.Not):
                e, neg = e.operand, not neg
            return isinstance(e, ast.Name) and e.id in resource_names and e.id in pending_names(fn) and not neg
        if n.kind == 'loop':
            # a loop whose body cancels its loop variable, iterating the tracked collection
            body_cancels = any(call_name(c) == 'cancel' and isinstance(c.func.value, ast.Name) and isinstance(n.ast.target, ast.Name)
                               and c.func.value.id == n.ast.target.id for st in n.ast.body for c in calls_in(st))
            return body_cancels and any(mentions_name(n.ast.iter, r) for r in resource_names)
        if n.kind not in ('stmt',):
            return False
        for c in calls_in(n.ast):
            if call_name(c) != 'cancel' or not isinstance(c.func, ast.Attribute):
                continue
            r = c.func.value
            if isinstance(r, ast.Name):
                if r.id in resource_names:
                    return True
                it = bound_iter_of(r.id, c)
                if it is not None and any(mentions_name(it, x) for x in resource_names):
                    return True
        return False
    return pred


def race_attempts_rule(eng: Engine, ck: Check, rule: str):
    """The two attempt tasks of a peer-connection race are finished or cancelled on EVERY exit of the race, the cancellation of the
    request itself included (shared by C11: nothing is left behind, and C06: cancelling a transfer's negotiation task cancels the
    connection attempts it is waiting for)."""
    race = eng.func(NET, 'Network._create_peer_connection_race')
    ck.visited(race)
    tasks = [(n, n.targets[0].id) for n in walk_local(race.node) if isinstance(n, ast.Assign) and isinstance(n.value, ast.Call)
             and call_name(n.value) == 'create_task' and isinstance(n.targets[0], ast.Name)]
    ck.floor(rule + '.race_tasks', len(tasks), 2)
    tnames = {nm for _, nm in tasks}
    tracked = set(tnames) | pending_names(race)
    for k, v in single_assignments(race).items():
        if isinstance(v, (ast.Tuple, ast.List, ast.Set)) and all(isinstance(e, ast.Name) and e.id in tnames for e in v.elts):
            tracked.add(k)
    rel = cancel_release(race, tracked)
    for st, nm in tasks:
        leaks = eng.leak_paths(race, st, rel, exits=('exit_raise', 'exit_cancel', 'exit_return'))
        # on the final raise both tasks are done (loop ran until pending is empty): `while pending` false edge counts as release
        ck.ob(rule, race, st, f'attempt task `{nm}` is finished or cancelled on every exit of the race (winner returned, '
              'both failed, or the request itself cancelled)', not leaks,
              '; '.join(f'{k} reachable with the task possibly running via lines {p}' for k, p in leaks), construct=f'race task {nm}')
    return race, tasks, tnames, tracked, rel


def run(eng: Engine, ck: Check):
    repo = eng.repo
    exc = eng.exc_model()

    # ---- R-C11-WAITERS
    ind = eng.func(NET, 'Network._make_indirect_connection')
    ck.visited(ind)
    c = eng.cfg(ind)
    acquisitions = []
    for n in walk_local(ind.node):
        if isinstance(n, ast.Assign):
            if any(isinstance(t, ast.Subscript) and mentions_attr(t.value, '_expected_connection_futures') for t in n.targets):
                acquisitions.append((n, unparse(n.value), 'ticket waiter (expected connection future)'))
            elif isinstance(n.value, ast.Call) and call_name(n.value) in ('create_server_response_future', 'create_peer_response_future') \
                    and isinstance(n.targets[0], ast.Name):
                acquisitions.append((n, n.targets[0].id, 'cannot-connect waiter (expected response future)'))
    ck.floor('R-C11-WAITERS', len(acquisitions), 2)
    fut_names = {nm for _, nm, _ in acquisitions}
    tracked = set(fut_names) | pending_names(ind)
    # names of tuples/collections built from the futures
    for k, v in single_assignments(ind).items():
        if isinstance(v, (ast.Tuple, ast.List, ast.Set)) and all(isinstance(e, ast.Name) and e.id in fut_names for e in v.elts):
            tracked.add(k)
    rel = cancel_release(ind, tracked)
    for st, nm, what in acquisitions:
        leaks = eng.leak_paths(ind, st, rel, exits=('exit_raise', 'exit_cancel', 'exit_return'))
        ck.ob('R-C11-WAITERS', ind, st,
              f'{what} `{nm}` is cancelled (or completed) on every exit of _make_indirect_connection: return, error, '
              'server send failure and cancellation of the attempt', not leaks,
              '; '.join(f'{k} reachable with the waiter still registered via lines {p}' for k, p in leaks),
              construct=f'waiter {what}')
    # the remover callback of the ticket waiter is attached before the first suspension
    cbs = [x for x in calls_on(ind.node, 'add_done_callback') if any(call_name(y) == 'partial' and y.args and
           (chain_str(y.args[0]) or '').endswith('_remove_connection_future') for y in ast.walk(x))]
    ok = bool(cbs) and c.suspension_between(c.entry, c.nodes_for(cbs[0])[0]) is None
    ck.ob('R-C11-WAITERS', ind, cbs[0] if cbs else ind.node, 'the ticket waiter removes itself from the table when done (callback attached before any suspension)',
          ok, 'add_done_callback(partial(self._remove_connection_future, ticket)) missing or late', construct='ticket waiter remover')
    rcf = eng.func(NET, 'Network._remove_connection_future')
    pops = [x for x in calls_in(rcf.node) if call_name(x) in ('pop',) and mentions_attr(x.func.value, '_expected_connection_futures')]
    dels = [n for n in walk_local(rcf.node) if isinstance(n, ast.Delete) and mentions_attr(n, '_expected_connection_futures')]
    ck.ob('R-C11-WAITERS', rcf, rcf.node, '_remove_connection_future drops the ticket entry', bool(pops or dels), '', construct='remover drops entry')

    # ---- R-C11-LOSER
    race, tasks, tnames, tracked, rel = race_attempts_rule(eng, ck, 'R-C11-LOSER')
    # cancelled losers are awaited
    canc_nodes = [n for n in eng.cfg(race).nodes if rel(n) and n.kind in ('stmt', 'loop')]
    gath = [x for x in calls_in(race.node) if call_name(x) == 'gather' and isinstance(parent(x), ast.Await)]
    cr_ = eng.cfg(race)
    dominated = bool(gath) and all(any(rel(d) and d.kind in ('stmt', 'loop') for d in cr_.dominators()[n]) for g_ in gath for n in cr_.nodes_for(g_))
    ck.ob('R-C11-LOSER', race, race.node, 'the losing attempts are cancelled first and then awaited before the winner is returned '
          '(awaiting an uncancelled loser lets it finish: a second connection is created and dropped on the floor)', dominated,
          'no awaited gather of the pending attempts, or it is not preceded by their cancellation', construct='losers cancelled then awaited')
    # all winners are kept, the surplus one is disconnected
    res = [x for x in calls_in(race.node) if call_name(x) == 'result' and isinstance(x.func, ast.Attribute)]
    ck.floor('R-C11-LOSER.result', len(res), 1)
    for r in res:
        par = parent(r)
        into_list = isinstance(par, ast.Call) and call_name(par) in ('append', 'add') and isinstance(par.func.value, ast.Name)
        lst = par.func.value.id if into_list else None
        disc = False
        if lst:
            for d in calls_on(race.node, 'disconnect'):
                rv = d.func.value
                if isinstance(rv, ast.Subscript) and isinstance(rv.value, ast.Name) and rv.value.id == lst and \
                        isinstance(const(rv.slice), int) and const(rv.slice) >= 1:
                    disc = True
                if isinstance(rv, ast.Name):
                    it = bound_iter_of(rv.id, d)
                    it = expand_aliases(race, it, 1) if isinstance(it, ast.Name) else it       # `rest = lst[1:]` ; `for c in rest:`
                    if it is not None and isinstance(it, ast.Subscript) and mentions_name(it, lst) and isinstance(it.slice, ast.Slice) \
                            and const(it.slice.lower) == 1:
                        disc = True
        ck.ob('R-C11-LOSER', race, r, 'every successful attempt is kept (collected), and a second successful connection is disconnected, '
              'also when both attempts finish in the same wake-up', bool(into_list and disc),
              f'result stored via `{unparse(enclosing_stmt(r))[:60]}`; surplus connection disconnected: {disc}',
              construct='race keeps all winners')
    # direct attempt: shared with C10 registry pairing
    d = eng.func(NET, 'Network._make_direct_connection')
    apps = [x for f, x in eng.mutations_of_attr('peer_connections', ['append'], [d])]
    rs = ReleaseSummaries(eng, 'disconnect')
    for a in apps:
        var = unparse(a.args[0])
        cd = eng.cfg(d)
        starts = [s for n in cd.nodes_for(a) for s, lab in n.succ if lab == 'next']
        leaks = []
        for kind in ('exit_raise', 'exit_cancel'):
            p = cd.find_path(starts, lambda n, k=kind: n.kind == k, avoid=lambda n: rs.is_release_node(n, {var}),
                             edge_ok=rs.edge_filter(d, {var}))
            if p:
                leaks.append((kind, cd.describe_path(p, d.where)))
        ck.ob('R-C11-LOSER', d, a, 'the direct attempt closes (and thereby unregisters) its connection on every failing or cancelled exit',
              not leaks, '; '.join(f'{k} via lines {p}' for k, p in leaks), construct='direct attempt closes on failure')

    # ---- R-C11-ERRMAP
    fb = eng.func(NET, 'Network._create_peer_connection_fallback')
    ck.visited(fb)
    hs = [h for h in walk_local(fb.node) if isinstance(h, ast.ExceptHandler)]
    ck.floor('R-C11-ERRMAP', len(hs), 2)
    for h in hs:
        names = handler_type_names(h)
        wide = not names or any(x in ('NetworkError', 'AioSlskException', 'Exception') for x in names)
        ck.ob('R-C11-ERRMAP', fb, h, 'fallback: every network failure class of an attempt is caught (handler for the common base NetworkError)',
              wide, f'handler catches only {names}', construct=f'fallback handler #{hs.index(h)}')
    inner = [h for h in hs if any(isinstance(a, ast.ExceptHandler) for a in ancestors(h))]
    for h in inner:
        r = [n for n in walk_local(h) if isinstance(n, ast.Raise)]
        ok = len(r) == 1 and r[0].exc is not None and 'PeerConnectionError' in unparse(r[0].exc)
        ck.ob('R-C11-ERRMAP', fb, h, 'fallback: when both attempts failed a PeerConnectionError is raised', ok, '', construct='fallback final error')
    # the indirect attempt is made only after the direct one failed
    dcall = calls_on(fb.node, '_make_direct_connection')
    icall = calls_on(fb.node, '_make_indirect_connection')
    ok = len(dcall) == 1 and len(icall) == 1 and any(isinstance(a, ast.ExceptHandler) for a in ancestors(icall[0])) and \
        not any(isinstance(a, ast.ExceptHandler) for a in ancestors(dcall[0]))
    ck.ob('R-C11-ERRMAP', fb, fb.node, 'fallback: direct first, indirect in the failure handler of the direct attempt', ok, '', construct='fallback order')
    # every failure class of an attempt is a NetworkError (so that the NetworkError handlers of the fallback and of connect-back cover it)
    escm = eng.escape()
    import sa.cfg as cfgm

    def non_network(fn: FuncInfo) -> list[str]:
        return sorted(t for t in escm.of(fn) if t == '*' or 'NetworkError' not in cfgm.exc_ancestors(t))
    for q_ in ('DataConnection.connect', 'PeerConnection.connect'):
        f_ = eng.func(CONN, q_)
        ck.ob('R-C11-ERRMAP', f_, f_.node, f'{q_}: every way a connect can fail leaves as a NetworkError (ConnectionFailedError), so the attempt\'s callers '
              'treat it as "this path failed"', not non_network(f_), f'classes that can escape and are not NetworkErrors: {non_network(f_)} '
              '(e.g. OverflowError for a port above 65535 bypasses `except NetworkError`: no fallback to the indirect path, no CannotConnect report)',
              construct=f'{q_} escape set')
    f_ = eng.func(NET, 'Network._make_direct_connection')
    ck.ob('R-C11-ERRMAP', f_, f_.node, 'the direct attempt fails only with NetworkErrors', not non_network(f_), f'{non_network(f_)}', construct='direct attempt escape set')
    cr = eng.cfg(race)
    final_raise = [n for n in walk_local(race.node) if isinstance(n, ast.Raise) and n.exc is not None and 'PeerConnectionError' in unparse(n.exc)]
    implicit = cr.find_path([cr.entry], lambda n: n.kind == 'exit_return', avoid=lambda n: isinstance(n.ast, ast.Return))
    ck.ob('R-C11-ERRMAP', race, race.node, 'race: when no attempt succeeded a PeerConnectionError is raised (no implicit None return)',
          bool(final_raise) and implicit is None, f'path falling off the end: {cr.describe_path(implicit, race.where) if implicit else ""}',
          construct='race final error')
    for r in res:
        t = protected_by_try_catching(eng, race, r, 'Exception', 'BaseException')
        ck.ob('R-C11-ERRMAP', race, r, 'race: a failed attempt does not abort the race (result() inside try/except Exception)', t is not None, '',
              construct='race result guarded')
    cp = eng.func(NET, 'Network.create_peer_connection')
    modes = {}
    for call in calls_in(cp.node):
        if call_name(call) in ('_create_peer_connection_race', '_create_peer_connection_fallback'):
            gs = eng.guards_at(cp, call)
            modes[call_name(call)] = [(enum_members_in(e), pol) for e, pol, _ in gs if mentions_attr(e, 'connect_mode')]
    ok = modes.get('_create_peer_connection_race') == [({'RACE'}, True)] and modes.get('_create_peer_connection_fallback') == [({'RACE'}, False)] or \
        modes.get('_create_peer_connection_fallback') == [({'FALLBACK'}, True)]
    ck.ob('R-C11-ERRMAP', cp, cp.node, 'create_peer_connection dispatches on the configured connect mode', bool(ok), f'{modes}', construct='mode dispatch')

    # ---- R-C11-CONNECTBACK
    hc = eng.func(NET, 'Network._handle_connect_to_peer')
    ck.visited(hc)
    pierce = [x for x in calls_in(hc.node) if call_name(x) == 'Request' and 'PeerPierceFirewall' in unparse(x.func)]
    cannot = [x for x in calls_in(hc.node) if call_name(x) == 'Request' and 'CannotConnect' in unparse(x.func)]
    ck.floor('R-C11-CONNECTBACK', min(len(pierce), len(cannot)), 1)
    for p in pierce:
        t = arg(p, 0, 'ticket')
        ck.ob('R-C11-CONNECTBACK', hc, p, 'connect-back: PeerPierceFirewall carries the ticket of the request', chain_str(t) == 'message.ticket',
              unparse(t), construct='pierce ticket')
        tr = protected_by_try_catching(eng, hc, p, 'NetworkError', 'AioSlskException', 'Exception', 'BaseException')
        conn_calls = calls_on(hc.node, 'connect')
        same_try = tr is not None and all(any(tt is tr for tt, part in eng.enclosing_trys(hc, cc) if part == 'body') for cc in conn_calls)
        ck.ob('R-C11-CONNECTBACK', hc, p, 'connect-back: connect() and the pierce-firewall send are covered by a handler for every network '
              'failure (NetworkError or wider)', tr is not None and same_try,
              'handler is narrower than NetworkError or does not cover both steps', construct='connect-back failure handler')
        if tr is not None:
            in_handler = [x for x in cannot if any(h for h in tr.handlers if any(a is h for a in ancestors(x)))]
            ok = bool(in_handler)
            for x in in_handler:
                ok = ok and chain_str(kw(x, 'ticket') or (x.args[0] if x.args else None)) == 'message.ticket' and \
                    chain_str(kw(x, 'username') or (x.args[1] if len(x.args) > 1 else None)) == 'message.username'
                st = enclosing_stmt(x)
                ok = ok and any(call_name(y) in ('send_message', 'send_server_messages', 'queue_message', 'queue_server_messages')
                                for y in calls_in(st)) and 'server' in unparse(st)
            ck.ob('R-C11-CONNECTBACK', hc, tr, 'connect-back failure is reported to the server as CannotConnect(ticket, username of the request)',
                  ok, 'CannotConnect missing in the handler or with other field values', construct='cannot-connect report')
            # the report is not conditional
            for x in in_handler:
                gs = [g for g in eng.guards_at(hc, x)]
                ck.ob('R-C11-CONNECTBACK', hc, x, 'the CannotConnect report is unconditional inside the handler', not gs,
                      f'{[unparse(e) for e, _, _ in gs]}', construct='cannot-connect unconditional')

    # ---- R-C11-INIT
    from . import defs
    fin_helpers, fin_direct = defs.connection_finalisation(eng)
    for f, sinks in ((d, [n for n in walk_local(d.node) if isinstance(n, ast.Return) and n.value is not None]),
                     (eng.func(NET, 'Network.on_peer_accepted'), calls_on(eng.func(NET, 'Network.on_peer_accepted').node, 'set_result')),
                     (hc, [x for x in calls_on(hc.node, 'emit')])):
        cf = eng.cfg(f)
        fin = [n for call in calls_in(f.node) if call_name(call) in fin_helpers and call_name(call) != f.name and isinstance(call.func, ast.Attribute) and
               unparse(call.func.value) == 'self' for n in cf.nodes_for(call)] + [n for call in fin_direct(f) for n in cf.nodes_for(call)]
        ck.floor(f'R-C11-INIT.{f.name}', len(sinks), 1)
        for s in sinks:
            sn = cf.nodes_for(s)
            p = cf.find_path([cf.entry], lambda n: n in sn, avoid=lambda n: n in fin)
            ck.ob('R-C11-INIT', f, s, f'{f.name}: the connection handed out has been finalised (state ESTABLISHED / NEGOTIATING_TRANSFER set)', bool(fin) and p is None,
                  f'reachable without finalisation: {cf.describe_path(p, f.where) if p else "no finalize call"}',
                  construct=f'{f.name} finalize before {alpha_key(s)[:40]}')
    opa = eng.func(NET, 'Network.on_peer_accepted')
    for sr in calls_on(opa.node, 'set_result'):
        fut = unparse(sr.func.value)
        blk = parent(enclosing_stmt(sr))
        body = getattr(blk, 'orelse', None) if isinstance(blk, ast.Try) and enclosing_stmt(sr) in blk.orelse else None
        stores = {unparse(t): unparse(n.value) for n in walk_local(opa.node) if isinstance(n, ast.Assign) for t in n.targets}
        ok = stores.get('connection.username') in (f'{fut}.username',) or any(v == f'{fut}.username' for k, v in stores.items() if k == 'connection.username')
        # there are two stores to connection.username (PeerInit branch and pierce branch): look at all assignments
        us = [unparse(n.value) for n in walk_local(opa.node) if isinstance(n, ast.Assign) and unparse(n.targets[0]) == 'connection.username']
        ts = [unparse(n.value) for n in walk_local(opa.node) if isinstance(n, ast.Assign) and unparse(n.targets[0]) == 'connection.connection_type']
        ck.ob('R-C11-INIT', opa, sr, 'pierce-firewall path: username and type are copied from the waiter whose ticket matched',
              f'{fut}.username' in us and f'{fut}.typ' in ts, f'username <- {us}, type <- {ts}', construct='pierce copies identity')
        lk = [n for n in walk_local(opa.node) if isinstance(n, ast.Assign) and unparse(n.targets[0]) == fut]
        ok = bool(lk) and isinstance(lk[0].value, ast.Subscript) and mentions_attr(lk[0].value.value, '_expected_connection_futures') and \
            unparse(expand_aliases(opa, lk[0].value.slice)).endswith('.ticket')
        ck.ob('R-C11-INIT', opa, sr, 'the waiter is looked up by the ticket carried in the PeerPierceFirewall message', ok,
              unparse(lk[0]) if lk else 'lookup not found', construct='pierce lookup by ticket')

    # ---- R-C11-SELECT
    sp = eng.func(NET, 'Network.select_port')
    ck.visited(sp)
    pn, on = sp.params[1], sp.params[2]
    rows = []
    for r in [n for n in walk_local(sp.node) if isinstance(n, ast.Return)]:
        conds = []
        for e, pol, _ in expanded_guards(eng, sp, r):
            if isinstance(e, ast.Name) and e.id in (pn, on):
                conds.append(('port' if e.id == pn else 'obf', pol))
            elif mentions_attr(e, 'obfuscate'):
                conds.append(('prefer', pol))
            else:
                conds.append((unparse(e), pol))
        v = r.value
        val = (('port' if unparse(v.elts[0]) == pn else 'obf' if unparse(v.elts[0]) == on else unparse(v.elts[0])), const(v.elts[1])) \
            if isinstance(v, ast.Tuple) and len(v.elts) == 2 else unparse(v)
        rows.append((frozenset(conds), val))
    expected = {
        (frozenset({('port', True), ('obf', True), ('prefer', True)}), ('obf', True)),
        (frozenset({('port', True), ('obf', True), ('prefer', False)}), ('port', False)),
    }
    ok1 = expected <= set(rows)
    rest = [r for r in rows if r not in expected]
    # port only -> (port, False); otherwise -> (obf, True)
    ok2 = len(rest) == 2 and any(v == ('port', False) and ('port', True) in cnd for cnd, v in rest) and \
        any(v == ('obf', True) and ('port', True) not in cnd for cnd, v in rest)
    ck.ob('R-C11-SELECT', sp, sp.node, 'select_port: both available -> preferred kind; only one available -> that one, with the matching obfuscation flag',
          ok1 and ok2, f'extracted rows: {[(sorted(c), v) for c, v in rows]}', construct='select_port table')
    from . import defs as _d11
    _d11.string_decoding_tolerant(eng, ck, 'R-C11-CONNECTBACK', 'a ConnectToPeer request naming such a user must still reach the handler that answers it')
    from . import defs as _d_act
    _d_act.active_connection_definition(eng, ck, 'R-C11-INIT', 'create_peer_connection re-uses a connection picked by this test')
    _d_act.obfuscation_reset_definition(eng, ck, 'R-C11-INIT', 'the connection create_peer_connection returns is usable: both ends agree on whether what follows the init message is obfuscated')
    _d_act.waiters_are_fresh(eng, ck, 'R-C11-WAITERS', 'the address of the peer is awaited by each request on its own; one cancelled request must not end another')
