"""C07 — search over the shares returns exactly the matching files (two-implementation agreement + index invariants)."""
from __future__ import annotations
import re
from .common import *

SMODEL = 'shares/model.py'
SUTILS = 'shares/utils.py'
QMODEL = 'search/model.py'


def regex_tree(pattern: str):
    import re._parser as sp  # type: ignore
    return sp.parse(pattern)


def class_items(node) -> Optional[set[str]]:
    """Members of a character class / alternation of single categories as a canonical set."""
    import re._constants as sc  # type: ignore
    op, av = node
    out = set()
    if op is sc.IN:
        for o, a in av:
            out.add(f'{o}:{a}')
        return out
    if op is sc.BRANCH:
        for alt in av[1]:
            if len(alt) != 1:
                return None
            sub = class_items(alt[0])
            if sub is None:
                o, a = alt[0]
                sub = {f'{o}:{a}'}
            out |= sub
        return out
    if op in (sc.LITERAL, sc.CATEGORY):
        return {f'{op}:{av}'}
    return None


def containment_rules(eng: Engine, ck: Check, rule: str):
    """'is inside' between shared directories is decided on path components (shared by C07: items are indexed under the innermost
    directory, and C08: the share mode that gates a file is the one of the directory it is filed under)."""
    # ---- R-C07-CONTAIN: path containment is by path components
    for qn in ('SharedDirectory.is_parent_of', 'SharedDirectory.is_child_of', 'SharedDirectory.get_items_for_directory'):
        f = eng.func(SMODEL, qn)
        ck.visited(f)
        sw = [x for x in calls_in(f.node) if call_name(x) in ('startswith', 'endswith', 'find', 'index') or
              (isinstance(x, ast.Call) and False)]
        ins = [n for n in walk_with_lambdas(f.node) if isinstance(n, ast.Compare) and isinstance(n.ops[0], (ast.In, ast.NotIn)) and 'path' in unparse(n)]
        cp = [x for x in calls_in(f.node) if unparse(x.func) in ('os.path.commonpath',) or call_name(x) in ('is_relative_to',)]
        # os.path.commonprefix is element-wise on whatever sequences it is given: on STRINGS it is a character prefix, on LISTS OF COMPONENTS
        # (each path split at the separator) it is the component-wise common part
        comp_prefix = {}
        for x in calls_in(f.node):
            if unparse(x.func) != 'os.path.commonprefix' or not x.args:
                continue
            paths = component_lists(f, x.args[0])
            if paths is None:
                sw.append(x)
            else:
                comp_prefix[x] = paths
                cp.append(x)
        ck.ob(rule, f, f.node, f'{qn}: "is inside" is decided on path components (os.path.commonpath / is_relative_to), never on a string prefix', bool(cp) and not sw and not ins,
              f'string test `{unparse((sw + ins)[0])}`: /music/Rock is a string prefix of "/music/Rock Classics" without containing it' if (sw or ins) else 'no component-wise test found',
              construct=f'{qn} component-wise')
        for x in cp:
            cmpn = parent(x)
            elts = None
            if unparse(x.func) == 'os.path.commonpath':
                a0 = expand_aliases(f, x.args[0])
                elts = [unparse(e) for e in a0.elts] if isinstance(a0, ast.List) else []
            elif x in comp_prefix:
                elts = comp_prefix[x]
                st_ = enclosing_stmt(x)
                if isinstance(st_, ast.Assign) and len(st_.targets) == 1 and isinstance(st_.targets[0], ast.Name) and st_.value is x:
                    # the common part is named; the decision is the comparison that reads it
                    users = [n for n in walk_local(f.node) if isinstance(n, ast.Compare) and mentions_name(n.left, st_.targets[0].id)]
                    cmpn = users[0] if len(users) == 1 else None
            ok = isinstance(cmpn, ast.Compare) and len(cmpn.ops) == 1 and isinstance(cmpn.ops[0], ast.Eq)
            if ok and elts is not None:
                def full(src: str) -> str:
                    return unparse(expand_aliases(f, ast.parse(src, mode='eval').body))
                elts = [full(e_) for e_ in elts]
                other = full(unparse(cmpn.comparators[0]))
                prm = [p_ for p_ in f.params if p_ != 'self'][0]
                arg_side = [e_ for e_ in elts if e_ != 'self.absolute_path']
                if qn.endswith('is_parent_of'):
                    base = 'self.absolute_path'
                elif qn.endswith('is_child_of'):
                    # the would-be ancestor is the argument's path (a local derived from the parameter)
                    base = arg_side[0] if len(arg_side) == 1 and mentions_name(ast.parse(arg_side[0], mode='eval').body, prm) else '?'
                else:
                    base = f'{prm}.absolute_path'
                ok = other in elts and other == base and len(elts) == 2
            ck.ob(rule, f, x, f'{qn}: commonpath([a, b]) == the would-be ancestor', ok, unparse(cmpn)[:90] if cmpn is not None else 'no single comparison reads the common part',
                  construct=f'{qn} compares with ancestor')


def component_lists(f: FuncInfo, arg: ast.AST) -> Optional[list[str]]:
    """When `arg` is a list of paths each SPLIT INTO COMPONENTS (`[p.split(os.sep) .. for p in [a, b]]`, `[a.split(os.sep), b.split(os.sep)]`;
    a root marker may be put in front, empty / '.' components may be filtered): the source text of the paths.  None when the elements are
    (or may be) plain strings."""
    def is_list(e: ast.AST) -> bool:
        if isinstance(e, (ast.List, ast.ListComp, ast.Tuple)):
            return True
        if isinstance(e, ast.BinOp) and isinstance(e.op, ast.Add):
            return is_list(e.left) and is_list(e.right)
        if isinstance(e, ast.Call) and call_name(e) in ('split', 'list', 'tuple', 'sorted'):
            return True
        return isinstance(e, ast.Attribute) and e.attr == 'parts'

    def split_subjects(e: ast.AST) -> set[str]:
        out = set()
        for n in ast.walk(e):
            if isinstance(n, ast.Call) and call_name(n) == 'split' and isinstance(n.func, ast.Attribute) and len(n.args) == 1 and \
                    unparse(n.args[0]) in ('os.sep', 'os.path.sep', "'/'"):
                out.add(unparse(n.func.value))
            if isinstance(n, ast.Attribute) and n.attr == 'parts':
                out.add(unparse(n.value))
        return out
    a = expand_aliases(f, arg)
    if isinstance(a, ast.ListComp) and len(a.generators) == 1 and isinstance(a.generators[0].target, ast.Name) and not a.generators[0].ifs:
        g = a.generators[0]
        src = expand_aliases(f, g.iter)
        if is_list(a.elt) and split_subjects(a.elt) == {g.target.id} and isinstance(src, (ast.List, ast.Tuple)):
            return [unparse(e) for e in src.elts]
        return None
    if isinstance(a, (ast.List, ast.Tuple)) and a.elts and all(is_list(e) and len(split_subjects(e)) == 1 for e in a.elts):
        return [next(iter(split_subjects(e))) for e in a.elts]
    return None


def innermost_rules(eng: Engine, ck: Check, rule: str):
    """Files of an added / removed nested shared directory come from / go to the INNERMOST enclosing shared directory (shared by C07: each file
    indexed under exactly one directory, and C08: the share mode that gates a file is the one of the directory it is filed under)."""
    repo = eng.repo
    # every consumer of _get_parent_directories takes the INNERMOST parent, consistently with the sort order of that function
    gpd0 = eng.func(SHARES, 'SharesManager._get_parent_directories')
    srt = [x for x in calls_in(gpd0.node) if call_name(x) in ('sorted', 'sort')]
    if len(srt) != 1 or kw(srt[0], 'key') is None or 'len(' not in unparse(kw(srt[0], 'key')):
        raise AnalysisError(f'{rule}: ordering idiom of _get_parent_directories not recognised')
    # nesting depth is measured on the NORMALISED path (absolute_path): the configured string (`directory`) may be relative, carry `./` or `..`
    ck.ob(rule, gpd0, srt[0], '_get_parent_directories orders the parents by the length of their absolute_path (all parents are prefixes of one normalised '
          'path: longer = deeper)', 'absolute_path' in unparse(kw(srt[0], 'key')) and not any(isinstance(x_, ast.Attribute) and x_.attr in ('directory', 'alias') for x_ in ast.walk(kw(srt[0], 'key'))),
          f'key `{unparse(kw(srt[0], "key"))}`: the length of an un-normalised string says nothing about nesting; with an outer directory configured by a longer string the '
          'OUTERMOST parent is taken for the closest one, files of a friends-only directory are re-filed under a public one', construct='parents ordered by absolute path length')
    descending = const(kw(srt[0], 'reverse')) is True
    neg = isinstance(kw(srt[0], 'key'), ast.Lambda) and isinstance(kw(srt[0], 'key').body, ast.UnaryOp)
    descending = descending != neg
    want_idx = 0 if descending else -1
    n_cons = 0
    for f in repo.all_funcs():
        if f.module.rel != SHARES:
            continue
        for n in walk_local(f.node):
            if isinstance(n, ast.Assign) and isinstance(n.value, ast.Call) and call_name(n.value) == '_get_parent_directories' and isinstance(n.targets[0], ast.Name):
                lst = n.targets[0].id
                for sub in [x for x in walk_local(f.node) if isinstance(x, ast.Subscript) and isinstance(x.value, ast.Name) and x.value.id == lst]:
                    n_cons += 1
                    idx = const(sub.slice)
                    ck.ob(rule, f, sub, f'{f.name}: items move to / come from the INNERMOST enclosing shared directory '
                          f'(_get_parent_directories sorts {"longest path first" if descending else "longest path last"}, so the innermost parent is [{want_idx}])',
                          idx == want_idx, f'`{unparse(sub)}` picks the outermost parent when more than two shared directories are nested',
                          construct=f'{f.qualname} innermost parent')
    ck.floor(rule, n_cons, 2)


def run(eng: Engine, ck: Check):
    repo = eng.repo
    q = eng.func(SHARES, 'SharesManager.query')
    ck.visited(q)

    # ---- R-C07-PREFILTER-SOUND
    folds = [n for n in walk_local(q.node) if isinstance(n, ast.AugAssign) and isinstance(n.op, ast.BitAnd)]
    ck.floor('R-C07-PREFILTER', len(folds), 1)
    conj_lists: set[str] = set()
    for fd in folds:
        lp = next((a for a in ancestors(fd) if isinstance(a, ast.For)), None)
        if lp is None or not isinstance(lp.iter, ast.Name):
            raise AnalysisError('R-C07-PREFILTER: conjunctive fold idiom not recognised')
        conj_lists.add(lp.iter.id)
        ok_val = isinstance(lp.target, ast.Name) and lp.target.id in unparse(fd.value)
        ck.ob('R-C07-PREFILTER', q, fd, f'the candidate set is the intersection over every element of `{lp.iter.id}`', ok_val, unparse(fd), construct='prefilter fold')
    # lists that feed a conjunctive list (L2.extend(L1), L2 = [f(x) for x in L1]) are conjunctive too
    changed = True
    while changed:
        changed = False
        for n in walk_local(q.node):
            if isinstance(n, ast.Assign) and isinstance(n.targets[0], ast.Name) and n.targets[0].id in conj_lists and isinstance(n.value, ast.ListComp):
                for g in n.value.generators:
                    if isinstance(g.iter, ast.Name) and g.iter.id not in conj_lists:
                        conj_lists.add(g.iter.id)
                        changed = True
            if isinstance(n, ast.Call) and call_name(n) == 'extend' and isinstance(n.func.value, ast.Name) and n.func.value.id in conj_lists and n.args and \
                    isinstance(n.args[0], ast.Name) and n.args[0].id not in conj_lists:
                conj_lists.add(n.args[0].id)
                changed = True
    ck.note(f'conjunctive lists of query(): {sorted(conj_lists)}')
    # ALTERNATIVES = a filtered selection of index terms (term-map keys); they may only be consumed by a union
    alts = {k: v for k, v in single_assignments(q).items()
            if isinstance(v, (ast.ListComp, ast.SetComp, ast.GeneratorExp)) and any(g.ifs for g in v.generators) and any('_term_map' in unparse(g.iter) for g in v.generators)}
    ck.floor('R-C07-PREFILTER.alternatives', len(alts), 1)
    for a_name, a_def in alts.items():
        bad = []
        for x in calls_in(q.node):
            if isinstance(x.func, ast.Attribute) and isinstance(x.func.value, ast.Name) and x.func.value.id in conj_lists and x.func.attr in ('extend', 'append') and \
                    x.args and mentions_name(x.args[0], a_name):
                a0 = x.args[0]
                # ONE element that is the union of all alternatives is the necessary condition: `append(set().union(*alts))`,
                # `append({i for s in alts for i in s})`
                is_union = x.func.attr == 'append' and (
                    (isinstance(a0, ast.Call) and call_name(a0) == 'union' and any(isinstance(y, ast.Starred) and unparse(y.value) == a_name for y in a0.args)) or
                    (isinstance(a0, ast.SetComp) and len(a0.generators) == 2 and unparse(a0.generators[0].iter) == a_name and
                     unparse(a0.generators[1].iter) == unparse(a0.generators[0].target) and unparse(a0.elt) == unparse(a0.generators[1].target) and
                     not a0.generators[0].ifs and not a0.generators[1].ifs))
                if not is_union:
                    bad.append(x)
        for n in walk_local(q.node):
            if isinstance(n, ast.AugAssign) and isinstance(n.op, ast.Add) and isinstance(n.target, ast.Name) and n.target.id in conj_lists and mentions_name(n.value, a_name):
                bad.append(n)
            if isinstance(n, ast.For) and isinstance(n.iter, ast.Name) and n.iter.id == a_name:
                body_calls = [x for st in n.body for x in calls_in(st) if isinstance(x.func, ast.Attribute) and isinstance(x.func.value, ast.Name)
                              and x.func.value.id in conj_lists and x.func.attr in ('append', 'extend')]
                bad += body_calls
                unions = [m for st in n.body for m in ast.walk(st) if isinstance(m, ast.AugAssign) and isinstance(m.op, ast.BitOr)]
                if not unions and not body_calls:
                    bad.append(n)
        ck.ob('R-C07-PREFILTER', q, a_def, 'only NECESSARY terms enter the conjunctive prefilter (it may over-approximate the regex stage, never drop a match): '
              f'the ALTERNATIVE index terms `{a_name}` (all terms ending in the wildcard suffix) are unioned before they are intersected', not bad,
              f'`{unparse(bad[0])[:80]}` puts every alternative into the intersection: a file matches `*ong` through ONE term ending in "ong" but is kept only '
              'if it contains ALL such terms' if bad else '', construct=f'prefilter alternatives {a_name}')
    # early "no result" returns must be about necessary terms only
    for r in [n for n in walk_local(q.node) if isinstance(n, ast.Return) and unparse(n.value) == '([], [])']:
        gs = [(unparse(e), pol) for e, pol, _ in eng.guards_at(q, r)]
        ck.note(f'early empty return at line {r.lineno} under {gs[-1:]}')

    # ---- R-C07-SPLIT-AGREES
    mod = repo.module(SHARES)
    qpat = const_value(repo, mod, '_QUERY_CLEAN_PATTERN')
    if qpat is None or not isinstance(qpat, ast.Call):
        raise AnalysisError('_QUERY_CLEAN_PATTERN vanished')
    split_cls = class_items(regex_tree(const(qpat.args[0]))[0])
    want = class_items(regex_tree(r'[\W_]')[0])
    ck.ob('R-C07-SPLIT', SHARES, f'src/aioslsk/{SHARES}', 'index/query terms are split on [\\W_] (everything that is not a letter or digit)', split_cls == want,
          f'pattern {const(qpat.args[0])!r}', construct='split class')
    splits = [(f, x) for f in repo.all_funcs() if f.module.rel == SHARES for x in calls_in(f.node) if unparse(x.func) == 're.split']
    ck.floor('R-C07-SPLIT', len(splits), 3)
    for f, x in splits:
        ck.ob('R-C07-SPLIT', f, x, f'{f.name}: splits with the shared _QUERY_CLEAN_PATTERN (paths and queries are tokenised identically)',
              unparse(x.args[0]) == '_QUERY_CLEAN_PATTERN', unparse(x), construct=f'{f.name} split pattern')
    aim = eng.func(SHARES, 'SharesManager._add_item_to_term_map')
    ok = any(call_name(x) == 'lower' for x in calls_in(aim.node)) and 'item.subdir' in unparse(aim.node) and 'item.filename' in unparse(aim.node)
    ck.ob('R-C07-SPLIT', aim, aim.node, 'index terms are lower-cased and cover sub-directory and file name', ok, '', construct='index terms lowered')
    idx_writes = [n for n in walk_local(aim.node) if (isinstance(n, ast.Call) and call_name(n) in ('add', 'setdefault') and mentions_attr(n.func, '_term_map')) or
                  (isinstance(n, ast.Assign) and any(isinstance(t_, ast.Subscript) and mentions_attr(t_.value, '_term_map') for t_ in n.targets))]
    ck.floor('R-C07-SPLIT.index_writes', len(idx_writes), 1)
    ok = all(elements_nonempty(eng, aim, n) for n in idx_writes)
    ck.ob('R-C07-SPLIT', aim, aim.node, 'empty terms are not indexed', ok, '', construct='index skips empty')
    sq = eng.func(QMODEL, 'SearchQuery.parse')
    ck.visited(sq)
    ok = any(call_name(x) == 'lower' for x in calls_in(sq.node))
    # the loop variable over the whitespace-split query (name discovered, not assumed)
    tloops = [n for n in walk_local(sq.node) if isinstance(n, ast.For) and isinstance(n.target, ast.Name) and
              any(call_name(x_) == 'split' for x_ in ast.walk(expand_aliases(sq, n.iter)))]
    TERM = tloops[0].target.id if len(tloops) == 1 else 'term'
    adds = {unparse(x.func.value).split('.')[-1]: unparse(expand_aliases(sq, x.args[0])) for x in calls_on(sq.node, 'add')}
    ck.ob('R-C07-SPLIT', sq, sq.node, 'query terms are lower-cased; `*` and `-` prefixes are stripped', ok and adds == {
        'wildcard_terms': f'{TERM}.lower()[1:]', 'exclude_terms': f'{TERM}.lower()[1:]', 'include_terms': f'{TERM}.lower()'}, f'{adds}', construct='query terms lowered')
    rows = {}
    for x in calls_on(sq.node, 'add'):
        rows[unparse(x.func.value).split('.')[-1]] = {(prefix_test(e)[1], pol) for e, pol, _ in expanded_guards(eng, sq, x) if prefix_test(e) and prefix_test(e)[0] == TERM}
    ok = rows.get('wildcard_terms') == {('*', True)} and rows.get('exclude_terms') == {('*', False), ('-', True)} and \
        rows.get('include_terms') == {('*', False), ('-', False)}
    ck.ob('R-C07-SPLIT', sq, sq.node, 'a term is wildcard iff it starts with *, exclude iff it starts with -, include otherwise', ok, f'{rows}', construct='term classification')
    ctp = eng.func(SUTILS, 'create_term_pattern')
    ck.visited(ctp)
    comps = [x for x in calls_in(ctp.node) if unparse(x.func) == 're.compile']
    import re._constants as sc  # type: ignore
    # one case per (compile call, template): `re.compile(T1..) if wildcard else re.compile(T2..)` as two statements under if / else, or one
    # call whose template is chosen by a conditional expression (`template = T1 if wildcard else T2`)
    pcases = []
    for x in comps:
        fmt0 = x.args[0]
        if isinstance(fmt0, ast.Call) and call_name(fmt0) == 'format' and isinstance(fmt0.func, ast.Attribute):
            for conds_, leaf_ in ifexp_cases(expand_aliases(ctp, fmt0.func.value, 1)):
                pcases.append((x, leaf_, conds_))
        else:
            pcases.append((x, None, []))
    ck.floor('R-C07-SPLIT.patterns', len(pcases), 2)
    for case_i, (x, leaf_, conds_) in enumerate(pcases):
        fl = kw(x, 'flags')
        ck.ob('R-C07-SPLIT', ctp, x, 'term patterns are case-insensitive', fl is not None and 'IGNORECASE' in unparse(fl), unparse(fl), construct=f'pattern flags {case_i}')
        fmt = x.args[0]
        tmpl = const(leaf_) if leaf_ is not None and isinstance(const(leaf_), str) else None
        esc = isinstance(fmt, ast.Call) and fmt.args and unparse(fmt.args[0]) == 're.escape(term)'
        ck.ob('R-C07-SPLIT', ctp, x, 'the term is embedded through re.escape (punctuation in a term is literal)', bool(esc), unparse(fmt)[:80], construct=f'pattern escape {case_i}')
        if tmpl is None:
            raise AnalysisError('create_term_pattern: template idiom not recognised')
        tree = regex_tree(tmpl.replace('{}', 'TERM'))
        items = list(tree)
        first, last = items[0], items[-1]
        # leading: (?:(?<=\W|_)|^)   trailing: (?=[\W_]|$)
        lead_ok = trail_ok = False
        br = first
        if first[0] is sc.SUBPATTERN and len(first[1][3]) == 1:
            br = first[1][3][0]
        if br[0] is sc.BRANCH:
            kinds = []
            for alt in br[1][1]:
                if len(alt) == 1 and alt[0][0] is sc.ASSERT and alt[0][1][0] == -1:
                    ci = set()
                    for sub in alt[0][1][1]:
                        ci |= class_items(sub) or set()
                    kinds.append(('behind', frozenset(ci)))
                elif len(alt) == 1 and alt[0][0] is sc.AT and alt[0][1] is sc.AT_BEGINNING:
                    kinds.append(('start', None))
                else:
                    kinds.append(('other', None))
            lead_ok = ('start', None) in kinds and ('behind', frozenset(want)) in kinds and len(kinds) == 2
        if last[0] is sc.ASSERT and last[1][0] == 1:
            inner = last[1][1]
            if len(inner) == 1 and inner[0][0] is sc.BRANCH:
                kinds = []
                for alt in inner[0][1][1]:
                    if len(alt) == 1 and alt[0][0] is sc.AT and alt[0][1] is sc.AT_END:
                        kinds.append(('end', None))
                    elif len(alt) == 1:
                        kinds.append(('ahead', frozenset(class_items(alt[0]) or set())))
                trail_ok = ('end', None) in kinds and ('ahead', frozenset(want)) in kinds and len(kinds) == 2
        ck.ob('R-C07-SPLIT', ctp, x, 'a term matches only at a word boundary: preceded by start or a [\\W_] char, followed by a [\\W_] char or end — the same class the index splits on',
              lead_ok and trail_ok, f'template {tmpl!r}: leading ok {lead_ok}, trailing ok {trail_ok}', construct=f'pattern boundaries {case_i}')
        gs = [(unparse(e), pol) for e, pol, _ in eng.guards_at(ctp, x)] + [(unparse(e_), p_) for e_, p_ in conds_]
        is_wild = ('wildcard', True) in gs
        mid = items[1:-1]
        has_prefix = any(it[0] is sc.MAX_REPEAT and it[1][0] == 0 for it in mid)
        ck.ob('R-C07-SPLIT', ctp, x, 'only the wildcard variant allows extra word characters before the term', has_prefix == is_wild, f'{gs} prefix allowed {has_prefix}',
              construct=f'pattern wildcard prefix {case_i}')

    # ---- R-C07-MATCHERS
    mi = eng.func(QMODEL, 'SearchQuery.matchers_iter')
    ck.visited(mi)
    table = []
    for lp in [n for n in walk_local(mi.node) if isinstance(n, ast.For)]:
        pc = [x for st in lp.body for x in calls_in(st) if call_name(x) == 'create_term_pattern']
        ys = [n for st in lp.body for n in ast.walk(st) if isinstance(n, ast.Yield)]
        neg = bool(ys) and isinstance(ys[0].value, ast.Lambda) and isinstance(ys[0].value.body, ast.UnaryOp) and isinstance(ys[0].value.body.op, ast.Not)
        table.append((unparse(lp.iter), const(kw(pc[0], 'wildcard')) if pc else None, neg, unparse(pc[0].args[0]) == unparse(lp.target) if pc else False))
    want_t = [('self.include_terms', False, False, True), ('self.wildcard_terms', True, False, True), ('self.exclude_terms', False, True, True)]
    ck.ob('R-C07-MATCHERS', mi, mi.node, 'one matcher per include term, per wildcard term (wildcard pattern) and per exclude term (negated)', sorted(table) == sorted(want_t),
          f'{table}', construct='matcher table')
    uses = [x for x in calls_in(q.node) if call_name(x) == 'matchers_iter']
    ck.floor('R-C07-MATCHERS', len(uses), 1)
    for x in uses:
        par = parent(x)
        materialised = isinstance(par, ast.Call) and call_name(par) in ('list', 'tuple', 'sorted', 'set')
        gen = next((a for a in ancestors(x) if isinstance(a, (ast.GeneratorExp, ast.ListComp))), None)
        lazy_all = gen is not None and isinstance(gen, ast.GeneratorExp) and isinstance(parent(gen), ast.Call) and call_name(parent(gen)) == 'all' and \
            isinstance(gen.elt, ast.Call) and isinstance(gen.elt.func, ast.Name) and gen.elt.func.id == gen.generators[0].target.id
        ck.ob('R-C07-MATCHERS', q, x, 'each matcher closure is evaluated before the generator advances (the closures capture the loop variable `pattern`; '
              'materialising the generator would apply the LAST pattern to all terms) and all of them must hold', lazy_all and not materialised,
              f'consumer `{unparse(parent(gen) if gen is not None else par)[:80]}`', construct='matchers consumed lazily by all()')
        if gen is not None and isinstance(gen.elt, ast.Call):
            ck.ob('R-C07-MATCHERS', q, x, 'matchers are applied to the item\'s query path', 'get_query_path()' in unparse(gen.elt.args[0]), unparse(gen.elt), construct='matcher input')
    caps = [n for n in walk_local(q.node) if isinstance(n, ast.If) and 'max_results' in unparse(n.test)]
    ok = False
    if len(caps) == 1:
        a = cmp_atom(caps[0].test)
        kept = unparse(a[1].args[0]) if a and isinstance(a[1], ast.Call) and call_name(a[1]) == 'len' and a[1].args else None
        adds_kept = any(call_name(x) == 'add' and unparse(x.func.value) == kept for x in calls_in(q.node))
        ok = bool(a) and a[0] == 'ge' and kept is not None and adds_kept and unparse(a[2]).endswith('_settings.searches.receive.max_results') and \
            isinstance(caps[0].body[0], ast.Break)
    ck.ob('R-C07-MATCHERS', q, q.node, 'the result is capped at max_results before it is split into visible and locked', ok, '', construct='cap')
    if caps:
        c = eng.cfg(q)
        split_nodes = [n for x in calls_on(q.node, 'is_item_locked') for n in c.nodes_for(x)]
        capn = c.nodes_for(caps[0].test)
        ck.ob('R-C07-MATCHERS', q, q.node, 'cap precedes the visible/locked split', bool(split_nodes) and all(capn[0].id < s.id for s in split_nodes), '', construct='cap before split')

    containment_rules(eng, ck, 'R-C07-CONTAIN')

    # ---- R-C07-INDEX
    sm = eng.cls('SharesManager', SHARES)
    grow = []
    for f in repo.all_funcs():
        if f.module.rel not in (SHARES, 'shares/cache.py'):
            continue
        for n in walk_local(f.node):
            if isinstance(n, ast.AugAssign) and isinstance(n.target, ast.Attribute) and n.target.attr == 'items' and isinstance(n.op, ast.BitOr):
                grow.append((f, n, unparse(n.target.value), n.value))
            if isinstance(n, ast.Assign) and any(isinstance(t, ast.Attribute) and t.attr == 'items' for t in n.targets):
                grow.append((f, n, unparse(n.targets[0].value), n.value))
            if isinstance(n, ast.Call) and isinstance(n.func, ast.Attribute) and n.func.attr in ('update', 'add') and isinstance(n.func.value, ast.Attribute) and n.func.value.attr == 'items':
                grow.append((f, n, unparse(n.func.value.value), n.args[0] if n.args else None))
    ck.floor('R-C07-INDEX', len(grow), 3)
    # a member of a SET must not change a field its hash is computed from while it sits in the set: `item.shared_directory = d` for the
    # items of `d.items` (the cache stores items without their directory) is followed by filing the items in a NEW set -- otherwise every
    # item stays under the hash of (None, ..) and `items -= ..` / `in` no longer find it
    hashed = {'shared_directory', 'subdir', 'filename', 'modified'}
    n_rehash = 0
    for f in repo.all_funcs():
        if f.module.rel not in (SHARES, 'shares/cache.py', SMODEL):
            continue
        for lp in [n for n in walk_local(f.node) if isinstance(n, ast.For) and isinstance(n.iter, ast.Attribute) and n.iter.attr == 'items' and isinstance(n.target, ast.Name)]:
            stores = [n for n in walk_local(lp) if isinstance(n, ast.Assign) and any(isinstance(t, ast.Attribute) and t.attr in hashed and unparse(t.value) == lp.target.id for t in n.targets)]
            if not stores:
                continue
            n_rehash += 1
            owner = unparse(lp.iter.value)
            cf_ = eng.cfg(f)
            rebinds = [n for n in walk_local(f.node) if isinstance(n, ast.Assign) and any(unparse(t) == f'{owner}.items' for t in n.targets) and not mentions_attr(n.value, 'items')]
            rn_ = [x for n in rebinds for x in cf_.nodes_for(n)]
            starts_ = [s_ for x in cf_.nodes_for(lp) for s_, lab in x.succ]
            # every normal path from the loop to the function's return passes a re-binding of the set
            pth = cf_.find_path(cf_.nodes_for(lp), lambda x: x.kind == 'exit_return', avoid=lambda x: x in rn_, edge_ok=lambda a, b, lab: lab not in ('exc', 'cancel'))
            ck.ob('R-C07-INDEX', f, stores[0], f'{f.name}: `{unparse(stores[0])[:50]}` changes a field the item\'s hash is computed from while the item sits in the set '
                  f'`{owner}.items`; the items are filed in a new set afterwards', bool(rebinds) and pth is None,
                  f'`{owner}.items` is not re-built: every item stays filed under its old hash; `parent.items -= children`, `item in items` and set reconciliation after '
                  'a scan silently miss it (the same file is indexed twice after a nested directory is added)', construct=f'{f.qualname} rehashes {owner}.items')
    ck.floor('R-C07-INDEX.rehash', n_rehash, 1)
    for f, n, owner, val in grow:
        ck.visited(f)
        # items whose back-pointer is provably `owner`: re-pointed in this function, or built by a helper that constructs SharedItem(owner, ..)
        src = unparse(val) if val is not None else ''
        names = names_in(val) if val is not None else set()
        repointed = False
        for m in walk_local(f.node):
            if isinstance(m, ast.Assign) and any(isinstance(t, ast.Attribute) and t.attr == 'shared_directory' for t in m.targets) and unparse(m.value) == owner:
                lp = next((a for a in ancestors(m) if isinstance(a, ast.For)), None)
                if lp is not None and (names & names_in(lp.iter) or unparse(lp.iter) in src or unparse(lp.iter).startswith(owner + '.items')):
                    repointed = True
                # building a fresh set item by item (cache read idiom)
                if lp is not None and isinstance(val, ast.Name):
                    if any(isinstance(x, ast.Call) and call_name(x) == 'add' and unparse(x.func.value) == val.id for st in lp.body for x in ast.walk(st)):
                        repointed = True
        constructed = False
        for x in (calls_in(val) if val is not None else []):
            for cal in eng.res.callees(x, f):
                for y in calls_in(cal.node):
                    if call_name(y) == 'SharedItem' and y.args and unparse(y.args[0]) in cal.params:
                        # the directory parameter of the helper must be bound to `owner` at this call
                        pidx = cal.params.index(unparse(y.args[0])) - (1 if cal.params and cal.params[0] == 'self' else 0)
                        if 0 <= pidx < len(x.args) and unparse(x.args[pidx]) == owner:
                            constructed = True
        if val is not None and isinstance(val, ast.Name):
            v = single_assignments(f).get(val.id)
            if v is not None:
                for x in calls_in(v):
                    if call_name(x) in ('_rehome_items', 'rehome_items') and len(x.args) >= 2 and unparse(x.args[1]) == owner:
                        constructed = True
                    for cal in eng.res.callees(x, f):
                        if any(call_name(y) == 'SharedItem' and y.args and unparse(y.args[0]) in cal.params for y in calls_in(cal.node)) and \
                                any(unparse(a) == owner for a in x.args):
                            constructed = True
        ck.ob('R-C07-INDEX', f, n, f'{f.name}: every item stored into `{owner}.items` has `{owner}` as its shared_directory '
              '(an item is indexed under exactly the directory whose share mode decides who may see it)', repointed or constructed,
              f'`{unparse(n)[:70]}` moves items whose back-pointer still names their previous directory: locks, remote paths and statistics are computed from the wrong directory',
              construct=f'{f.qualname}: {owner}.items grows')
    # after changing which directories are shared / moving items, the term map is rebuilt (cleanup only drops dead entries)
    for qn in ('SharesManager.add_shared_directory', 'SharesManager.remove_shared_directory', 'SharesManager.load_from_settings'):
        f = eng.func(SHARES, qn)
        moves = [g for g in grow if g[0] is f] or [x for x in calls_in(f.node) if call_name(x) == 'remove' and '_shared_directories' in unparse(x.func.value)] or \
            [st for ff, st, v in eng.stores_to_attr('_shared_directories', [f])]
        if not moves:
            continue
        c = eng.cfg(f)
        rb = [nn for x in calls_on(f.node, 'rebuild_term_map') for nn in c.nodes_for(x)]
        removes_dir = any(call_name(x) == 'remove' and '_shared_directories' in unparse(x.func.value) for x in calls_in(f.node)) or qn.endswith('load_from_settings')
        if not removes_dir:
            continue
        p = c.find_path([c.entry], lambda nn: nn.kind == 'exit_return', avoid=lambda nn: nn in rb, edge_ok=lambda a, b, lab: lab == 'next')
        # exits before anything was changed (argument errors) do not count: start from the mutation
        mut_nodes = [nn for x in calls_in(f.node) if call_name(x) == 'remove' and '_shared_directories' in unparse(x.func.value) for nn in c.nodes_for(x)] or \
            [nn for ff, st, v in eng.stores_to_attr('_shared_directories', [f]) for nn in c.nodes_for(st)]
        p = c.find_path([s for m in mut_nodes for s, lab in m.succ if lab == 'next'], lambda nn: nn.kind == 'exit_return', avoid=lambda nn: nn in rb,
                        edge_ok=lambda a, b, lab: lab == 'next')
        ck.ob('R-C07-INDEX', f, f.node, f'{f.name}: after a directory stops being shared the term map is rebuilt from the remaining directories '
              '(_cleanup_term_map only drops entries whose items were garbage collected)', p is None,
              'the term map keeps the items of the removed directory as long as anything references them (e.g. the returned directory object): '
              'query() still returns files that are no longer shared while get_stats() does not count them', construct=f'{f.qualname} rebuilds term map')
    # identity of index entries: the term map and query() hold items in (weak) SETS, so two items that denote different files must never
    # compare equal -- every attribute that get_absolute_path() reads takes part in __eq__ / __hash__
    si = eng.cls('SharedItem', 'shares/model.py')
    gap = si.methods.get('get_absolute_path')
    if gap is None:
        raise AnalysisError('anchor function vanished: SharedItem.get_absolute_path')
    ck.visited(gap)
    ident = {n.attr for n in walk_local(gap.node) if isinstance(n, ast.Attribute) and isinstance(n.value, ast.Name) and n.value.id == 'self'
             and not isinstance(parent(n), ast.Call) or (isinstance(n, ast.Attribute) and isinstance(n.value, ast.Name) and n.value.id == 'self'
                                                         and isinstance(parent(n), ast.Call) and parent(n).func is not n)}
    fields_cmp: dict[str, bool] = {}
    for st in si.node.body:
        if isinstance(st, ast.AnnAssign) and isinstance(st.target, ast.Name):
            cmp_ = True
            if isinstance(st.value, ast.Call) and call_name(st.value) == 'field':
                for k_ in ('compare', 'hash'):
                    if kw(st.value, k_) is not None and const(kw(st.value, k_)) is False:
                        cmp_ = False
            fields_cmp[st.target.id] = cmp_
    deco = [d for d in si.node.decorator_list if call_name(d) == 'dataclass' or unparse(d) == 'dataclass']
    generated = bool(deco) and not any(m_ in si.methods for m_ in ('__eq__', '__hash__')) and \
        not (isinstance(deco[0], ast.Call) and kw(deco[0], 'eq') is not None and const(kw(deco[0], 'eq')) is False)
    not_compared = sorted(a_ for a_ in ident if a_ in fields_cmp and not fields_cmp[a_])
    ck.ob('R-C07-INDEX', si, si.node, 'two SharedItems that denote different files are never equal: every field read by get_absolute_path() '
          f'({sorted(ident & set(fields_cmp))}) takes part in the generated __eq__/__hash__ (the index keeps items in sets)',
          generated and not not_compared and len(ident & set(fields_cmp)) >= 3,
          f'excluded from comparison: {not_compared}; dataclass-generated eq/hash: {generated} — equal relative paths (and mtimes) in two shared directories '
          'collapse into one index entry: one of the files is never returned while get_stats() still counts it', construct='SharedItem identity')
    gs_ = eng.func(SHARES, 'SharesManager.get_stats')
    iters = [(n.iter, n.target) for n in walk_local(gs_.node) if isinstance(n, (ast.For, ast.comprehension))]
    dir_vars = {unparse(t) for it, t in iters if unparse(it) == 'self._shared_directories'}
    item_iters = [(it, t) for it, t in iters if unparse(it) != 'self._shared_directories']
    facts = {
        'iterates the currently shared directories': bool(dir_vars),
        'every other iteration is over the items of such a directory': all(
            isinstance(it, ast.Attribute) and it.attr == 'items' and unparse(it.value) in dir_vars for it, t in item_iters),
        'files = sum of len(directory.items)': any(bd['d'] in dir_vars for _, bd in pfind(gs_.node, 'len($d.items)')),
        'folders = distinct item.subdir per directory': any(
            isinstance(c_, (ast.SetComp, ast.GeneratorExp, ast.ListComp)) and isinstance(c_.elt, ast.Attribute) and c_.elt.attr == 'subdir' and
            len(c_.generators) == 1 and unparse(c_.elt.value) == unparse(c_.generators[0].target) and not c_.generators[0].ifs and
            (isinstance(c_, ast.SetComp) or (isinstance(parent(c_), ast.Call) and call_name(parent(c_)) == 'set'))
            for c_ in walk_local(gs_.node)),
    }
    ok = all(facts.values())
    ck.ob('R-C07-INDEX', gs_, gs_.node, 'folder/file counts are computed from the items of the currently shared directories', ok, f'not established: {[k_ for k_, v_ in facts.items() if not v_]}', construct='stats from index')
    rb_ = eng.func(SHARES, 'SharesManager.rebuild_term_map')
    ok = any(isinstance(n, ast.Assign) and unparse(n.targets[0]) == 'self._term_map' and unparse(n.value) == '{}' for n in walk_local(rb_.node)) and \
        any(isinstance(n, ast.For) and 'shared_directories' in unparse(n.iter) for n in walk_local(rb_.node)) and bool(calls_on(rb_.node, '_build_term_map'))
    ck.ob('R-C07-INDEX', rb_, rb_.node, 'rebuild_term_map starts empty and indexes every shared directory', ok, '', construct='rebuild definition')
    # ---- R-C07-SCAN
    sf = eng.func(SHARES, 'SharesManager.scan_directory_files')
    ck.visited(sf)
    def related_comp(root: ast.AST, xp: str, rel_method: str) -> bool:
        """[d for d in self._shared_directories if d != X and d.<rel_method>(X)] somewhere in `root`"""
        for c_ in ast.walk(root):
            if isinstance(c_, (ast.ListComp, ast.GeneratorExp, ast.SetComp)) and len(c_.generators) == 1 and unparse(c_.generators[0].iter) == 'self._shared_directories' \
                    and isinstance(c_.generators[0].target, ast.Name) and unparse(c_.elt) == c_.generators[0].target.id:
                v_ = c_.generators[0].target.id
                atoms = [a_ for i_ in c_.generators[0].ifs for a_, pol_ in split_conj(i_, True) if pol_ is not None]
                pols = {unparse(a_): pol_ for i_ in c_.generators[0].ifs for a_, pol_ in split_conj(i_, True)}
                has_rel = any(pat.match(a_, pat.compile_pattern(f'{v_}.{rel_method}({xp})')[0]) is not None and pols[unparse(a_)] for a_ in atoms)
                not_self = any((pat.match(a_, pat.compile_pattern(f'{v_} == {xp}')[0]) is not None and not pols[unparse(a_)]) or
                               (pat.match(a_, pat.compile_pattern(f'{v_} != {xp}')[0]) is not None and pols[unparse(a_)]) or
                               (pat.match(a_, pat.compile_pattern(f'{v_} is {xp}')[0]) is not None and not pols[unparse(a_)]) for a_ in atoms)
                if has_rel and not_self and len(atoms) == 2:
                    return True
        return False

    def others_related(fn: FuncInfo, rel_method: str) -> bool:
        return related_comp(fn.node, [p_ for p_ in fn.params if p_ != 'self'][0], rel_method)
    # children = the other shared directories below the scanned one: computed in place or by a helper of the manager given the directory
    shm = eng.cls('SharesManager', SHARES)
    parts = [x for x in calls_in(sf.node) if call_name(x) == 'partial' and x.args and unparse(x.args[0]) == 'scan_directory']
    ok = len(parts) == 1 and len(parts[0].args) >= 2 and unparse(parts[0].args[1]) == sf.params[1] and kw(parts[0], 'children') is not None
    if ok:
        cv_ = expand_aliases(sf, kw(parts[0], 'children'))
        if isinstance(cv_, ast.Call) and isinstance(cv_.func, ast.Attribute) and unparse(cv_.func.value) == 'self' and cv_.func.attr in shm.methods:
            gcd = shm.methods[cv_.func.attr]
            ck.visited(gcd)
            ok = len(cv_.args) == 1 and unparse(cv_.args[0]) == sf.params[1] and others_related(gcd, 'is_child_of')
        else:
            ok = isinstance(cv_, (ast.ListComp, ast.GeneratorExp, ast.SetComp)) and related_comp(cv_, sf.params[1], 'is_child_of')
    ck.ob('R-C07-SCAN', sf, sf.node, 'a scan skips the sub-trees of nested shared directories (children = the other shared directories below the scanned one)', ok, '',
          construct='scan excludes children')
    augs = [(unparse(n.target), type(n.op).__name__, unparse(n.value)) for n in walk_local(sf.node) if isinstance(n, ast.AugAssign)]
    d = sf.params[1]
    # the local that receives the scan result (await loop.run_in_executor(.., partial(scan_directory, ..)))
    scanned = [unparse(n.targets[0] if isinstance(n, ast.Assign) else n.target) for n in walk_local(sf.node)
               if isinstance(n, (ast.Assign, ast.AnnAssign)) and n.value is not None and any(call_name(x) == 'run_in_executor' for x in ast.walk(n.value))]
    sc_ = scanned[0] if len(scanned) == 1 else '?'
    ok = augs[:1] == [(f'{d}.items', 'BitOr', sc_)] and len(augs) == 2 and augs[1][:2] == (f'{d}.items', 'Sub') and \
        augs[1][2] in (f'{d}.items ^ {sc_}', f'{sc_} ^ {d}.items', f'{d}.items - {sc_}')
    ck.ob('R-C07-SCAN', sf, sf.node, 'reconciliation: items |= scanned; items -= items ^ scanned (new files appear, vanished and changed files go)', ok, f'{augs}', construct='scan reconciliation')
    sd = eng.func(SHARES, 'scan_directory')
    sdp, chp = sd.params[0], sd.params[1]
    facts = {}
    walk = [n for n in walk_local(sd.node) if isinstance(n, ast.For) and pat.match(n.iter, pat.compile_pattern(f'os.walk({sdp}.absolute_path)')[0]) is not None
            and isinstance(n.target, ast.Tuple) and len(n.target.elts) == 3]
    facts['walks the absolute path of the scanned directory'] = len(walk) == 1
    if walk:
        cur = unparse(walk[0].target.elts[0])
        files = unparse(walk[0].target.elts[2])
        # every item is built only for a directory that is below none of the child shares (a `continue`, or the body under the negation)
        built = [x for x in calls_in(walk[0]) if call_name(x) == 'SharedItem']
        skipped_ok = bool(built)
        for x in built:
            hit = False
            for e_, pol_, _ in expanded_guards(eng, sd, x):
                m_ = pat.match(e_, pat.compile_pattern(f'any($c.is_parent_of($a) for $c in {chp})')[0])
                if m_ is not None and not pol_ and cur in m_['a'] and 'abspath' in m_['a']:
                    hit = True
            skipped_ok = skipped_ok and hit
        facts['a directory below one of the child shares is skipped (absolute path compared with is_parent_of)'] = skipped_ok
        rel = [bd for _, bd in pfind(walk[0], f'$s = os.path.relpath({cur}, {sdp}.absolute_path)')]
        facts['the sub-directory is the path relative to the scanned directory'] = len(rel) == 1
        items = [x for x in calls_in(walk[0]) if call_name(x) == 'SharedItem']
        fl = [n for n in walk_local(walk[0]) if isinstance(n, ast.For) and unparse(n.iter) == files and isinstance(n.target, ast.Name)]
        facts['one item per file, owned by the scanned directory, with that sub-directory and the file name'] = len(items) == 1 and len(fl) == 1 and len(rel) == 1 and \
            len(items[0].args) >= 3 and unparse(items[0].args[0]) == sdp and unparse(items[0].args[1]) == rel[0]['s'] and unparse(items[0].args[2]) == fl[0].target.id
    bad_ = [k_ for k_, v_ in facts.items() if not v_]
    ck.ob('R-C07-SCAN', sd, sd.node, 'scan_directory skips directories under a child share and builds items that belong to the scanned directory', not bad_,
          f'not established: {bad_}', construct='scan_directory')
    # a file that cannot be stat'ed (deleted between listing and stat, dangling link) is skipped; it does not end the scan: the whole
    # result would be thrown away by scan_directory_files' catch-all, leaving new files unindexed and vanished files indexed
    stats = [x for x in calls_in(sd.node) if call_name(x) in ('getmtime', 'getsize', 'getatime', 'getctime', 'stat', 'lstat') and unparse(x.func).startswith('os.')]
    ck.floor('R-C07-SCAN.stat_sites', len(stats), 1)
    OSERR = {'OSError', 'EnvironmentError', 'IOError', 'Exception', 'BaseException'}
    for x in stats:
        caught, why = False, 'not inside a try'
        for t, part in eng.enclosing_trys(sd, x):
            if part != 'body':
                continue
            for h in t.handlers:
                hn = handler_type_names(h)
                builtin = [n_ for n_ in hn if n_.split('.')[-1] in OSERR and n_.split('.')[0] not in sd.module.imports]
                if not hn or builtin:
                    caught = not any(isinstance(n_, ast.Raise) for n_ in walk_local(h))
                    why = 'the handler re-raises' if not caught else ''
                    break
                shadow = [n_ for n_ in hn if n_ in sd.module.imports]
                why = f'handlers {hn} do not cover OSError' + (f' ({shadow[0]} is {sd.module.imports[shadow[0]]}, not the builtin)' if shadow else '')
            if caught:
                break
        ck.ob('R-C07-SCAN', sd, x, f'a file whose `{unparse(x.func)}` fails (vanished since the listing, dangling link) is skipped: OSError is caught at the file, the scan goes on',
              caught, why + ': the error leaves scan_directory, scan_directory_files discards the whole scan result', construct=f'scan survives {call_name(x)} failure')
    innermost_rules(eng, ck, 'R-C07-INNERMOST')
    gpd = eng.func(SHARES, 'SharesManager._get_parent_directories')
    ok = others_related(gpd, 'is_parent_of')
    ck.ob('R-C07-SCAN', gpd, gpd.node, 'parent directories = other shared directories above this one, innermost last', ok, '', construct='parent directories')
