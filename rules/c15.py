"""C15 — user tracking mirrors the set of reasons."""
from __future__ import annotations
from .common import *

UTM = 'UserTrackingManager'


def is_zero_flag(e: ast.AST) -> bool:
    """`TrackingFlag(0)`, `0`, or a module-level constant bound to one of them."""
    if unparse(e) in ('TrackingFlag(0)', '0'):
        return True
    if isinstance(e, ast.Name):
        d = resolve_named_constant(e)
        return d is not None and unparse(d) in ('TrackingFlag(0)', '0')
    return False


def flag_zero_test(e: ast.AST, name: str) -> Optional[bool]:
    """For `X == TrackingFlag(0)` style tests on the expression text `name`: return True if the (positive) atom means "X is empty"."""
    a = cmp_atom(e)
    if a and a[0] == 'eq':
        if (unparse(a[1]) == name and is_zero_flag(a[2])) or (unparse(a[2]) == name and is_zero_flag(a[1])):
            return True
    return None


def run(eng: Engine, ck: Check):
    repo = eng.repo
    tt = eng.func(USERM, f'{UTM}._tracking_task')
    rt = eng.func(USERM, f'{UTM}._request_tracking')
    ru = eng.repo.find_func(USERM, f'{UTM}._request_untracking')      # may be written in place in the worker
    ck.visited(tt)

    from . import defs as _defs_emit
    _defs_emit.event_bus_emit_contains(eng, ck, 'R-C15-NOLOSS', 'the per-user worker awaits emit() when it reports a state; an escaping listener failure kills the worker and every reason it holds')
    # ---- R-C15-OWNERS
    n_add = n_rem = 0
    in_place_untrack: list = []
    for f in repo.all_funcs():
        for c in calls_in(f.node):
            if call_name(c) == 'Request' and unparse(c.func) in ('AddUser.Request', 'RemoveUser.Request'):
                which = unparse(c.func)
                owner = rt if which == 'AddUser.Request' else (ru or tt)
                n_add += which == 'AddUser.Request'
                n_rem += which == 'RemoveUser.Request'
                ck.ob('R-C15-OWNERS', f, c, f'{which} is built only in {owner.name}', f is owner, f'built in {f.qualname}', construct=f'{f.key} builds {which}')
                if f is tt and which == 'RemoveUser.Request':
                    in_place_untrack.append(c)
                    ok = bool(c.args) and unparse(expand_aliases(tt, c.args[0])) == f'{[p_ for p_ in tt.params if p_ != "self"][0]}.user.name'
                    ck.ob('R-C15-OWNERS', tt, c, 'the RemoveUser request names the tracked user', ok, unparse(c), construct='in-place untrack user')
    ck.floor('R-C15-OWNERS.add', n_add, 1)
    ck.floor('R-C15-OWNERS.remove', n_rem, 1)
    for owner in [o_ for o_ in (rt, ru) if o_ is not None]:
        for caller, call, how in eng.res.callers_of(owner):
            if how == 'call':
                ck.ob('R-C15-OWNERS', caller, call, f'{owner.name} is called only by the per-user worker', caller is tt, caller.qualname,
                      construct=f'{caller.qualname} calls {owner.name}')
        s = [c for c in calls_in(owner.node) if call_name(c) == 'Request' and unparse(c.func) in ('AddUser.Request', 'RemoveUser.Request')]
        ok = len(s) == 1 and unparse(expand_aliases(owner, s[0].args[0])) == 'tracked_user.user.name'
        ck.ob('R-C15-OWNERS', owner, owner.node, f'{owner.name} names the tracked user', ok, '', construct=f'{owner.name} user')

    # ---- the two operations a request can carry: set union and set difference on the reason set
    tu_cls = eng.cls('TrackedUser', USERM)
    for mname, forms, what in (('add_flag', ['self.flags |= $f', 'self.flags = self.flags | $f'], 'set union (idempotent)'),
                               ('remove_flag', ['self.flags &= ~$f', 'self.flags = self.flags & ~$f'], 'set difference (idempotent: removing a reason that is not held changes nothing)')):
        m_ = tu_cls.methods.get(mname)
        if m_ is None:
            raise AnalysisError(f'anchor function vanished: TrackedUser.{mname}')
        ck.visited(m_)
        fp = [p_ for p_ in m_.params if p_ != 'self'][0]
        body = [st for st in m_.node.body if not (isinstance(st, ast.Expr) and isinstance(st.value, ast.Constant))]
        ok = len(body) == 1 and any(pat.match(body[0], pat.compile_pattern(f_.replace('$f', fp))[0]) is not None for f_ in forms)
        ck.ob('R-C15-EDGES', m_, m_.node, f'TrackedUser.{mname} is {what}: the worker derives "empty -> non-empty" and "non-empty -> empty" from the flags '
              'before and after applying it', ok, f'body `{"; ".join(unparse(b_) for b_ in body)}`'
              + (' — xor toggles: untracking a reason that is not held ADDS it (spurious AddUser, missing RemoveUser)' if mname == 'remove_flag' else ''),
              construct=f'TrackedUser.{mname} semantics')

    from . import defs
    defs.network_send_helpers(eng, ck, 'R-C15-OWNERS')
    defs.cancel_task_definition(eng, ck, 'R-C15-EDGES')
    # ---- R-C15-EDGES
    # names the worker uses (discovered, not assumed): the tracked-user parameter, the request taken from its queue, the snapshot
    # of the flags, the "this is a retry" local
    TU = [p_ for p_ in tt.params if p_ != 'self'][0]
    rq = pfind(tt.node, f'$r = await {TU}.queue.get()')
    if len(rq) != 1:
        raise AnalysisError('R-C15-EDGES: the worker no longer takes its requests with `x = await <tracked user>.queue.get()`: idiom not recognised')
    REQ = rq[0][1]['r']
    pv = pfind(tt.node, f'$p = {TU}.flags')
    PREV = pv[0][1]['p'] if len(pv) == 1 else 'previous_flags'
    FLAGS = f'{TU}.flags'
    sa0 = single_assignments(tt)
    RETRY = next((k_ for k_, v_ in sa0.items() if v_ is not None and flag_zero_test(v_, f'{REQ}.flag')), None)
    unt = (calls_on(tt.node, ru.name) if ru is not None else []) + in_place_untrack
    trk = calls_on(tt.node, '_request_tracking')
    ck.floor('R-C15-EDGES', min(len(unt), len(trk)), 1)
    for c in unt:
        gs = eng.guards_at(tt, c)
        empty_now = any(pol and flag_zero_test(e, FLAGS) for e, pol, _ in gs)
        nonempty_before = any((not pol) and flag_zero_test(e, PREV) for e, pol, _ in gs)
        extra = [unparse(e) for e, pol, _ in gs if not (flag_zero_test(e, FLAGS) or flag_zero_test(e, PREV) or const(e) is True)]
        ck.ob('R-C15-EDGES', tt, c, 'RemoveUser is sent exactly when the reason set goes from non-empty to empty '
              '(flags == 0 and previous_flags != 0, nothing else)', empty_now and nonempty_before and not extra,
              f'guards {[ (unparse(e), p) for e, p, _ in gs]}', construct='untrack edge')
    for c in trk:
        gs = eng.guards_at(tt, c)
        nonempty_now = any((not pol) and flag_zero_test(e, FLAGS) for e, pol, _ in gs)
        disj = [e for e, pol, _ in gs if pol and isinstance(e, ast.BoolOp) and isinstance(e.op, ast.Or)]
        edge = any(len(d.values) == 2 and any(flag_zero_test(v, PREV) for v in d.values) and any(RETRY is not None and unparse(v) == RETRY for v in d.values)
                   for d in disj)
        extra = [unparse(e) for e, pol, _ in gs if not (flag_zero_test(e, FLAGS) or e in disj or const(e) is True)]
        ck.ob('R-C15-EDGES', tt, c, 'AddUser is sent exactly when the reason set goes from empty to non-empty, or on a retry while a reason remains',
              nonempty_now and edge and not extra, f'guards {[(unparse(e), p) for e, p, _ in gs]}', construct='track edge')
    sa = single_assignments(tt)
    c = eng.cfg(tt)
    pf = [n for n in walk_local(tt.node) if isinstance(n, ast.Assign) and unparse(n.targets[0]) == PREV]
    op = [x for x in calls_in(tt.node) if unparse(x.func) == f'{REQ}.operation']
    ok = len(pf) == 1 and len(op) == 1 and unparse(pf[0].value) == FLAGS and unparse(op[0].args[0]) == f'{REQ}.flag'
    if ok:
        pn, on = c.nodes_for(pf[0])[0], c.nodes_for(op[0])[0]
        ok = pn in c.dominators()[on] and c.suspension_between(pn, on) is None
    ck.ob('R-C15-EDGES', tt, tt.node, 'previous_flags is read immediately before the operation is applied (no suspension in between)', ok, '',
          construct='previous flags snapshot')
    retry_like = [k_ for k_ in sa if 'retry' in k_.lower()]
    ck.ob('R-C15-EDGES', tt, tt.node, 'a retry is the request carrying the empty flag', RETRY is not None,
          f'no local is defined as `{REQ}.flag == TrackingFlag(0)`; retry-like locals: ' + str({k_: unparse(sa[k_]) for k_ in retry_like}), construct='is_retry definition')
    rr = eng.func(USERM, f'{UTM}._request_retry')
    reqs = [x for x in calls_in(rr.node) if call_name(x) == 'TrackingRequest']
    ok = len(reqs) == 1 and is_zero_flag(reqs[0].args[1]) and unparse(reqs[0].args[0]) == f'{rr.params[1]}.add_flag' and \
        bool(calls_on(rr.node, 'put_nowait')) and any(call_name(x) == 'sleep' and unparse(x.args[0]) == rr.params[2] for x in calls_in(rr.node))
    ck.ob('R-C15-EDGES', rr, rr.node, 'the retry timer sleeps the given delay, then enqueues an add of the empty flag', ok, '', construct='retry request')
    # cancel of the retry timer whenever the set becomes empty
    canc = [x for x in calls_in(tt.node) if call_name(x) == 'cancel_task' and 'retry_task' in unparse(x)]
    ck.floor('R-C15-EDGES.cancel', len(canc), 1)
    for x in canc:
        gs = eng.guards_at(tt, x)
        only_empty = len(gs) >= 1 and all(flag_zero_test(e, FLAGS) and pol or const(e) is True for e, pol, _ in gs)
        ck.ob('R-C15-EDGES', tt, x, 'the pending retry is cancelled whenever the reason set becomes empty (under no further condition)', only_empty,
              f'guards {[(unparse(e), p) for e, p, _ in gs]}: a retry that survives an untrack fires AddUser for an abandoned attempt',
              construct='retry cancelled on empty')
    # outcome table of _request_tracking
    ck.visited(rt)
    rows = []
    for r in [n for n in walk_local(rt.node) if isinstance(n, ast.Return)]:
        v = r.value
        first = unparse(v.elts[0]) if isinstance(v, ast.Tuple) else unparse(v)
        hs = [handler_type_names(h) for h in eng.handler_context(rt, r)]
        gs = [('<response>.exists' if isinstance(e, ast.Attribute) and e.attr == 'exists' else unparse(e), pol) for e, pol, _ in eng.guards_at(rt, r)]
        rows.append((first, hs, gs))
    ok_rows = {
        'send failure': any(f == 'RETRY_TIMEOUT_NET_ERROR' and h and 'Exception' in h[0] for f, h, g in rows),
        'timeout': any(f == 'RETRY_TIMEOUT_NET_ERROR' and h and 'TimeoutError' in h[0] for f, h, g in rows),
        'unknown user': any(f == 'RETRY_TIMEOUT_NON_EXISTING_USER' and ('<response>.exists', False) in g for f, h, g in rows),
        'confirmed': any(f == 'None' and not h and ('<response>.exists', True) in g for f, h, g in rows),
    }
    for k, v in ok_rows.items():
        ck.ob('R-C15-EDGES', rt, rt.node, f'_request_tracking outcome "{k}" yields the documented retry delay (None only when the server confirmed the user)',
              v, f'rows {rows}', construct=f'outcome {k}')
    nones = [r for r in rows if r[0] == 'None']
    ck.ob('R-C15-EDGES', rt, rt.node, 'no other path reports success', len(nones) == 1, f'{nones}', construct='single success row')
    sts = calls_on(tt.node, '_set_tracking_state')
    rq_ = [n for n in walk_local(tt.node) if isinstance(n, ast.Assign) and isinstance(n.targets[0], ast.Tuple) and
           any(call_name(y) == '_request_tracking' for y in ast.walk(n.value))]
    RTO = unparse(rq_[0].targets[0].elts[0]) if len(rq_) == 1 else 'retry_timeout'       # the local that receives the retry delay of the attempt
    for x in sts:
        st = enum_member(x.args[1]) if len(x.args) > 1 else None
        gs = eng.guards_at(tt, x)
        if st == 'TRACKED':
            ok = any((not pol) and unparse(e) == RTO for e, pol, _ in gs)
            ck.ob('R-C15-EDGES', tt, x, 'state TRACKED is reported only when the attempt succeeded (no retry delay returned)', ok, f'{[(unparse(e), p) for e, p, _ in gs]}',
                  construct='TRACKED iff confirmed')
        if st == 'RETRY_PENDING':
            ok = any(pol and unparse(e) == RTO for e, pol, _ in gs) and unparse(kw(x, 'retry_timeout')) == RTO
            ck.ob('R-C15-EDGES', tt, x, 'a failed attempt reports RETRY_PENDING and arms the retry with the delay of that outcome', ok, '', construct='RETRY_PENDING with delay')
        if st == 'UNTRACKED':
            ok = any((not pol) and flag_zero_test(e, PREV) for e, pol, _ in gs)
            ck.ob('R-C15-EDGES', tt, x, 'UNTRACKED is reported together with the RemoveUser', ok, '', construct='UNTRACKED with untrack')
    sst = eng.func(USERM, f'{UTM}._set_tracking_state')
    ct = [x for x in calls_in(sst.node) if call_name(x) == 'create_task' and '_request_retry' in unparse(x)]
    ok = len(ct) == 1 and any(pol and enum_members_in(e) == {'RETRY_PENDING'} for e, pol, _ in eng.guards_at(sst, ct[0])) and \
        isinstance(enclosing_stmt(ct[0]), ast.Assign) and 'retry_task' in unparse(enclosing_stmt(ct[0]).targets[0])
    ck.ob('R-C15-EDGES', sst, sst.node, 'the retry timer is armed only for RETRY_PENDING and its handle is kept in retry_task', ok, '', construct='retry armed')

    # ---- R-C15-NOLOSS
    rets = [n for n in walk_local(tt.node) if isinstance(n, ast.Return)]
    ck.floor('R-C15-NOLOSS', len(rets), 1)
    gto = eng.func(USERM, f'{UTM}._get_tracked_user_object')
    utu = eng.func(USERM, f'{UTM}.untrack_user')
    cb = eng.func(USERM, f'{UTM}._on_tracking_task_done')

    def tests_done(fn: FuncInfo) -> bool:
        return any(call_name(x) == 'done' and 'task' in unparse(x.func.value) for x in calls_in(fn.node))
    lookups_check_liveness = tests_done(gto) and tests_done(utu)
    for r in rets:
        gs = eng.guards_at(tt, r)
        emp = [a for e, pol, a in gs if pol and isinstance(e, ast.Call) and call_name(e) == 'empty' and 'queue' in unparse(e.func.value)]
        zero = any(pol and flag_zero_test(e, FLAGS) for e, pol, _ in gs)
        ck.ob('R-C15-NOLOSS', tt, r, 'the worker exits only when no reason remains and its queue is empty', bool(emp) and zero,
              f'{[(unparse(e), p) for e, p, _ in gs]}', construct='worker exit condition')
        rn = c.nodes_for(r)[0]
        s = c.suspension_between(emp[0], rn) if emp else None
        ck.ob('R-C15-NOLOSS', tt, r, 'no suspension between the `queue.empty()` test and the exit (a request enqueued in between would sit on a dead worker)',
              bool(emp) and s is None, f'suspension at line {s.lineno}' if s else '', construct='exit decision atomic')
        # registry entry removed together with the exit decision, or lookups test liveness
        sync_removed = False
        if emp:
            between = c.reach_from([emp[0]], avoid=lambda n: n is rn)
            for n in between:
                if n.ast is not None and n.kind == 'stmt' and any(call_name(x) in ('pop',) and '_tracked_users' in unparse(x.func.value) for x in calls_in(n.ast)) \
                        and rn in c.reach_from([n]):
                    sync_removed = True
                if n.ast is not None and isinstance(n.ast, ast.Delete) and '_tracked_users' in unparse(n.ast):
                    sync_removed = True
        ck.ob('R-C15-NOLOSS', tt, r, 'a lookup hit in the tracked-user table implies a live worker: the entry is removed in the same step as the exit decision, '
              'or every lookup (_get_tracked_user_object, untrack_user) tests task.done()', sync_removed or lookups_check_liveness,
              'the entry is removed only by the done-callback, which runs one loop iteration after the worker returned: a track_user() call in that '
              'window enqueues on the finished worker and is lost (no AddUser is ever sent)', construct='no lost request window')
    pops = [x for x in calls_in(cb.node) if call_name(x) == 'pop' and '_tracked_users' in unparse(x.func.value)]
    ck.floor('R-C15-NOLOSS.callback', len(pops), 1)
    if sync_removed_any(rets, lookups_check_liveness, locals()):
        for x in pops:
            gs = eng.guards_at(cb, x)
            ident = any(pol and (cmp_atom(e) or ('',))[0] == 'is' and '_tracked_users' in unparse(e) and 'tracked_user' in unparse(e) for e, pol, _ in gs)
            ck.ob('R-C15-NOLOSS', cb, x, 'the done-callback removes the table entry only if it still is this worker\'s entry '
                  '(a successor created meanwhile must survive)', ident, 'unconditional pop by name', construct='callback identity check')
    for x in pops:
        in_finally = any(isinstance(a, ast.Try) and any(x in ast.walk(s) for s in a.finalbody) for a in ancestors(x))
        ck.ob('R-C15-RESET', cb, x, 'the entry is dropped on every outcome of the worker (finally)', in_finally, '', construct='callback drops entry always')

    # ---- R-C15-RESET
    st = eng.func(USERM, f'{UTM}.stop')
    cancels = {unparse(x.func.value).split('.')[-1] for x in calls_on(st.node, 'cancel')}
    loops = [n for n in walk_local(st.node) if isinstance(n, ast.For) and '_tracked_users' in unparse(n.iter)]
    if not ({'task', 'retry_task'} <= cancels and len(loops) == 1):
        # the same as a pipeline: the tasks of every entry are collected first (flattened pairs, empty slots dropped) and cancelled in one loop
        def slots(e: ast.AST, depth=0):
            """attribute names whose values make up the elements of `e`, when `e` ranges over every entry of the table; else None"""
            if depth > 6:
                return None
            if isinstance(e, ast.Name):
                e2 = expand_aliases(st, e, 1)
                return None if isinstance(e2, ast.Name) else slots(e2, depth + 1)
            if isinstance(e, ast.Call) and unparse(e.func) in ('chain.from_iterable', 'itertools.chain.from_iterable', 'list', 'tuple') and len(e.args) == 1 and not e.keywords:
                return slots(e.args[0], depth + 1)
            if isinstance(e, (ast.ListComp, ast.GeneratorExp)) and len(e.generators) == 1 and isinstance(e.generators[0].target, ast.Name):
                g_ = e.generators[0]
                t_ = g_.target.id
                if isinstance(e.elt, ast.Name) and e.elt.id == t_ and all(isinstance(i_, ast.Name) and i_.id == t_ for i_ in g_.ifs):
                    return slots(g_.iter, depth + 1)        # keeps every non-empty element
                if isinstance(e.elt, ast.Tuple) and not g_.ifs and '_tracked_users' in unparse(g_.iter) and \
                        all(isinstance(x_, ast.Attribute) and isinstance(x_.value, ast.Name) and x_.value.id == t_ for x_ in e.elt.elts):
                    return {x_.attr for x_ in e.elt.elts}
            return None
        for x in calls_on(st.node, 'cancel'):
            if isinstance(x.func.value, ast.Name) and not eng.guards_at(st, x):
                lp = next((a_ for a_ in ancestors(x) if isinstance(a_, ast.For) and isinstance(a_.target, ast.Name) and a_.target.id == x.func.value.id), None)
                got = slots(lp.iter) if lp is not None else None
                if got:
                    cancels |= got
                    loops = loops or [lp]
    ck.ob('R-C15-RESET', st, st.node, 'stop() cancels the worker and the retry timer of every tracked user', {'task', 'retry_task'} <= cancels and len(loops) == 1,
          f'cancels {sorted(cancels)}', construct='stop cancels both')
    osc = eng.func(USERM, f'{UTM}._on_state_changed')
    calls = calls_on(osc.node, 'stop')
    ok = bool(calls) and all(any(pol and enum_members_in(e) == {'CLOSED'} for e, pol, _ in eng.guards_at(osc, x)) for x in calls) and \
        any((not pol) and call_name(e) == 'isinstance' and 'ServerConnection' in unparse(e) for e, pol, _ in eng.guards_at(osc, calls[0])) or \
        any(pol and call_name(e) == 'isinstance' and 'ServerConnection' in unparse(e) for e, pol, _ in eng.guards_at(osc, calls[0]))
    ck.ob('R-C15-RESET', osc, osc.node, 'all tracking is dropped when the server connection reports CLOSED', bool(ok), '', construct='reset on server CLOSED')
    regs = [x for x in calls_on(eng.func(USERM, f'{UTM}.register_listeners').node, 'register')
            if unparse(x.args[0]) == 'ConnectionStateChangedEvent' and unparse(x.args[1]) == 'self._on_state_changed']
    ck.ob('R-C15-RESET', osc, osc.node, 'the tracking manager listens for connection state changes', len(regs) == 1, '', construct='reset listener registered')
    from . import defs as _d15w
    _d15w.listener_never_awaits_deliverer(eng, ck, 'R-C15-RESET', 'dropping everything on CLOSED must complete whichever task reports the close, also a tracking worker whose own send failed')

    # ---- R-C15-TRANSFER
    mut = eng.func(TM, 'TransferManager.manage_user_tracking')
    ck.visited(mut)
    sa = single_assignments(mut)
    tr = calls_on(mut.node, 'track_user')
    un = calls_on(mut.node, 'untrack_user')
    ck.floor('R-C15-TRANSFER', min(len(tr), len(un)), 1)
    for x in tr:
        lp = next(a for a in ancestors(x) if isinstance(a, ast.For))
        ok = 'get_unfinished_transfers' in unparse(expand_aliases(mut, lp.iter)) and enum_member(x.args[1]) == 'TRANSFER' and unparse(x.args[0]) == lp.target.id
        ck.ob('R-C15-TRANSFER', mut, x, 'users with unfinished transfers are tracked with reason TRANSFER', ok, unparse(x), construct='transfer track')
        # .. EVERY such user, on EVERY cycle: the tracking manager forgets all reasons when the server connection closes (R-C15-RESET) and
        # nothing but this loop puts the TRANSFER reason back after the next login.  A domain narrowed by what the transfer manager
        # remembers having asked before (`unfinished - self._already_tracked`) survives the disconnect and skips exactly those users.
        it_x = expand_aliases(mut, lp.iter)
        narrowed = [n_ for n_ in ast.walk(it_x) if (isinstance(n_, ast.BinOp) and isinstance(n_.op, (ast.Sub, ast.BitAnd, ast.BitXor))) or
                    (isinstance(n_, ast.Call) and call_name(n_) in ('difference', 'intersection', 'symmetric_difference', 'filter')) or
                    (isinstance(n_, ast.comprehension) and n_.ifs)]
        own_guards = [unparse(e_) for e_, _, a_ in eng.guards_at(mut, x) if any(a_.ast is y or any(a_.ast is z for z in ast.walk(y)) for y in lp.body)]
        ck.ob('R-C15-TRANSFER', mut, x, 'the TRANSFER reason is requested again on every cycle for every user with an unfinished transfer (it is what restores tracking after '
              'a server disconnect dropped it)', not narrowed and not own_guards,
              f'the loop runs over `{unparse(lp.iter)}`' + (f' = `{unparse(it_x)[:90]}`' if unparse(it_x) != unparse(lp.iter) else '') +
              (f' under {own_guards}' if own_guards else '') + ': users left out keep an empty reason set after a reconnect, no AddUser is sent, their status is never updated',
              construct='transfer track every cycle')
    for x in un:
        lp = next(a for a in ancestors(x) if isinstance(a, ast.For))
        it = expand_aliases(mut, lp.iter)
        ok = isinstance(lp.iter, ast.BinOp) and isinstance(lp.iter.op, ast.Sub) and 'finished' in unparse(lp.iter.left) and 'unfinished' in unparse(lp.iter.right) \
            and enum_member(x.args[1]) == 'TRANSFER' and 'get_finished_transfers' in unparse(it) and 'get_unfinished_transfers' in unparse(it)
        ck.ob('R-C15-TRANSFER', mut, x, 'users with only finished transfers lose the TRANSFER reason', ok, unparse(lp.iter), construct='transfer untrack')
    # public API only enqueues
    for q in ('track_user', 'untrack_user'):
        f = eng.func(USERM, f'{UTM}.{q}')
        puts = calls_on(f.node, 'put_nowait')
        ck.ob('R-C15-OWNERS', f, f.node, f'{q} enqueues a flag operation for the worker and sends nothing itself', len(puts) == 1 and
              not [x for x in calls_in(f.node) if call_name(x) in ('send_server_messages', 'send_message')], '', construct=f'{q} enqueues')
    from . import defs as _d15
    _d15.enum_members_distinct(eng, ck, 'R-C15-EDGES', [('TrackingFlag', 'user/model.py'), ('TrackingState', 'user/model.py')], 'the reason set is a set of DIFFERENT reasons: dropping one must not drop another')


def sync_removed_any(rets, lookups, loc) -> bool:
    """The identity check in the callback only matters once entries can be re-created
    while an old worker's callback is still pending, i.e. once the window is closed
    by one of the two accepted mechanisms."""
    return bool(loc.get('sync_removed')) or lookups
