"""C02 — hostile bytes never kill or desynchronise a reader (exception containment, framing order)."""
from __future__ import annotations
import re
from .common import *

PRIM = 'protocol/primitives.py'
MSGS = 'protocol/messages.py'


def catches_all(h: ast.ExceptHandler) -> bool:
    n = handler_type_names(h)
    return not n or 'Exception' in n or 'BaseException' in n


def run(eng: Engine, ck: Check):
    repo = eng.repo
    esc = eng.escape()

    # ---- R-C02-ESCAPE (1): every parser exception is wrapped
    dec = eng.func(CONN, 'DataConnection.decode_message_data')
    ck.visited(dec)
    parse_calls = calls_on(dec.node, 'deserialize_message')
    ck.floor('R-C02-ESCAPE.decode', len(parse_calls), 1)
    for x in parse_calls:
        t = None
        for tt, part in eng.enclosing_trys(dec, x):
            if part == 'body':
                t = tt
                break
        ok = t is not None and any(catches_all(h) for h in t.handlers)
        narrow = [handler_type_names(h) for h in t.handlers] if t is not None else []
        ck.ob('R-C02-ESCAPE', dec, x, 'whatever the parser raises (struct.error, ValueError, UnicodeDecodeError, zlib.error, UnknownMessageError, ...) is caught '
              'by `except Exception` around deserialize_message', ok,
              f'handlers {narrow}: an exception class outside this list escapes decode_message_data and kills the reader task', construct='decode wraps all parser errors')
        if t is not None:
            for h in t.handlers:
                if catches_all(h):
                    r = [n for n in walk_local(h) if isinstance(n, ast.Raise)]
                    ok = len(r) == 1 and r[0].exc is not None and 'MessageDeserializationError' in unparse(r[0].exc) and h.body and isinstance(h.body[-1], ast.Raise)
                    ck.ob('R-C02-ESCAPE', dec, h, 'the wrapped error is re-raised as MessageDeserializationError', ok, '', construct='decode raises MessageDeserializationError')
    ck.ob('R-C02-ESCAPE', dec, dec.node, 'decode_message_data lets only MessageDeserializationError escape', esc.of(dec) <= {'MessageDeserializationError'},
          f'escape set {sorted(esc.of(dec))}', construct='decode escape set')

    # ---- (2) _read: exhaustive handlers, each closes
    rd = eng.func(CONN, 'DataConnection._read')
    ck.visited(rd)
    trys = [n for n in walk_local(rd.node) if isinstance(n, ast.Try)]
    aw = [n for n in walk_local(rd.node) if isinstance(n, ast.Await) and unparse(n.value) == rd.params[1]]
    ck.floor('R-C02-ESCAPE.read', len(aw), 1)
    for a in aw:
        t = None
        for tt, part in eng.enclosing_trys(rd, a):
            if part == 'body':
                t = tt
                break
        ok = t is not None and any(catches_all(h) for h in t.handlers)
        ck.ob('R-C02-ESCAPE', rd, a, '_read: the awaited read is covered by a catch-all handler', ok, 'no `except Exception` around the read', construct='_read catch-all')
    ck.ob('R-C02-ESCAPE', rd, rd.node, '_read lets only ConnectionReadError escape (EOF is a None return)', esc.of(rd) <= {'ConnectionReadError'}, f'{sorted(esc.of(rd))}',
          construct='_read escape set')
    c = eng.cfg(rd)
    disc = lambda n: n.ast is not None and n.kind == 'stmt' and any(call_name(x) == 'disconnect' and receiver_str(x) == 'self' for x in calls_in(n.ast))
    for h in [n for n in c.nodes if n.kind == 'handler' and n in c.reachable_nodes()]:
        p = c.find_path([h], lambda n: n.kind in ('exit_return', 'exit_raise'), avoid=disc, edge_ok=lambda a, b, lab: lab == 'next' or isinstance(a.ast, ast.Raise))
        ck.ob('R-C02-ESCAPE', rd, h.ast, f'_read: handler `except {", ".join(handler_type_names(h.ast)) or "*"}` closes the connection before leaving '
              '(the reader never stops silently with the connection open)', p is None, f'leaves without disconnect via {c.describe_path(p, rd.where) if p else ""}',
              construct=f'_read except {",".join(handler_type_names(h.ast))} closes')
    # EOF on the normal path
    eofs = [n for n in walk_local(rd.node) if isinstance(n, ast.Return) and is_none_const(n.value)]
    for r in eofs:
        rn = c.nodes_for(r)
        ok = all(any(disc(d) for d in c.dominators()[n]) for n in rn)
        ck.ob('R-C02-ESCAPE', rd, r, '_read: a None (EOF) return is always preceded by a disconnect', ok, '', construct='_read EOF closes')

    # ---- (3) reader loop
    rl = eng.func(CONN, 'DataConnection._message_reader_loop')
    ck.visited(rl)
    rmo = eng.func(CONN, 'DataConnection.receive_message_object')
    need = set(esc.of(rmo))
    rcalls = calls_on(rl.node, 'receive_message_object')
    ck.floor('R-C02-ESCAPE.loop', len(rcalls), 1)
    for x in rcalls:
        t = None
        for tt, part in eng.enclosing_trys(rl, x):
            if part == 'body':
                t = tt
                break
        covered = set()
        if t is not None:
            for nme in need:
                if any(__import__('sa.cfg', fromlist=['x']).handler_catches(h, 'exc', None if nme == '*' else nme) == 'must' for h in t.handlers):
                    covered.add(nme)
        ck.ob('R-C02-ESCAPE', rl, x, f'reader loop: every exception that can leave receive_message_object {sorted(need)} has a handler', t is not None and covered == need,
              f'not handled: {sorted(need - covered)}: the reader task dies while the connection stays open and later frames are never delivered',
              construct='reader loop handles escape set')
        if t is not None:
            for h in t.handlers:
                names_ = handler_type_names(h)
                # after a READ error the connection is closed (checked on _read above: every handler disconnects before it raises
                # ConnectionReadError), so leaving the loop there is the same as going round once more; after a DECODE error it is not
                leaving = [n for n in walk_local(h) if isinstance(n, (ast.Return, ast.Break, ast.Raise))] if names_ != ['ConnectionReadError'] else \
                    [n for n in walk_local(h) if isinstance(n, ast.Raise)]
                ck.ob('R-C02-ESCAPE', rl, h, f'reader loop: `except {", ".join(names_)}` logs and continues with the next frame', not leaving,
                      f'handler leaves the loop at line {leaving[0].lineno}: one bad frame stops delivery of all later frames' if leaving else '',
                      construct=f'reader loop except {",".join(names_)} continues')
            # a frame that failed to read or decode delivers NOTHING: no path from an except arm reaches the dispatch without a new read
            crl = eng.cfg(rl)
            disp_calls = [y for y in calls_in(rl.node) if call_name(y) == 'on_message_received' or
                          (isinstance(y.func, ast.Attribute) and unparse(y.func.value) == 'self' and call_name(y) in
                           {m_.name for m_ in eng.cls('DataConnection', CONN).methods.values() if m_ is not rl and calls_on(m_.node, 'on_message_received')})]
            dn_ = [n for y in disp_calls for n in crl.nodes_for(y)]
            rn_ = [n for n in crl.nodes_for(x)]
            hs_ = [n for n in crl.nodes if n.kind == 'handler' and any(n.ast is h for h in t.handlers)]
            # a "this frame was received" flag: a local that is False at the top of every iteration, set True only right after the read (and
            # nothing that can raise follows it inside the try), is False on every path that starts in an except arm and meets no new read:
            # the branch of `if <flag>` / `if not <flag>` that needs it True is not on such a path
            flags_ = set()
            lp_ = next((a_ for a_ in ancestors(t) if isinstance(a_, (ast.While, ast.For, ast.AsyncFor))), None)
            if lp_ is not None:
                cand_ = {}
                for n_ in walk_local(rl.node):
                    if isinstance(n_, ast.Assign) and len(n_.targets) == 1 and isinstance(n_.targets[0], ast.Name):
                        cand_.setdefault(n_.targets[0].id, []).append(n_)
                    elif isinstance(n_, ast.Name) and isinstance(n_.ctx, (ast.Store, ast.Del)) and not any(isinstance(a_, ast.Assign) and n_ in a_.targets for a_ in walk_local(rl.node)):
                        cand_.setdefault(n_.id, []).append(None)
                for nm_, asg_ in cand_.items():
                    if None in asg_ or not all(isinstance(a_.value, ast.Constant) and isinstance(a_.value.value, bool) for a_ in asg_):
                        continue
                    falses = [a_ for a_ in asg_ if a_.value.value is False]
                    trues = [a_ for a_ in asg_ if a_.value.value is True]
                    # reset: a direct statement of the loop body in front of the try
                    reset_ok = any(a_ in lp_.body and t in lp_.body and lp_.body.index(a_) < lp_.body.index(t) for a_ in falses)
                    # set: a direct statement of the try body, after the statement holding the read, followed only by statements that cannot raise
                    def quiet(s_):
                        return not any(isinstance(y_, (ast.Call, ast.Await, ast.Subscript, ast.Attribute, ast.BinOp, ast.Raise, ast.Yield)) for y_ in ast.walk(s_))
                    read_i = next((i_ for i_, s_ in enumerate(t.body) if any(y_ is x for y_ in ast.walk(s_))), None)
                    set_ok = bool(trues) and read_i is not None and all(
                        a_ in t.body and t.body.index(a_) > read_i and all(quiet(s_) for s_ in t.body[t.body.index(a_) + 1:]) for a_ in trues)
                    if reset_ok and set_ok:
                        flags_.add(nm_)

            def needs_flag_true(n):
                if n.kind != 'assume' or n.ast is None:
                    return False
                e_ = n.ast
                if isinstance(e_, ast.Name) and e_.id in flags_:
                    return n.polarity is True
                if isinstance(e_, ast.UnaryOp) and isinstance(e_.op, ast.Not) and isinstance(e_.operand, ast.Name) and e_.operand.id in flags_:
                    return n.polarity is False
                return False
            p_ = crl.find_path(hs_, lambda n: n in dn_, avoid=lambda n: n in rn_ or needs_flag_true(n)) if hs_ and dn_ else None
            ck.ob('R-C02-ESCAPE', rl, t, 'a frame that could not be read or decoded delivers nothing: the dispatch is not reachable from an except arm of the read '
                  'without a new read in between', bool(dn_) and p_ is None,
                  f'the callback is reached from the handler via lines {crl.describe_path(p_, rl.where) if p_ else ""}: the previous message is delivered again '
                  '(or the name is unbound and the reader task dies)', construct='reader loop dispatch only after a successful read')
    ck.ob('R-C02-ESCAPE', rl, rl.node, 'no exception can leave the reader loop', not esc.of(rl), f'escape set {sorted(esc.of(rl))}', construct='reader loop escape set')
    loops = [n for n in walk_local(rl.node) if isinstance(n, ast.While)]
    ok = len(loops) == 1 and unparse(loops[0].test) in ('not self._is_closing',)
    ck.ob('R-C02-ESCAPE', rl, rl.node, 'the reader loop runs until the connection is closing', ok, '', construct='reader loop condition')
    for r in [n for n in walk_local(rl.node) if isinstance(n, (ast.Return, ast.Break))]:
        if any(isinstance(a_, ast.ExceptHandler) and handler_type_names(a_) == ['ConnectionReadError'] for a_ in ancestors(r)):
            continue        # after a read error the connection has been closed by _read (checked above)
        gs = [(unparse(e), pol) for e, pol, _ in eng.guards_at(rl, r)]
        # the local that receives the result of receive_message_object()
        got = {unparse(n_.targets[0]) for n_ in walk_local(rl.node) if isinstance(n_, ast.Assign) and any(call_name(x_) == 'receive_message_object' for x_ in ast.walk(n_.value))}
        ok = any((g_ in got and pol_ is False) for g_, pol_ in gs) or any(g_.startswith('not ') and g_[4:] in got and pol_ for g_, pol_ in gs) or \
            any((cmp_atom(e_) or ('',))[0] == 'is' and unparse(cmp_atom(e_)[1]) in got and is_none_const(cmp_atom(e_)[2]) and pol_ for e_, pol_, _ in eng.guards_at(rl, r))
        ck.ob('R-C02-ESCAPE', rl, r, 'the loop is left only on EOF (no message; the connection was closed by _read)', ok, f'{gs}', construct='reader loop exit on EOF only')
    # ---- (4) callback containment
    # every place where a DataConnection hands a decoded message to the network (a helper of the reader loop, or the loop itself)
    sites = [(m_, x) for m_ in eng.cls('DataConnection', CONN).methods.values() for x in calls_on(m_.node, 'on_message_received')]
    ck.floor('R-C02-ESCAPE.callback', len(sites), 1)
    for pc, x in sites:
        ck.visited(pc)
        t = protected_by_try_catching(eng, pc, x, 'Exception', 'BaseException')
        ok = t is not None and not any(isinstance(n, ast.Raise) for h in t.handlers for n in walk_local(h))
        ck.ob('R-C02-ESCAPE', pc, x, 'an error in a message handler is logged, not propagated into the reader loop', ok, '', construct='callback contained')
        ck.ob('R-C02-ESCAPE', pc, pc.node, f'nothing escapes {pc.name} (the function that performs the message callback)', not esc.of(pc), f'{sorted(esc.of(pc))}',
              construct='callback escape set')
    # ---- (5) first frame on an accepted connection
    opa = eng.func(NET, 'Network.on_peer_accepted')
    ck.visited(opa)
    for x in calls_on(opa.node, 'receive_message_object'):
        t = None
        for tt, part in eng.enclosing_trys(opa, x):
            if part == 'body':
                t = tt
                break
        cfgm = __import__('sa.cfg', fromlist=['x'])
        covered = {nme for nme in need if t is not None and any(cfgm.handler_catches(h, 'exc', None if nme == '*' else nme) == 'must' for h in t.handlers)}
        ck.ob('R-C02-ESCAPE', opa, x, f'accepted connection: every failure of the first frame {sorted(need)} is handled', covered == need,
              f'not handled: {sorted(need - covered)}', construct='accept handles escape set')
        if t is not None:
            # the arm that really gets a decode error: the FIRST one, in source order, that catches MessageDeserializationError under the
            # repository's exception hierarchy (an earlier arm for a base class shadows a later one for the class itself)
            first_ = next((h for h in t.handlers if cfgm.handler_catches(h, 'exc', 'MessageDeserializationError') == 'must'), None)
            ck.ob('R-C02-ESCAPE', opa, first_ or t, 'an undecodable first frame closes that connection (and only that one): the except arm that receives '
                  'MessageDeserializationError disconnects it', first_ is not None and len([y for y in calls_on(first_, 'disconnect') if receiver_str(y) == opa.params[1]]) == 1,
                  (f'the decode error is caught by `except {", ".join(handler_type_names(first_))}` (line {first_.lineno}), which does not disconnect: the accepted '
                   'connection stays open and registered, nobody reads it') if first_ is not None else 'no arm catches it', construct='bad first frame closes connection')
            for h in t.handlers:
                names = handler_type_names(h)
                others = [y for y in calls_in(h) if call_name(y) == 'disconnect' and receiver_str(y) != opa.params[1]]
                ck.ob('R-C02-ESCAPE', opa, h, 'the handler touches no other connection', not others, f'{[unparse(y) for y in others]}', construct=f'accept except {",".join(names)} local')

    # ---- R-C02-FRAME
    rm = eng.func(CONN, 'DataConnection._read_message')
    ck.visited(rm)
    reads = [x for x in calls_in(rm.node) if isinstance(x.func, ast.Attribute) and x.func.attr in ('readexactly', 'read', 'readline', 'readuntil') and
             'reader' in unparse(x.func.value)]
    ck.floor('R-C02-FRAME', len(reads), 2)
    ck.ob('R-C02-FRAME', rm, rm.node, 'a frame is read with exactly two reads: header, then body', len(reads) == 2, f'{len(reads)} reads', construct='two reads')
    for x in reads:
        ck.ob('R-C02-FRAME', rm, x, 'frames are read with readexactly (TCP segmentation cannot split or merge frames)', x.func.attr == 'readexactly',
              f'`{unparse(x)}`: read() returns whatever has arrived, the next header would start mid-frame', construct=f'readexactly #{reads.index(x)}')
    if len(reads) == 2:
        hdr, body = reads
        sz = expand_aliases(rm, hdr.args[0])
        ok = pat.match(sz, pat.compile_pattern('HEADER_SIZE_OBFUSCATED if self.obfuscated else HEADER_SIZE_UNOBFUSCATED')[0]) is not None or \
            pat.match(sz, pat.compile_pattern('HEADER_SIZE_UNOBFUSCATED if not self.obfuscated else HEADER_SIZE_OBFUSCATED')[0]) is not None
        ck.ob('R-C02-FRAME', rm, hdr, 'the header size is key + length for obfuscated connections, length otherwise', ok, unparse(sz), construct='header size')
        # body length derives from the decoded header only
        tgt = None
        for n in walk_local(rm.node):
            if isinstance(n, ast.Assign) and isinstance(n.targets[0], ast.Tuple) and isinstance(n.value, ast.Call) and unparse(n.value.func) == 'uint32.deserialize':
                tgt = n
        ok = tgt is not None and unparse(body.args[0]) == unparse(tgt.targets[0].elts[1]) and const(tgt.value.args[0]) == 0
        src = expand_aliases(rm, tgt.value.args[1], depth=1) if tgt is not None else None
        hdr_var = next((unparse(n.targets[0]) for n in walk_local(rm.node) if isinstance(n, ast.Assign) and n.value is parent(hdr)), None)
        ok = ok and src is not None and hdr_var is not None and mentions_name(src, hdr_var) and \
            (pat.match(src, pat.compile_pattern(f'obfuscation.decode({hdr_var}) if self.obfuscated else {hdr_var}')[0]) is not None or
             pat.match(src, pat.compile_pattern(f'{hdr_var} if not self.obfuscated else obfuscation.decode({hdr_var})')[0]) is not None)
        ck.ob('R-C02-FRAME', rm, body, 'the body length is the uint32 decoded (de-obfuscated if needed) from the header just read, and nothing else', ok,
              f'body size `{unparse(body.args[0])}` <- `{unparse(tgt) if tgt is not None else "?"}`', construct='body length provenance')
        rets = [n for n in walk_local(rm.node) if isinstance(n, ast.Return)]
        body_var = next((unparse(n.targets[0]) for n in walk_local(rm.node) if isinstance(n, ast.Assign) and n.value is parent(body)), None)
        ok = len(rets) == 1 and unparse(rets[0].value).replace(' ', '') == f'{hdr_var}+{body_var}'
        ck.ob('R-C02-FRAME', rm, rm.node, 'the whole frame (header + body) is returned', ok, '', construct='frame returned whole')
    parsers = [x for x in calls_in(rm.node) if call_name(x) in ('decode_message_data', 'deserialize_message', 'deserialize_request', 'deserialize_response')]
    ck.ob('R-C02-FRAME', rm, rm.node, 'no parsing happens between the two reads (a frame is consumed entirely before it is interpreted)', not parsers, '',
          construct='no parse while reading')
    ck.visited(rmo)
    c = eng.cfg(rmo)
    rcv = [n for x in calls_on(rmo.node, 'receive_message') for n in c.nodes_for(x)]
    dcd = [n for x in calls_on(rmo.node, 'decode_message_data') for n in c.nodes_for(x)]
    ok = bool(rcv) and bool(dcd) and all(rcv[0] in c.dominators()[n] for n in dcd)
    arg_ok = any(unparse(x.args[0]) == unparse(next(n.targets[0] for n in walk_local(rmo.node) if isinstance(n, ast.Assign) and 'receive_message' in unparse(n.value)))
                 for x in calls_on(rmo.node, 'decode_message_data'))
    ck.ob('R-C02-FRAME', rmo, rmo.node, 'decode is applied to the complete frame returned by receive_message', ok and arg_ok, '', construct='decode after full read')
    rcvm = eng.func(CONN, 'DataConnection.receive_message')
    ok = any(call_name(x) == '_read' and x.args and call_name(x.args[0]) == '_read_message' and unparse(kw(x, 'timeout')) == 'self.read_timeout' for x in calls_in(rcvm.node))
    ck.ob('R-C02-FRAME', rcvm, rcvm.node, 'receive_message = _read(_read_message(), timeout=read_timeout)', ok, '', construct='receive_message shape')

    logger_adapter_total(eng, ck)

    # ---- R-C02-PARSER-TOTAL
    n_loops = 0
    for f in repo.all_funcs():
        if f.module.rel not in (PRIM, MSGS, 'protocol/obfuscation.py'):
            continue
        if not (f.name.startswith('deserialize') or f.name in ('decode', '_field_needs_deserialization')):
            continue
        ck.visited(f)
        for n in walk_local(f.node):
            if isinstance(n, ast.While):
                ck.ob('R-C02-PARSER-TOTAL', f, n, 'parsers contain no while loops', False, unparse(n.test), construct=f'{f.qualname} while loop')
            if isinstance(n, ast.For):
                n_loops += 1
                it = unparse(n.iter)

                def bounded_iter(e: ast.AST, depth=0) -> bool:
                    """range(..), the field tuple, the subclass list, or a generator / comprehension / filter / enumerate .. over those"""
                    s_ = unparse(e)
                    if (isinstance(e, ast.Call) and call_name(e) == 'range') or s_.endswith('_CACHED_FIELDS') or s_.endswith('__subclasses__()') or \
                            (isinstance(e, ast.Name) and local_mirrors_attr(f, e.id, '_CACHED_FIELDS')):
                        return True
                    if isinstance(e, (ast.GeneratorExp, ast.ListComp, ast.SetComp)):
                        return all(bounded_iter(g_.iter, depth + 1) for g_ in e.generators)
                    if isinstance(e, ast.Call) and isinstance(e.func, ast.Name) and e.func.id in ('filter', 'map', 'enumerate', 'zip', 'reversed', 'sorted', 'list', 'tuple', 'iter') and e.args:
                        its = e.args[1:] if e.func.id in ('filter', 'map') else e.args
                        return bool(its) and all(bounded_iter(a_, depth + 1) for a_ in its)
                    return False
                bounded = bounded_iter(expand_aliases(f, n.iter))
                ck.ob('R-C02-PARSER-TOTAL', f, n, f'{f.qualname}: loop is bounded (range(count) / field tuple / subclass list)', bounded, f'iterates `{it}`',
                      construct=f'{f.qualname} loop over {alpha_key(n.iter)}')
                if isinstance(n.iter, ast.Call) and call_name(n.iter) == 'range' and f.module.rel == PRIM and f.name == 'deserialize':
                    consumes = any(call_name(x) == 'deserialize' or 'deserialize' in unparse(expand_aliases(f, x.func)) for st in n.body for x in calls_in(st))
                    ck.ob('R-C02-PARSER-TOTAL', f, n, f'{f.qualname}: every iteration parses an element (unpack_from raises at end of data, so a lying count cannot spin)',
                          consumes, 'loop body does not consume input', construct=f'{f.qualname} loop consumes')
    ck.floor('R-C02-PARSER-TOTAL', n_loops, 4)
    # .. which rests on every fixed-width reader RAISING when the data is short: struct's unpack_from / unpack do (struct.error),
    # `int.from_bytes(data[a:b])` and plain slicing do not (a short or empty slice is a value: 0, b'')
    n_leaf = 0
    for ci in repo.all_classes():
        if ci.module.rel != PRIM or 'deserialize' not in ci.methods:
            continue
        m = ci.methods['deserialize']
        composite = any(call_name(x) == 'deserialize' for x in calls_in(m.node))
        stub = all(isinstance(s_, ast.Expr) and isinstance(s_.value, ast.Constant) for s_ in m.node.body)
        if composite or stub:
            continue
        n_leaf += 1
        ck.visited(m)
        unp = [x for x in calls_in(m.node) if call_name(x) in ('unpack_from', 'unpack')]
        soft = [x for x in calls_in(m.node) if call_name(x) in ('from_bytes',)]
        c_ = eng.cfg(m)
        first = [n_ for x in unp for n_ in c_.nodes_for(x)]
        posp_, datap_ = [p_ for p_ in m.params if p_ not in ('cls', 'self')][:2]

        def bounds_checked(node) -> bool:
            """a read that does not raise is fine where the code has itself established that the bytes are there: under `<end> <= len(data)`
            (and `0 <= pos`: a negative offset makes a slice come up short as well)"""
            gs_ = [(e2, p2) for e_, pol_, _ in eng.guards_at(m, node) for e2, p2 in split_conj(expand_aliases(m, e_), pol_)]
            upper = any(p2 and (cmp_atom(e2) or ('',))[0] in ('le', 'lt') and unparse(cmp_atom(e2)[2]) == f'len({datap_})' and mentions_name(cmp_atom(e2)[1], posp_) for e2, p2 in gs_) or \
                any(p2 and (cmp_atom(e2) or ('',))[0] in ('ge', 'gt') and unparse(cmp_atom(e2)[1]) == f'len({datap_})' and mentions_name(cmp_atom(e2)[2], posp_) for e2, p2 in gs_)
            lower = any(p2 and (cmp_atom(e2) or ('',))[0] in ('le', 'lt') and const(cmp_atom(e2)[1]) == 0 and unparse(cmp_atom(e2)[2]) == posp_ for e2, p2 in gs_) or \
                any(p2 and (cmp_atom(e2) or ('',))[0] in ('ge', 'gt') and const(cmp_atom(e2)[2]) == 0 and unparse(cmp_atom(e2)[1]) == posp_ for e2, p2 in gs_)
            return upper and lower
        unchecked_soft = [x for x in soft if not bounds_checked(x)]
        soft = unchecked_soft
        # the unpack dominates every return: no path hands out a value that did not go through it (or through a bounds-checked read)
        ok = bool(first) and not soft and all(any(u in c_.dominators()[n_] for u in first) or bounds_checked(r)
                                              for r in walk_local(m.node) if isinstance(r, ast.Return) for n_ in c_.nodes_for(r))
        ck.ob('R-C02-PARSER-TOTAL', m, m.node, f'{ci.name}.deserialize raises when fewer bytes are left than it needs (struct unpack_from / unpack): a count or length that '
              'lies about the data ends the parse instead of yielding zeros', ok,
              f'reads with {[unparse(x.func) for x in soft] or "something other than struct unpack"}: past the end of the frame it returns a value, '
              '`for _ in range(count)` believes any count (4 billion iterations of the reader task for a 12-byte frame)', construct=f'{ci.name}.deserialize raises on short data')
    ck.floor('R-C02-PARSER-TOTAL.leaf_readers', n_leaf, 7)


def logger_adapter_total(eng: Engine, ck: Check, rule: str = 'R-C02-ESCAPE'):
    """R-C02-ESCAPE (logging): every `adapter.debug / warning / exception(.., extra=self.__dict__)` of the connection code runs
    ConnectionLoggerAdapter.process IN THE CALLER'S FRAME, outside the logging handlers' own error handling: what process() raises leaves
    the reader loop / on_peer_accepted / disconnect() like any other exception.  Its inputs are connection attributes, some of them
    peer-supplied (connection_type is the `typ` of the PeerInit message).  So process() only uses formatting that is total on any value:
    f-string fields without format spec, %s / %r / %a, str.join -- no %c / %d / %x .. (TypeError / ValueError on a string of the wrong
    shape), no format spec, no int() / indexing of the values."""
    ci = eng.repo.find_cls('ConnectionLoggerAdapter', 'log_utils.py')
    if ci is None or 'process' not in ci.methods:
        raise AnalysisError('anchor vanished: log_utils.py:ConnectionLoggerAdapter.process')
    m = ci.methods['process']
    ck.visited(m)
    bad = []
    for n in walk_local(m.node):
        if isinstance(n, ast.BinOp) and isinstance(n.op, ast.Mod) and isinstance(const(n.left), str):
            convs = re.findall(r'%(?:\([^)]*\))?[#0\- +]*(?:\*|\d+)?(?:\.(?:\*|\d+))?[hlL]?([a-zA-Z%])', const(n.left))
            partial_ = [c for c in convs if c not in ('s', 'r', 'a', '%')]
            if partial_:
                bad.append(f'`{unparse(n)[:60]}` uses %{partial_[0]}')
        if isinstance(n, ast.FormattedValue) and n.format_spec is not None:
            bad.append(f'format spec in `{unparse(n)[:40]}`')
        if isinstance(n, ast.Call) and ((isinstance(n.func, ast.Attribute) and n.func.attr == 'format') or (isinstance(n.func, ast.Name) and n.func.id in ('int', 'float', 'chr', 'ord', 'format'))):
            bad.append(f'`{unparse(n)[:50]}`')
        if isinstance(n, ast.Subscript) and not isinstance(const(n.slice), str) and not (isinstance(n.value, ast.Name) and n.value.id == 'kwargs'):
            bad.append(f'indexing `{unparse(n)[:40]}`')
    ck.ob(rule, m, m.node, 'ConnectionLoggerAdapter.process formats connection attributes with total operations only (it runs in the frame of every log call of the '
          'reader loop, the accept path and disconnect())', not bad,
          f'{bad[:2]}: raises for a value of the wrong shape (a PeerInit `typ` that is not one character); the exception is none of the read / decode errors the reader loop '
          'handles: the reader task ends, the connection stays open and unread', construct='logger adapter total')
