"""C19 — room and user views equal the fold of announcements."""
from __future__ import annotations
import json
import os
from .common import *

TABLE = os.path.join(os.path.dirname(os.path.dirname(__file__)), 'tables', 'room_effects.json')
ADD = {'add', 'add_user', 'append', 'update', 'setitem'}
REMOVE = {'discard', 'remove', 'remove_user', 'pop', 'delitem', 'difference_update'}
OPPOSITE = {'ADD': 'REMOVE', 'REMOVE': 'ADD'}


def on_message_handlers(cls: ClassInfo) -> dict[str, list[FuncInfo]]:
    out: dict[str, list[FuncInfo]] = {}
    for m in cls.methods.values():
        for d in m.decorators:
            if isinstance(d, ast.Call) and call_name(d) == 'on_message' and d.args:
                out.setdefault(unparse(d.args[0]), []).append(m)
    return out


def _expand_single(at: ast.AST, e: ast.AST, depth: int = 2) -> ast.AST:
    """Replace locals of the enclosing function that are assigned exactly once by their definition (used for loop iterables)."""
    fnode = next((a for a in ancestors(at) if isinstance(a, FUNC_NODES)), None)
    fi = getattr(fnode, '_info', None)
    if fi is None:
        return e
    sa = single_assignments(fi)
    cur = e
    for _ in range(depth):
        names = [n for n in ast.walk(cur) if isinstance(n, ast.Name) and n.id in sa and sa[n.id] is not None and isinstance(n.ctx, ast.Load)]
        if not names:
            break

        class T(ast.NodeTransformer):
            def visit_Name(self, n: ast.Name):
                if isinstance(n.ctx, ast.Load) and n.id in sa and sa[n.id] is not None:
                    return ast.parse(unparse(sa[n.id]), mode='eval').body
                return n
        cur = T().visit(ast.parse(unparse(cur), mode='eval').body)
    return cur


def loop_binders(node: ast.AST) -> dict[str, str]:
    """Canonical names for the loop variables visible at `node` (nearest enclosing loop wins): a variable is named after WHAT it iterates,
    not after its spelling -- `for idx, name in enumerate(message.users)` gives name -> elem(message.users), idx -> index(message.users)."""
    out: dict[str, str] = {}
    for a in ancestors(node):
        if not isinstance(a, (ast.For, ast.AsyncFor)):
            continue
        it = a.iter
        names: dict[str, str] = {}
        outer = loop_binders(a)        # the iterable is evaluated outside the loop it feeds
        it = _expand_single(a, it)
        src = unparse(canon(it, outer))
        if isinstance(a.target, ast.Name):
            names[a.target.id] = f'elem({src})'
        elif isinstance(a.target, ast.Tuple) and all(isinstance(x, ast.Name) for x in a.target.elts):
            els = [x.id for x in a.target.elts]
            if isinstance(it, ast.Call) and call_name(it) == 'enumerate' and it.args and len(els) == 2:
                inner = unparse(canon(it.args[0], outer))
                names[els[0]], names[els[1]] = f'index({inner})', f'elem({inner})'
            elif isinstance(it, ast.Call) and call_name(it) == 'items' and len(els) == 2 and isinstance(it.func, ast.Attribute):
                inner = unparse(canon(it.func.value, outer))
                names[els[0]], names[els[1]] = f'key({inner})', f'value({inner})'
            elif isinstance(it, ast.Call) and call_name(it) == 'zip' and len(it.args) == len(els):
                for nm_, arg_ in zip(els, it.args):
                    names[nm_] = f'elem({unparse(canon(arg_, outer))})'
            else:
                for i_, nm_ in enumerate(els):
                    names[nm_] = f'elem({src})[{i_}]'
        for k_, v_ in names.items():
            out.setdefault(k_, v_)
    return out


def canon(e: Optional[ast.AST], binders: Optional[dict] = None) -> Optional[ast.AST]:
    """Copy of expression `e` with loop variables replaced by their canonical names (see loop_binders)."""
    if e is None:
        return None
    b = loop_binders(e) if binders is None else binders
    if not b:
        return e

    class T(ast.NodeTransformer):
        def visit_Name(self, n: ast.Name):
            if n.id in b and isinstance(n.ctx, ast.Load):
                return ast.parse(b[n.id], mode='eval').body
            return n
    new = T().visit(ast.parse(unparse(e), mode='eval').body)
    return ast.fix_missing_locations(new)


def reaching_def(name: str, ctx: ast.AST) -> Optional[ast.Assign]:
    """Nearest assignment `name = ...` that precedes statement `ctx` in one of the statement lists enclosing it (innermost first).
    Good enough for the handlers of this repository: a local is (re)assigned at the top of the loop body that uses it."""
    cur = ctx
    while cur is not None and not isinstance(cur, FUNC_NODES):
        par = parent(cur)
        if par is None:
            break
        for fld in ('body', 'orelse', 'finalbody'):
            blk = getattr(par, fld, None)
            if isinstance(blk, list) and any(x is cur for x in blk):
                idx = next(i for i, x in enumerate(blk) if x is cur)
                for st in reversed(blk[:idx]):
                    if isinstance(st, ast.Assign) and len(st.targets) == 1 and isinstance(st.targets[0], ast.Name) and st.targets[0].id == name:
                        return st
        cur = par
    return None


def expand_c(fn: FuncInfo, e: ast.AST, depth: int = 3, ctx: Optional[ast.AST] = None) -> ast.AST:
    """expand_aliases with canonical loop variables: the expression and every substituted definition are canonicalised in THEIR OWN
    context (the definition `user = get_user_object(name)` sits inside the loop that binds `name`).  A local that is assigned more than
    once (e.g. `room = ...` at the top of several loops) is resolved to the assignment that reaches the use."""
    sa = single_assignments(fn)
    if ctx is None and getattr(e, '_parent', None) is not None:
        ctx = enclosing_stmt(e)
    binders = loop_binders(ctx) if ctx is not None else None

    def subst(node: ast.AST, at: Optional[ast.AST], d: int) -> ast.AST:
        b = loop_binders(at) if at is not None else {}

        class T(ast.NodeTransformer):
            def visit_Name(self, n: ast.Name):
                if not isinstance(n.ctx, ast.Load):
                    return n
                if n.id in b:
                    return ast.parse(b[n.id], mode='eval').body
                if d <= 0:
                    return n
                df = reaching_def(n.id, at) if at is not None else None
                if df is not None:
                    return subst(ast.parse(unparse(df.value), mode='eval').body, df, d - 1)
                if n.id in sa and sa[n.id] is not None:
                    dnode = sa[n.id]
                    dst = enclosing_stmt(dnode) if getattr(dnode, '_parent', None) is not None else None
                    return subst(ast.parse(unparse(dnode), mode='eval').body, dst, d - 1)
                return n
        return T().visit(node)
    out = subst(ast.parse(unparse(e), mode='eval').body, ctx, depth)
    return ast.parse(unparse(out), mode='eval').body


def stored_just_before(fn: FuncInfo, e: ast.AST) -> ast.AST:
    """`e` with every read of `self.<a>` replaced by V when the handler itself stored `self.<a> = V` in an earlier statement of its own
    body (unconditionally, exactly once, no await in between): reading the replica field right after replacing it is reading V."""
    top = fn.node.body
    here = e
    while getattr(here, '_parent', None) is not None and here._parent is not fn.node:
        here = here._parent
    if getattr(here, '_parent', None) is not fn.node or here not in top:
        return e
    at = top.index(here)
    stores: dict[str, list[tuple[int, ast.AST]]] = {}
    for n in walk_local(fn.node):
        if isinstance(n, (ast.Assign, ast.AugAssign, ast.AnnAssign)):
            for t in (n.targets if isinstance(n, ast.Assign) else [n.target]):
                if isinstance(t, ast.Attribute) and isinstance(t.value, ast.Name) and t.value.id == 'self':
                    i = top.index(n) if n in top and isinstance(n, ast.Assign) and len(n.targets) == 1 else -1
                    stores.setdefault(t.attr, []).append((i, n))
    sub = {}
    for a, lst in stores.items():
        if len(lst) == 1 and 0 <= lst[0][0] < at and not any(isinstance(x, (ast.Await, ast.Yield)) for st in top[lst[0][0]:at] for x in ast.walk(st)):
            sub[a] = lst[0][1].value
    if not sub:
        return e

    class T(ast.NodeTransformer):
        def visit_Attribute(self, n: ast.Attribute):
            if isinstance(n.ctx, ast.Load) and isinstance(n.value, ast.Name) and n.value.id == 'self' and n.attr in sub:
                return ast.parse(unparse(sub[n.attr]), mode='eval').body
            return self.generic_visit(n)
    return ast.parse(unparse(T().visit(ast.parse(unparse(e), mode='eval').body)), mode='eval').body


def value_class(fn: FuncInfo, e: Optional[ast.AST]) -> str:
    """Provenance class of a value: where does it come from?"""
    if e is None:
        return '-'
    e = stored_just_before(fn, e)
    if isinstance(e, ast.Name):
        b = built_from(fn, e.id)
        if b:
            return f'built:{b}'
    x = expand_c(fn, e)
    s = unparse(x)
    if isinstance(x, ast.Constant):
        return f'const:{x.value!r}'
    if 'get_self()' in s:
        return 'self-user'
    m = sorted({f'message.{n.attr}' for n in ast.walk(x) if isinstance(n, ast.Attribute) and isinstance(n.value, ast.Name) and n.value.id == 'message'})
    if m:
        wrap = ''
        if isinstance(x, ast.Call) and call_name(x) in ('set', 'list', 'bool', 'UserStatus', 'OrderedDict', 'dict'):
            wrap = call_name(x) + ':'
        return wrap + '+'.join(m)
    if isinstance(x, (ast.List, ast.Dict, ast.Set)) and not getattr(x, 'elts', getattr(x, 'keys', [])):
        return 'empty'
    if isinstance(x, ast.Call) and call_name(x) in ('set', 'list', 'dict', 'OrderedDict') and not x.args:
        return 'empty'
    if isinstance(x, ast.Name):
        return f'local:{x.id}'
    return s[:40]


def target_of(fn: FuncInfo, e: ast.AST, depth: int = 0) -> str:
    """Which replica object does an expression denote: room(message.room) / user(message.username) / ..."""
    x = expand_c(fn, e)
    s = unparse(x)
    if isinstance(x, ast.Call):
        nm = call_name(x)
        if nm == 'get_or_create_room':
            return f'room({unparse(x.args[0])})'
        if nm == 'get_user_object' and x.args:
            return f'user({unparse(x.args[0])})'
        if nm == 'get_self':
            return 'user(self)'
        if nm == 'deepcopy' and x.args:
            return f'copy({target_of(fn, x.args[0], depth + 1)})'
        if nm == 'list' and x.args and isinstance(x.args[0], ast.Call) and call_name(x.args[0]) == 'map' and len(x.args[0].args) == 2 and \
                unparse(x.args[0].args[0]).endswith('get_user_object'):
            return f'users({target_of(fn, x.args[0].args[1], depth + 1)})'
        if nm in ('list', 'tuple') and len(x.args) == 1 and isinstance(x.args[0], (ast.GeneratorExp, ast.ListComp)):
            return target_of(fn, x.args[0], depth)
        if nm and nm[:1].isupper() and x.keywords and depth < 2:
            parts = [f'{k.arg}={target_of(fn, k.value, depth + 1)}' for k in x.keywords if k.arg not in ('timestamp', 'raw_message')]
            return f'{nm}({", ".join(parts)})'
    if isinstance(x, (ast.ListComp, ast.GeneratorExp)) and len(x.generators) == 1 and not x.generators[0].ifs and isinstance(x.generators[0].target, ast.Name) and \
            isinstance(x.elt, ast.Call) and call_name(x.elt) == 'get_user_object' and len(x.elt.args) == 1 and unparse(x.elt.args[0]) == x.generators[0].target.id:
        # [get_user_object(n) for n in XS]  ==  list(map(get_user_object, XS))
        return f'users({target_of(fn, x.generators[0].iter, depth + 1)})'
    if isinstance(x, ast.Attribute) and isinstance(x.value, (ast.Name, ast.Call)) and not (isinstance(x.value, ast.Name) and x.value.id in ('message', 'self', 'connection')):
        return f'{target_of(fn, x.value, depth + 1)}.{x.attr}'
    return s[:60]


def built_from(fn: FuncInfo, name: str) -> Optional[str]:
    """A local container created empty and filled inside loop(s) over message.<X>."""
    srcs = set()
    for n in walk_local(fn.node):
        fills = False
        if isinstance(n, ast.Assign) and any(isinstance(t, ast.Subscript) and isinstance(t.value, ast.Name) and t.value.id == name for t in n.targets):
            fills = True
        if isinstance(n, ast.Call) and isinstance(n.func, ast.Attribute) and isinstance(n.func.value, ast.Name) and n.func.value.id == name and \
                n.func.attr in ('append', 'add', 'update'):
            fills = True
        if fills:
            for a in ancestors(n):
                if isinstance(a, ast.For):
                    for m in ast.walk(a.iter):
                        if isinstance(m, ast.Attribute) and isinstance(m.value, ast.Name) and m.value.id == 'message':
                            srcs.add(f'message.{m.attr}')
    return '+'.join(sorted(srcs)) if srcs else None


def effects_of(eng: Engine, fn: FuncInfo) -> list[dict]:
    out = []

    def conds(node) -> list[str]:
        return sorted({('' if pol else 'not ') + unparse(expand_c(fn, e, depth=3, ctx=enclosing_stmt(node))) for e, pol, _ in eng.guards_at(fn, node)})

    def drop_presence_tests(eff: dict, node) -> dict:
        """`if k in d: del d[k]` and `try: del d[k] except KeyError` have the same effect on the replica (remove if present); the
        same for `if k not in s: s.add(k)`.  A guard that only tests the presence of the affected element in the affected container
        is not part of the effect."""
        if eff['kind'] not in ('ADD', 'REMOVE'):
            return eff
        keep = []
        for e, pol, _ in eng.guards_at(fn, node):
            a = cmp_atom(e)
            txt = ('' if pol else 'not ') + unparse(expand_c(fn, e, depth=3, ctx=enclosing_stmt(node)))
            if a and a[0] == 'in' and isinstance(a[2], ast.Attribute) and a[2].attr == eff['field'] and target_of(fn, a[2].value) == eff['on'] and \
                    pol == (eff['kind'] == 'REMOVE'):
                v = value_class(fn, a[1])
                if v.startswith('local:') or '.name' in v:
                    v = target_of(fn, a[1].value) + '.name' if isinstance(a[1], ast.Attribute) else v
                if v == eff['value'] or value_class(fn, a[1]) == eff['value']:
                    continue
            keep.append(txt)
        eff['if'] = sorted(set(keep))
        return eff

    def loops(node) -> list[str]:
        return [unparse(canon(a.iter)) for a in ancestors(node) if isinstance(a, ast.For)]
    for n in walk_local(fn.node):
        if isinstance(n, ast.Assign):
            for t in n.targets:
                if isinstance(t, ast.Attribute) and not (isinstance(t.value, ast.Name) and t.value.id == 'self' and t.attr.startswith('_MESSAGE')):
                    # `x.f = A if c else B` is `if c: x.f = A else: x.f = B`: one effect per arm
                    for arm_conds, leaf in ifexp_cases(n.value):
                        vc = value_class(fn, leaf)
                        kind = 'SET'
                        if vc == 'empty':
                            kind = 'CLEAR'
                        elif vc.startswith(('set:', 'list:', 'dict:', 'OrderedDict:', 'built:')) or vc.startswith('local:'):
                            kind = 'REPLACE'
                        extra = [('' if pol else 'not ') + unparse(expand_c(fn, e, depth=3, ctx=n)) for e, pol in arm_conds]
                        out.append({'on': target_of(fn, t.value), 'field': t.attr, 'kind': kind, 'value': vc, 'if': sorted(set(conds(n) + extra)), 'each': loops(n),
                                    'value_full': unparse(expand_c(fn, stored_just_before(fn, leaf)))})
                elif isinstance(t, ast.Subscript) and isinstance(t.value, ast.Attribute):
                    out.append({'on': target_of(fn, t.value.value), 'field': t.value.attr, 'kind': 'ADD', 'value': value_class(fn, t.slice), 'if': conds(n),
                                'each': loops(n)})
        elif isinstance(n, ast.Delete):
            for t in n.targets:
                if isinstance(t, ast.Subscript) and isinstance(t.value, ast.Attribute):
                    out.append(drop_presence_tests({'on': target_of(fn, t.value.value), 'field': t.value.attr, 'kind': 'REMOVE', 'value': value_class(fn, t.slice),
                                                    'if': conds(n), 'each': loops(n)}, n))
        elif isinstance(n, ast.AugAssign) and isinstance(n.target, ast.Attribute):
            kind = 'REMOVE' if isinstance(n.op, ast.Sub) else 'ADD' if isinstance(n.op, (ast.BitOr, ast.Add)) else 'SET'
            out.append({'on': target_of(fn, n.target.value), 'field': n.target.attr, 'kind': kind, 'value': value_class(fn, n.value), 'if': conds(n), 'each': loops(n)})
        elif isinstance(n, ast.Call) and isinstance(n.func, ast.Attribute):
            nm = n.func.attr
            r = n.func.value
            if nm in ('add_user', 'remove_user'):
                out.append({'on': target_of(fn, r), 'field': 'users', 'kind': 'ADD' if nm == 'add_user' else 'REMOVE',
                            'value': target_of(fn, n.args[0]) if n.args else '-', 'if': conds(n), 'each': loops(n)})
            elif nm == 'update_from_user_stats':
                out.append({'on': target_of(fn, r), 'field': 'stats', 'kind': 'SET', 'value': value_class(fn, n.args[0]), 'if': conds(n), 'each': loops(n)})
            elif isinstance(r, ast.Attribute) and (nm in ADD or nm in REMOVE) and not unparse(r).startswith(('self._event_bus', 'logger')):
                kind = 'ADD' if nm in ADD else 'REMOVE'
                v = n.args[0] if n.args else None
                vc = value_class(fn, v)
                if vc.startswith('local:') or '.name' in vc:
                    vc = target_of(fn, v.value) + '.name' if isinstance(v, ast.Attribute) else vc
                out.append(drop_presence_tests({'on': target_of(fn, r.value), 'field': r.attr, 'kind': kind, 'value': vc, 'if': conds(n), 'each': loops(n)}, n))
    out = merge_empty_case(out)
    out.sort(key=lambda d: (d['on'], d['field'], d['kind'], d['value']))
    return out


def merge_empty_case(effs: list[dict]) -> list[dict]:
    """`if not message.xs: r.f = <empty>` next to `if message.xs: r.f = <built from message.xs>` is ONE effect, the unconditional replace: a
    container built from an empty list is the empty container.  (A fast path for the empty message that still stores and reports.)"""
    out = list(effs)
    for a in effs:
        if a not in out or a['kind'] != 'CLEAR':
            continue
        for b in effs:
            if b is a or b not in out or (b['on'], b['field']) != (a['on'], a['field']) or b['kind'] not in ('REPLACE',) or a['each'] or b['each']:
                continue
            src = b['value'].split(':', 1)[-1]
            if '+' in src or not src.startswith('message.'):
                continue
            ca, cb = set(a['if']), set(b['if'])
            if ca - cb == {f'not {src}'} and cb - ca == {src}:
                merged = dict(b)
                merged['if'] = sorted(ca & cb)
                out.remove(a)
                out[out.index(b)] = merged
                break
    return out


def event_fields(eng: Engine, evname: str) -> list[str]:
    """Field names of an event dataclass in positional order (own annotations after those of the repo base classes)."""
    ci = eng.repo.find_cls(evname.split('.')[-1], 'events.py')
    if ci is None:
        return []
    out: list[str] = []
    for c in reversed(eng.repo.mro(ci)):
        for st in c.node.body:
            if isinstance(st, ast.AnnAssign) and isinstance(st.target, ast.Name) and 'ClassVar' not in unparse(st.annotation) and st.target.id not in out:
                out.append(st.target.id)
    return out


def event_args(eng: Engine, fn: FuncInfo) -> list[dict]:
    out = []
    for c in calls_on(fn.node, 'emit'):
        if not c.args or not isinstance(c.args[0], ast.Call):
            continue
        ev = c.args[0]
        d = {'event': unparse(ev.func), 'if': sorted({('' if pol else 'not ') + unparse(expand_c(fn, e, depth=3, ctx=enclosing_stmt(c))) for e, pol, _ in eng.guards_at(fn, c)})}
        args = {}
        fields = event_fields(eng, unparse(ev.func))
        for i, a in enumerate(ev.args):
            args[fields[i] if i < len(fields) else f'#{i}'] = target_of(fn, a) if not isinstance(a, ast.Constant) else repr(a.value)
        for k in ev.keywords:
            if k.arg in ('raw_message', 'timestamp'):
                continue
            b = built_from(fn, k.value.id) if isinstance(k.value, ast.Name) else None
            args[k.arg] = f'built:{b}' if b else target_of(fn, k.value)
        d['args'] = args
        out.append(d)
    # the event of the empty fast path (`if not message.xs: emit(E(.., xs=<empty>))`) and the event of the general path
    # (`if message.xs: emit(E(.., xs=<built from message.xs>))`) are one event: what is built from an empty list is empty
    EMPTY = ('OrderedDict()', 'dict()', 'list()', 'set()', '[]', '{}', '()', 'empty')
    for a in list(out):
        for b in list(out):
            if a is b or a not in out or b not in out or a['event'] != b['event'] or set(a['args']) != set(b['args']):
                continue
            diff = [k for k in a['args'] if a['args'][k] != b['args'][k]]
            if len(diff) != 1:
                continue
            k = diff[0]
            va, vb = a['args'][k], b['args'][k]
            src = vb.split(':', 1)[-1]
            is_empty_local = va in EMPTY or any(isinstance(n, ast.Assign) and unparse(n.targets[0]) == va and unparse(n.value) in EMPTY for n in walk_local(fn.node)) or \
                any(isinstance(n, ast.AnnAssign) and unparse(n.target) == va and n.value is not None and unparse(n.value) in EMPTY for n in walk_local(fn.node))
            ca, cb = set(a['if']), set(b['if'])
            if is_empty_local and vb.startswith('built:') and src.startswith('message.') and '+' not in src and ca - cb == {f'not {src}'} and cb - ca == {src}:
                merged = dict(b)
                merged['if'] = sorted(ca & cb)
                out.remove(a)
                out[out.index(b)] = merged
    return out


def extract(eng: Engine) -> dict:
    rm = eng.cls('RoomManager', ROOMM)
    um = eng.cls('UserManager', USERM)
    res = {}
    for cls in (rm, um):
        for msg, hs in on_message_handlers(cls).items():
            for h in hs:
                res[f'{cls.name}:{msg}'] = {'handler': h.name, 'effects': effects_of(eng, h), 'events': event_args(eng, h)}
    return res


PAIRS = [
    ('RoomManager:PrivateRoomGrantMembership.Response', 'RoomManager:PrivateRoomRevokeMembership.Response', 'members'),
    ('RoomManager:PrivateRoomMembershipGranted.Response', 'RoomManager:PrivateRoomMembershipRevoked.Response', 'members'),
    ('RoomManager:PrivateRoomOperatorGranted.Response', 'RoomManager:PrivateRoomOperatorRevoked.Response', 'operators'),
    ('RoomManager:PrivateRoomGrantOperator.Response', 'RoomManager:PrivateRoomRevokeOperator.Response', 'operators'),
    ('RoomManager:UserJoinedRoom.Response', 'RoomManager:UserLeftRoom.Response', 'users'),
    ('RoomManager:RoomTickerAdded.Response', 'RoomManager:RoomTickerRemoved.Response', 'tickers'),
]


def handler_effects_rule(eng: Engine, ck: Check, rule: str, only: Optional[set] = None, pinned=None, got=None):
    """Every handler's effect on the replica equals the pinned one (tables/room_effects.json).  `only`: restrict to some handler keys --
    other properties rely on single fields of the replica (C05: the privileged flag the upload ranking reads)."""
    pinned = pinned if pinned is not None else json.load(open(TABLE))['handlers']
    got = got if got is not None else extract(eng)
    rm = eng.cls('RoomManager', ROOMM)
    um = eng.cls('UserManager', USERM)

    def norm(effs):
        return sorted(json.dumps({k: e[k] for k in ('on', 'field', 'kind', 'value', 'if')}, sort_keys=True) for e in effs)
    n = 0
    for key, want in pinned.items():
        if only is not None and key not in only:
            continue
        have = got.get(key)
        if have is None:
            continue
        n += 1
        clsname, msg = key.split(':')
        cls = rm if clsname == 'RoomManager' else um
        h = cls.methods[have['handler']]
        ck.visited(h)
        w, g = norm(want['effects']), norm(have['effects'])
        missing = [json.loads(x) for x in w if x not in g]
        extra = [json.loads(x) for x in g if x not in w]

        def show(e):
            s = f"{e['on']}.{e['field']} {e['kind']} {e['value']}"
            if e['if']:
                s += f" if {e['if']}"
            return s
        ck.ob(rule, h, h.node, f'{msg}: the handler\'s effect on the replica is the documented one '
              f'({"; ".join(show(e) for e in want["effects"]) or "none"})', not missing and not extra,
              f'expected but not found: {[show(e) for e in missing]}; found but not expected: {[show(e) for e in extra]}', construct=f'effects of {key}')
    return n


def run(eng: Engine, ck: Check):
    repo = eng.repo
    pinned = json.load(open(TABLE))['handlers']
    got = extract(eng)
    rm = eng.cls('RoomManager', ROOMM)
    um = eng.cls('UserManager', USERM)

    # ---- R-C19-EXHAUSTIVE
    for key in pinned:
        clsname, msg = key.split(':')
        cls = rm if clsname == 'RoomManager' else um
        hs = on_message_handlers(cls).get(msg, [])
        ck.ob('R-C19-EXHAUSTIVE', cls, cls.node, f'{msg} has exactly one handler in {clsname}', len(hs) == 1, f'{len(hs)} handlers', construct=f'handler for {key}')
    for cls, rel in ((rm, ROOMM), (um, USERM)):
        init = cls.methods['__init__']
        ok = any(isinstance(n, ast.Assign) and unparse(n.targets[0]) == 'self._MESSAGE_MAP' and unparse(n.value) == 'build_message_map(self)' for n in walk_local(init.node))
        ck.ob('R-C19-EXHAUSTIVE', init, init.node, f'{cls.name} builds its message map from the decorated handlers', ok, '', construct=f'{cls.name} message map')
        omr = cls.methods.get('_on_message_received')
        evp = [p_ for p_ in omr.params if p_ != 'self'][0] if omr is not None else 'event'
        # the call whose callee is read from the map: self._MESSAGE_MAP[k](..) or h = self._MESSAGE_MAP.get(k); h(..)
        disp = []
        for x in (calls_in(omr.node) if omr is not None else []):
            lk = lookup_in(expand_aliases(omr, x.func)) if not (isinstance(x.func, ast.Attribute) and x.func.attr == 'get') else None
            if lk and unparse(lk[0]) == 'self._MESSAGE_MAP':
                disp.append((x, lk[1]))
        ok = omr is not None and len(disp) == 1 and len(disp[0][0].args) == 2 and \
            unparse(expand_aliases(omr, disp[0][1])) in (f'{evp}.message.__class__', f'type({evp}.message)') and unparse(expand_aliases(omr, disp[0][0].args[0])) == f'{evp}.message' and \
            unparse(expand_aliases(omr, disp[0][0].args[1])) == f'{evp}.connection' and \
            omr in eng.res.graph() and omr in eng.res.event_handlers.get('MessageReceivedEvent', [])
        ck.ob('R-C19-EXHAUSTIVE', omr or cls, (omr or cls).node, f'{cls.name} dispatches every received message through the map', bool(ok), '', construct=f'{cls.name} dispatch')
    ck.floor('R-C19-EXHAUSTIVE', len(pinned), 26)

    # ---- R-C19-EFFECTS
    handler_effects_rule(eng, ck, 'R-C19-EFFECTS', None, pinned, got)
    # paired handlers have opposite kinds on the same field — needs no table
    for a, b, field in PAIRS:
        ea = [e for e in got.get(a, {}).get('effects', []) if e['field'] == field and e['kind'] in OPPOSITE]
        eb = [e for e in got.get(b, {}).get('effects', []) if e['field'] == field and e['kind'] in OPPOSITE]
        cls = rm
        ha = cls.methods[got[a]['handler']] if a in got else cls
        ok = len(ea) >= 1 and len(eb) >= 1 and all(x['kind'] == 'ADD' for x in ea) and all(x['kind'] == 'REMOVE' for x in eb) and \
            {x['value'] for x in ea} == {x['value'] for x in eb}
        ck.ob('R-C19-EFFECTS', ha, ha.node, f'{a.split(":")[1]} adds to `{field}` what {b.split(":")[1]} removes (same element, opposite effect)', ok,
              f'{a.split(":")[1]}: {[(x["kind"], x["value"]) for x in ea]}; {b.split(":")[1]}: {[(x["kind"], x["value"]) for x in eb]}', construct=f'pair {a} / {b}')

    # the two primitives the table treats as ADD / REMOVE on Room.users: they decide by looking at the list itself and touch nothing else.
    # (Handlers also assign room.users directly -- REPLACE / CLEAR effects -- so any shadow copy of the membership kept beside the list
    # goes stale at those sites.)
    room_cls = eng.cls('Room', 'room/model.py')
    for mname, test_pol, mut in (('add_user', False, 'append'), ('remove_user', True, 'remove')):
        m_ = room_cls.methods.get(mname)
        if m_ is None:
            raise AnalysisError(f'anchor function vanished: Room.{mname}')
        ck.visited(m_)
        up_ = [p_ for p_ in m_.params if p_ != 'self'][0]
        touched = {n.attr for n in walk_local(m_.node) if isinstance(n, ast.Attribute) and isinstance(n.value, ast.Name) and n.value.id == 'self'}
        muts = [x for x in calls_in(m_.node) if isinstance(x.func, ast.Attribute) and x.func.attr in MUTATORS]
        ok = touched == {'users'} and len(muts) == 1 and muts[0].func.attr == mut and unparse(muts[0].func.value) == 'self.users' and \
            len(muts[0].args) == 1 and unparse(muts[0].args[0]) == up_
        if ok:
            gs_ = [(e, pol) for e, pol, _ in eng.guards_at(m_, muts[0])]
            ok = len(gs_) == 1 and pat.match(gs_[0][0], pat.compile_pattern(f'{up_} in self.users')[0]) is not None and gs_[0][1] == test_pol
        ck.ob('R-C19-EFFECTS', m_, m_.node, f'Room.{mname} {"appends the user unless" if mname == "add_user" else "removes the user if"} the user is in self.users, '
              'decided on self.users itself and nothing else', ok,
              f'attributes used: {sorted(touched)}; mutations: {[unparse(x)[:50] for x in muts]} — membership kept anywhere but in the list is not updated where '
              'handlers replace or clear room.users (own leave, join, reset): users announced afterwards are silently dropped', construct=f'Room.{mname} primitive')

    # ---- R-C19-TARGET: events carry the room / user the message names
    for key, want in pinned.items():
        have = got.get(key)
        if have is None:
            continue
        clsname, msg = key.split(':')
        cls = rm if clsname == 'RoomManager' else um
        h = cls.methods[have['handler']]
        for e_ in want['events']:        # the pinned table names positional arguments `#i`: read them as the i-th field of the event class
            fl = event_fields(eng, e_['event'])
            e_['args'] = {(fl[int(k_[1:])] if k_.startswith('#') and int(k_[1:]) < len(fl) else k_): v_ for k_, v_ in e_['args'].items()}
        w = sorted(json.dumps(e, sort_keys=True) for e in want['events'])
        g = sorted(json.dumps(e, sort_keys=True) for e in have['events'])
        ck.ob('R-C19-TARGET', h, h.node, f'{msg}: the emitted event carries the room and user the message was announced for '
              f'({[e["event"] + str(e["args"]) for e in want["events"]]})', w == g,
              f'found {[e["event"] + str(e["args"]) + (" if " + str(e["if"]) if e["if"] else "") for e in have["events"]]}', construct=f'events of {key}')

    # ---- R-C19-BLOCK
    blocks = [(rm, '_on_chat_room_message', 'ROOM_MESSAGES'), (rm, '_on_public_chat_message', 'ROOM_MESSAGES'), (um, '_on_private_message', 'PRIVATE_MESSAGES')]
    for cls, hn, flag in blocks:
        h = cls.methods.get(hn)
        if h is None:
            raise AnalysisError(f'anchor function vanished: {cls.name}.{hn}')
        ck.visited(h)
        for c in calls_on(h.node, 'emit'):
            ok = any((not pol) and isinstance(e, ast.Call) and call_name(e) == 'is_blocked' and unparse(e.args[0]) == 'message.username' and
                     enum_member(e.args[1]) == flag for e, pol, _ in eng.guards_at(h, c))
            ck.ob('R-C19-BLOCK', h, c, f'{hn}: a message from a user blocked for {flag} is not reported', ok, 'emit not dominated by the block test',
                  construct=f'{hn} block {flag}')
    pm = um.methods['_on_private_message']
    acks = [c for c in calls_in(pm.node) if 'PrivateChatMessageAck' in unparse(c) and call_name(c) in ('send_server_messages', 'queue_server_messages')]
    ok = len(acks) == 1 and not eng.guards_at(pm, acks[0]) and 'message.chat_id' in unparse(acks[0])
    ck.ob('R-C19-BLOCK', pm, pm.node, 'a private message is acknowledged (chat_id) even when the sender is blocked', ok, '', construct='private ack before block')
    from . import defs as _d19
    _d19.string_decoding_tolerant(eng, ck, 'R-C19-EXHAUSTIVE', 'an announcement naming such a user must still reach its handler, or the view misses it')
    _d19.enum_members_distinct(eng, ck, 'R-C19-EFFECTS', [('BlockingFlag', 'user/model.py'), ('UserStatus', 'user/model.py')], 'a message is reported unless its sender is blocked for THAT kind of message')
    _d19.on_message_registers(eng, ck, 'R-C19-EXHAUSTIVE', 'every notification kind has a handler only if the handler is in the message map')
