"""C04 — COMPLETE means whole file; resume never corrupts (structural necessary conditions)."""
from __future__ import annotations
from .common import *


def is_transfered_definition(eng: Engine, ck: Check, rule: str):
    """Transfer.is_transfered() is exactly `filesize == bytes_transfered` (shared by C04: COMPLETE only for whole files, and C17: what a
    transfer caught transferring is repaired to)."""
    it = eng.func(TMODEL, 'Transfer.is_transfered')
    ck.visited(it)
    rets = [n for n in walk_local(it.node) if isinstance(n, ast.Return)]
    ok = len(rets) == 1
    if ok:
        v = rets[0].value
        # `filesize is not None and <equality>`: None == <int> is False anyway, the conjunct changes nothing
        if isinstance(v, ast.BoolOp) and isinstance(v.op, ast.And) and len(v.values) == 2 and isinstance(v.values[0], ast.Compare) and \
                len(v.values[0].ops) == 1 and isinstance(v.values[0].ops[0], ast.IsNot) and chain_str(v.values[0].left) == 'self.filesize' and is_none_const(v.values[0].comparators[0]):
            v = v.values[1]
        a = cmp_atom(v)
        # `filesize - bytes_transfered == 0` is `filesize == bytes_transfered` on integers (no clamp, no default around the difference)
        if a and a[0] == 'eq' and isinstance(a[1], ast.BinOp) and isinstance(a[1].op, ast.Sub) and const(a[2]) == 0 and not isinstance(const(a[2]), bool):
            a = ('eq', a[1].left, a[1].right)
        ok = bool(a and a[0] == 'eq' and {chain_str(a[1]), chain_str(a[2])} == {'self.filesize', 'self.bytes_transfered'})
    ck.ob(rule, it, it.node, 'is_transfered() is exactly `filesize == bytes_transfered` (also for a 0-byte file: 0 == 0)', ok,
          f'body returns `{unparse(rets[0].value) if rets else "?"}`', construct='is_transfered definition')


def run(eng: Engine, ck: Check):
    repo = eng.repo
    # ---- R-C04-GUARD: COMPLETE only under is_transfered()
    is_transfered_definition(eng, ck, 'R-C04-GUARD')
    sites = []
    for f in repo.all_funcs():
        if f.module.rel not in (TM,):
            continue
        for c in calls_in(f.node):
            if call_name(c) == 'complete' and isinstance(c.func, ast.Attribute) and mentions_attr(c.func.value, 'state'):
                sites.append((f, c, 'state.complete()'))
            if call_name(c) == 'init_from_state':
                sites.append((f, c, 'init_from_state(..)'))
    # assignments `state = TransferState.COMPLETE` feeding init_from_state
    for f in repo.all_funcs():
        if f.module.rel != TM:
            continue
        for n in walk_local(f.node):
            if isinstance(n, ast.Assign) and mentions(n.value, 'TransferState'):
                for conds, leaf in cond_values(eng, f, n):      # if/else assignment or conditional expression: same choice
                    if enum_member(leaf) == 'COMPLETE':
                        sites.append((f, n, 'state = COMPLETE', conds))
    ck.floor('R-C04-GUARD', len([s for s in sites if s[2] != 'init_from_state(..)']), 3)
    for site in sites:
        f, c, what = site[:3]
        ck.visited(f)
        if len(site) == 4:
            g = any(pol and isinstance(e, ast.Call) and call_name(e) == 'is_transfered' for e, pol in site[3])
            ck.ob('R-C04-GUARD', f, c, f'{f.qualname}: `{what}` is control dependent on the true branch of is_transfered()', g,
                  'COMPLETE requested without the size check', construct=f'{f.qualname} {what}')
            continue
        if what == 'init_from_state(..)':
            # the state passed must not be a literal COMPLETE outside the guard (handled through the assignment sites)
            if c.args and enum_member(c.args[0]) == 'COMPLETE':
                g = any(pol and call_name(e) == 'is_transfered' for e, pol, _ in eng.guards_at(f, c))
                ck.ob('R-C04-GUARD', f, c, 'init_from_state(COMPLETE) only under is_transfered()', g, 'not guarded',
                      construct=f'{f.qualname} init_from_state(COMPLETE)')
            continue
        g = any(pol and isinstance(e, ast.Call) and call_name(e) == 'is_transfered' for e, pol, _ in eng.guards_at(f, c))
        ck.ob('R-C04-GUARD', f, c, f'{f.qualname}: `{what}` is control dependent on the true branch of is_transfered()', g,
              'COMPLETE requested without the size check', construct=f'{f.qualname} {what}')
    # upload side: complete() only after the peer closed (receive_until_eof precedes it on every path)
    uf = eng.func(TM, 'TransferManager._upload_file')
    c = eng.cfg(uf)
    comp = [n for call in calls_in(uf.node) if call_name(call) == 'complete' for n in c.nodes_for(call)]
    eof = [n for call in calls_on(uf.node, 'receive_until_eof') for n in c.nodes_for(call)]
    p = c.find_path([c.entry], lambda n: n in comp, avoid=lambda n: n in eof)
    ck.ob('R-C04-GUARD', uf, uf.node, 'upload: complete() is reached only after waiting for the peer to close (receive_until_eof)',
          bool(comp) and bool(eof) and p is None, f'path to complete() without EOF wait: {c.describe_path(p, uf.where) if p else ""}',
          construct='upload complete after EOF')
    sf = [n for call in calls_on(uf.node, 'send_file') for n in c.nodes_for(call)]
    p = c.find_path([c.entry], lambda n: n in comp, avoid=lambda n: n in sf)
    ck.ob('R-C04-GUARD', uf, uf.node, 'upload: complete() is reached only after send_file returned normally',
          bool(sf) and p is None, 'complete() reachable without send_file', construct='upload complete after send')

    # ---- R-C04-COUNT: who writes bytes_transfered
    allowed = {'transfer/model.py:Transfer.__init__': 'initial 0',
               'transfer/model.py:Transfer._transfer_progress_callback': 'progress += len(chunk)',
               'transfer/model.py:Transfer.reset_progress_vars': 'reset to 0 on re-queue',
               'transfer/manager.py:TransferManager._initialize_download': 'resume offset',
               'transfer/manager.py:TransferManager._initialize_upload': 'offset received from the downloader'}
    writers = eng.stores_to_attr('bytes_transfered')
    ck.floor('R-C04-COUNT', len(writers), 5)
    for f, st, v in writers:
        ck.ob('R-C04-COUNT', f, st, 'bytes_transfered is written only by the progress callback, the offset initialisation and reset',
              f.key in allowed, f'unexpected writer {f.key}: `{unparse(st)[:70]}`', construct=f'{f.key} writes bytes_transfered')
    cb = eng.func(TMODEL, 'Transfer._transfer_progress_callback')
    aug = [n for n in walk_local(cb.node) if isinstance(n, ast.AugAssign) and isinstance(n.target, ast.Attribute)
           and n.target.attr == 'bytes_transfered']
    data_param = [p for p in cb.params if p != 'self']
    ok = len(aug) == 1 and isinstance(aug[0].op, ast.Add) and \
        pat.match(expand_aliases(cb, aug[0].value), pat.compile_pattern(f'len({data_param[0]})')[0]) is not None and not eng.guards_at(cb, aug[0])
    ck.ob('R-C04-COUNT', cb, cb.node, 'progress callback adds exactly len(chunk), unconditionally', ok,
          f'{[unparse(a) for a in aug]}', construct='callback += len(data)')
    cb_stores = [st for f, st, v in eng.stores_to_attr('bytes_transfered', [cb])]
    ck.ob('R-C04-COUNT', cb, cb.node, 'the progress callback changes the counter ONLY by adding len(chunk): the counter is the sole evidence of how many bytes '
          'were written/sent, so it must not be clamped, rounded or reset there (is_transfered() compares it with the announced size)',
          len(cb_stores) == 1 and len(aug) == 1 and cb_stores[0] is aug[0],
          f'stores to bytes_transfered in the callback: {[unparse(x) for x in cb_stores]} — e.g. clamping to filesize makes an over-delivering sender '
          '(or a file that grew) end COMPLETE with a local file that is not the announced one', construct='callback counter only += len')
    for q, io_call, desc in (('PeerConnection.receive_file', 'write', 'written to the file'),
                             ('PeerConnection.send_file', 'send_data', 'sent on the socket')):
        f = eng.func(CONN, q)
        c = eng.cfg(f)
        cbs = [x for x in calls_in(f.node) if isinstance(x.func, ast.Name) and x.func.id == 'callback']
        ios = calls_on(f.node, io_call)
        ck.floor(f'R-C04-COUNT.{q}', min(len(cbs), len(ios)), 1)
        for x in cbs:
            same = bool(ios) and x.args and all(unparse(i.args[0]) == unparse(x.args[0]) for i in ios if i.args)
            cb_nodes = c.nodes_for(x)
            io_nodes = [n for i in ios for n in c.nodes_for(i)]
            p = c.find_path([c.entry], lambda n: n in cb_nodes, avoid=lambda n: n in io_nodes)
            # a callback after each io: from io node, reaching the next io node or a normal exit without callback
            p2 = None
            for ion in io_nodes:
                nxt = [s for s, lab in ion.succ if lab == 'next']
                p2 = p2 or c.find_path(nxt, lambda n: n in io_nodes or n.kind == 'exit_return', avoid=lambda n: n in cb_nodes,
                                       edge_ok=lambda a, b, lab: lab == 'next')
            gs = [(e, pol) for e, pol, _ in eng.guards_at(f, x) if not (mentions_name(e, 'callback'))]
            loop_guards = [g for g in gs if not (isinstance(g[0], ast.Constant))]
            chunk = unparse(x.args[0]) if x.args else 'data'
            feeds = {n_.id for n_ in ast.walk(expand_aliases(f, x.args[0])) if isinstance(n_, ast.Name)} | {chunk} if x.args else {chunk}
            feeds |= {n_.id for nm_ in list(feeds) for n_ in ast.walk(single_assignments(f).get(nm_, ast.Constant(None))) if isinstance(n_, ast.Name)}
            data_guard_ok = all(mentions_name(e, *feeds) for e, pol in loop_guards)     # the EOF test: on the chunk, or on the count it is cut to
            # p2 is allowed only through the `callback is None` branch: recheck ignoring that branch
            ck.ob('R-C04-COUNT', f, x, f'{q}: the progress callback gets the same chunk object that was {desc}, after the I/O',
                  same and p is None and data_guard_ok, f'same object: {same}; callback reachable before the I/O: {p is not None}; '
                  f'extra guards: {[unparse(e) for e, _ in loop_guards]}', construct=f'{q} callback(data) after {io_call}(data)')

    fresh_chunk_rule(eng, ck)
    file_connection_key_rule(eng, ck)

    # ---- R-C04-RESUME: offset provenance
    idl = eng.func(TM, 'TransferManager._initialize_download')
    # the offset is whatever is recorded in bytes_transfered; every definition of it must be 0 or the size of the local file (directly or
    # through a helper of the manager all of whose returns are)
    tmc = eng.cls('TransferManager', TM)
    stores_bt = [(st, v) for f, st, v in eng.stores_to_attr('bytes_transfered', [idl])]
    off_names = sorted({v.id for st, v in stores_bt if isinstance(v, ast.Name)})
    ck.ob('R-C04-RESUME', idl, idl.node, 'the offset recorded in bytes_transfered is one local value', len(off_names) == 1 and len(stores_bt) == 1,
          f'{[unparse(s_) for s_, _ in stores_bt]}', construct='offset single definition')

    def offset_source(fn: FuncInfo, v: ast.AST, at: ast.AST, depth=0) -> bool:
        if isinstance(v, ast.Await):
            v = v.value
        if const(v) == 0 and not isinstance(const(v), bool):
            ck.ob('R-C04-RESUME', fn, at, 'the resume offset is 0 or the size of the local file on disk (nothing else)', True, '', construct=f'offset source 0 in {fn.name}')
            return True
        if isinstance(v, ast.Call) and call_name(v) == 'getsize' and v.args and chain_str(v.args[0]) == 'transfer.local_path':
            ck.ob('R-C04-RESUME', fn, at, 'the resume offset is 0 or the size of the local file on disk (nothing else)', True, '', construct=f'offset source getsize in {fn.name}')
            return True
        if isinstance(v, ast.Call) and isinstance(v.func, ast.Attribute) and unparse(v.func.value) == 'self' and v.func.attr in tmc.methods and depth < 3:
            h = tmc.methods[v.func.attr]
            ck.visited(h)
            tp = [p_ for p_ in h.params if p_ != 'self']
            passes = len(v.args) == 1 and len(tp) == 1 and chain_str(v.args[0]) == 'transfer' and tp[0] == 'transfer'
            rets = [n for n in walk_local(h.node) if isinstance(n, ast.Return)]
            ok = passes and bool(rets) and not eng.falls_off_end(h)
            for r_ in rets:
                if r_.value is None or not offset_source(h, r_.value, r_, depth + 1):
                    ok = False
            return ok
        ck.ob('R-C04-RESUME', fn, at, 'the resume offset is 0 or the size of the local file on disk (nothing else)', False, f'`{unparse(v)}`',
              construct=f'offset source {alpha_key(v)} in {fn.name}')
        return False
    n_src = 0
    if len(off_names) == 1:
        for n in walk_local(idl.node):
            if isinstance(n, (ast.Assign, ast.AnnAssign)) and n.value is not None and any(isinstance(t_, ast.Name) and t_.id == off_names[0] for t_ in
                                                                                       (n.targets if isinstance(n, ast.Assign) else [n.target])):
                offset_source(idl, n.value, n)
                n_src += 1
            elif isinstance(n, (ast.AugAssign, ast.NamedExpr, ast.For, ast.AsyncFor, ast.With, ast.AsyncWith)) and any(
                    isinstance(t_, ast.Name) and isinstance(t_.ctx, ast.Store) and t_.id == off_names[0] for t_ in ast.walk(n) if not isinstance(n, (ast.For, ast.AsyncFor, ast.With, ast.AsyncWith)) or
                    t_ in list(ast.walk(getattr(n, 'target', None) or ast.Tuple([i_.optional_vars for i_ in getattr(n, 'items', []) if i_.optional_vars], ast.Store())))):
                ck.ob('R-C04-RESUME', idl, n, 'the resume offset is 0 or the size of the local file on disk (nothing else)', False, f'`{unparse(n)[:60]}`',
                      construct='offset modified in place')
        ck.floor('R-C04-RESUME.sources', n_src, 1)
    if len(off_names) == 1:
        off = off_names[0]
        st_bt = stores_bt
        ck.ob('R-C04-RESUME', idl, idl.node, 'bytes_transfered is set to that offset', len(st_bt) == 1 and unparse(st_bt[0][1]) == off,
              f'{[unparse(s) for s, _ in st_bt]}', construct='bytes_transfered = offset')
        sends = [c for c in calls_on(idl.node, 'send_message') if any(call_name(x) == 'uint64' for x in ast.walk(c))]
        ok = len(sends) == 1 and any(call_name(x) == 'uint64' and x.args and unparse(x.args[0]) == off for x in ast.walk(sends[0]))
        ck.ob('R-C04-RESUME', idl, sends[0] if sends else idl.node, 'the value sent to the uploader as uint64 is the same offset', ok,
              f'{[unparse(s)[:60] for s in sends]}', construct='send uint64(offset)')
        if sends and st_bt:
            c = eng.cfg(idl)
            s = c.suspension_between(c.nodes_for(st_bt[0][0])[0], c.nodes_for(sends[0])[0])
            ck.ob('R-C04-RESUME', idl, sends[0], 'no suspension between recording the offset and sending it', s is None,
                  f'suspension at {s.lineno if s else ""}', construct='offset store-send atomic')
    df = eng.func(TM, 'TransferManager._download_file')
    opens = [c for c in calls_in(df.node) if call_name(c) == 'open']
    ck.floor('R-C04-RESUME.open', len(opens), 1)
    for c in opens:
        mode = const(arg(c, 1, 'mode'))
        ok = isinstance(mode, str) and 'a' in mode and 'b' in mode and 'w' not in mode and '+' not in mode
        ck.ob('R-C04-RESUME', df, c, 'download opens the local file in binary append mode (no truncation)', ok, f'mode={mode!r}',
              construct='download open mode')
        ck.ob('R-C04-RESUME', df, c, 'the file opened is transfer.local_path', chain_str(c.args[0]) == 'transfer.local_path' if c.args else False,
              unparse(c.args[0]) if c.args else '', construct='download open path')
    rf = calls_on(df.node, 'receive_file')
    ck.floor('R-C04-RESUME.receive', len(rf), 1)
    for c in rf:
        sz = arg(c, 1, 'filesize')
        ok = isinstance(sz, ast.BinOp) and isinstance(sz.op, ast.Sub) and chain_str(sz.left) == 'transfer.filesize' and \
            chain_str(sz.right) == 'transfer.bytes_transfered'
        ck.ob('R-C04-RESUME', df, c, 'bytes to receive = filesize - bytes_transfered', ok, unparse(sz), construct='receive size')
    seeks = calls_on(uf.node, 'seek')
    ok = len(seeks) == 1 and chain_str(seeks[0].args[0]) == 'transfer.bytes_transfered'
    if ok:
        c = eng.cfg(uf)
        sn = c.nodes_for(seeks[0])
        p = c.find_path([c.entry], lambda n: n in sf, avoid=lambda n: n in sn)
        ok = p is None
    ck.ob('R-C04-RESUME', uf, uf.node, 'upload seeks to bytes_transfered (the offset the downloader sent) before send_file', ok,
          f'{[unparse(s) for s in seeks]}', construct='upload seek offset')
    iu = eng.func(TM, 'TransferManager._initialize_upload')
    st = [(s, v) for f, s, v in eng.stores_to_attr('bytes_transfered', [iu])]
    ok = len(st) == 1 and any(call_name(x) == 'receive_transfer_offset' for x in ast.walk(st[0][1]))
    ck.ob('R-C04-RESUME', iu, iu.node, 'upload offset is the value received from the downloader', ok,
          f'{[unparse(s) for s, _ in st]}', construct='upload offset source')

    # the two integers of the negotiation travel outside any frame: the reader must take EXACTLY the width the writer sent
    # (`readexactly`; a plain `read(n)` returns whatever segment arrived, the rest of the integer then becomes file content)
    for rname, codec, fmt, width in (('receive_transfer_offset', 'uint64', 'Q', 8), ('receive_transfer_ticket', 'uint32', 'I', 4)):
        rf_ = eng.func(CONN, f'PeerConnection.{rname}')
        ck.visited(rf_)
        exact = []
        for f_ in eng.scope(rf_):
            for x in calls_in(f_.node):
                if call_name(x) == 'readexactly' and x.args:
                    a0 = expand_aliases(f_, x.args[0])
                    n_ = const(a0)
                    if isinstance(a0, ast.Call) and call_name(a0) == 'calcsize' and a0.args and isinstance(const(a0.args[0]), str):
                        n_ = {'Q': 8, 'I': 4, '<Q': 8, '<I': 4}.get(const(a0.args[0]))
                    if isinstance(a0, ast.Attribute) and a0.attr == 'size' and codec in unparse(a0):
                        n_ = width
                    exact.append(n_)
        partial = [unparse(x)[:50] for f_ in eng.scope(rf_) for x in calls_in(f_.node) if call_name(x) in ('read', 'receive_data', 'readline', 'readuntil')]
        ck.ob('R-C04-RESUME', rf_, rf_.node, f'{rname} reads exactly {width} bytes (readexactly) before decoding: the value cannot be cut by TCP segmentation',
              exact == [width] and not partial, f'readexactly widths {exact}; partial reads {partial}: a value delivered in two segments is decoded from its first bytes '
              'and the rest is taken for file content', construct=f'{rname} exact width')
        dec = [x for f_ in eng.scope(rf_) for x in calls_in(f_.node) if (call_name(x) == 'deserialize' and unparse(x.func.value) == codec) or
               (call_name(x) in ('unpack', 'unpack_from') and any(const(a_) in (f'<{fmt}', fmt) for a_ in x.args)) or
               (call_name(x) == 'from_bytes' and any(const(a_) == 'little' for a_ in list(x.args) + [k_.value for k_ in x.keywords]))]
        ck.ob('R-C04-RESUME', rf_, rf_.node, f'{rname} decodes a little-endian {codec} (what the sender serialises)', len(dec) == 1, f'{[unparse(x) for x in dec]}',
              construct=f'{rname} codec')

    # ---- R-C04-FAULT
    c = eng.cfg(df)
    hs = [n for n in c.nodes if n.kind == 'handler' and 'ConnectionReadError' in handler_type_names(n.ast)]
    ck.floor('R-C04-FAULT', len(hs), 1)
    for h in hs:
        calls = [call_name(x) for x in calls_in(h.ast) if isinstance(x.func, ast.Attribute) and mentions_attr(x.func.value, 'state')]
        ck.ob('R-C04-FAULT', df, h.ast, 'a broken connection during download leaves the transfer INCOMPLETE (resumable)',
              calls == ['incomplete'], f'state requests in the handler: {calls}', construct='ConnectionReadError -> incomplete')
    removers = []
    for f in repo.all_funcs():
        if f.module.rel in (TM, TSTATE, TMODEL):
            for x in calls_in(f.node):
                if call_name(x) in ('remove', 'unlink', 'truncate', 'rmtree') and (
                        'asyncos' in unparse(x.func) or unparse(x.func).startswith('os.')):
                    removers.append((f, x))
    ck.floor('R-C04-FAULT.removers', len(removers), 1)
    for f, x in removers:
        ok = f.key == 'transfer/state.py:_remove_local_file'
        ck.ob('R-C04-FAULT', f, x, 'the only code that deletes a local file is _remove_local_file', ok, f'{f.key}',
              construct=f'{f.key} deletes a file')
    rlf = eng.func(TSTATE, '_remove_local_file')
    for caller, call, how in eng.res.callers_of(rlf):
        ck.ob('R-C04-FAULT', caller, call, '_remove_local_file is called only from abort()', caller.name == 'abort',
              f'called from {caller.qualname}', construct=f'{caller.qualname} removes file')

    from . import defs
    defs.transfer_direction_predicates(eng, ck, 'R-C04-GUARD')
    task_fault_rule(eng, ck)

    # ---- R-C04-RETRY
    gq = eng.func(TM, 'TransferManager._get_queued_transfers')
    apps = [a for a in calls_in(gq.node) if call_name(a) == 'append' and 'download' in unparse(a.func.value)]
    sel = set()
    for a in apps:
        for e, pol, _ in expanded_guards(eng, gq, a):
            if pol:
                sel |= enum_members_in(e) & {'QUEUED', 'INCOMPLETE', 'FAILED'}
    ck.ob('R-C04-RETRY', gq, gq.node, 'INCOMPLETE downloads are selected for another attempt', 'INCOMPLETE' in sel,
          f'selected states: {sorted(sel)}', construct='retry selects INCOMPLETE')
    puf = eng.func(TM, 'TransferManager._on_peer_upload_failed')
    st = [(s, v) for f, s, v in eng.stores_to_attr('remotely_queued', [puf])]
    ok = len(st) == 1 and const(st[0][1]) is False and bool(calls_on(puf.node, 'request_management_cycle'))
    ck.ob('R-C04-RETRY', puf, puf.node, 'PeerUploadFailed clears remotely_queued and requests a management cycle', ok,
          f'{[unparse(s) for s, _ in st]}', construct='upload failed -> requeue')
    transfer_timeout_rule(eng, ck)


def transfer_timeout_rule(eng: Engine, ck: Check):
    """R-C04-RETRY (pace): file data is written and read under TRANSFER_TIMEOUT, not under the short timeout of control messages.  With a
    bandwidth limit on the other side one drain of the transport (64 KiB -> 16 KiB) legitimately takes tens of seconds; under the
    10 s control-message timeout the uploader fails, the downloader sees EOF mid-file and ends FAILED with a reason, which nothing
    retries.  Decided on the call chain send_file -> .. -> _send(data, timeout=T) and receive_file -> .. -> _read(.., timeout=T)."""
    pc = eng.cls('PeerConnection', CONN)
    big = cval(eng.repo, eng.func(CONN, 'PeerConnection.send_file'), ast.Name('TRANSFER_TIMEOUT', ast.Load()))

    def reach(start: FuncInfo, sink: str) -> list[tuple[FuncInfo, ast.Call, Optional[ast.AST]]]:
        """(function, sink call, timeout expression) for every call of `sink` reachable from `start` through methods of the connection.  The
        walk is context sensitive for parameters: a callee's parameter stands for the argument (or default) of the call that led there,
        so `send_message(data, timeout=TRANSFER_TIMEOUT)` -> `_send(data, timeout=timeout)` is judged as TRANSFER_TIMEOUT."""
        out, seen, todo = [], set(), [(start, {})]
        while todo:
            f, env = todo.pop()
            key = (f, tuple(sorted((k_, unparse(v_) if v_ is not None else None) for k_, v_ in env.items())))
            if key in seen or len(seen) > 24:
                continue
            seen.add(key)
            ck.visited(f)

            def resolve(t):
                return env.get(t.id, t) if isinstance(t, ast.Name) and t.id in env else t
            for x in calls_in(f.node):
                if not (isinstance(x.func, ast.Attribute) and unparse(x.func.value) in ('self', 'super()')):
                    continue
                if x.func.attr == sink:
                    callee = next((c.methods[sink] for c in eng.repo.mro(pc) if sink in c.methods), None)
                    t = kw(x, 'timeout')
                    if t is None and callee is not None:
                        ps = [p_ for p_ in callee.params if p_ != 'self']
                        if 'timeout' in ps and ps.index('timeout') < len(x.args):
                            t = x.args[ps.index('timeout')]
                    out.append((f, x, resolve(t) if t is not None else None))
                else:
                    for c in eng.res.callees(x, f):
                        if c.cls is None or c.cls not in eng.repo.mro(pc):
                            continue
                        a_ = c.node.args
                        ps = [p_.arg for p_ in a_.posonlyargs + a_.args][1:]
                        dflt = dict(zip([p_.arg for p_ in a_.args][len(a_.args) - len(a_.defaults):], a_.defaults))
                        dflt.update({p_.arg: d_ for p_, d_ in zip(a_.kwonlyargs, a_.kw_defaults) if d_ is not None})
                        env2 = dict(dflt)
                        for p_, v_ in zip(ps, x.args):
                            env2[p_] = resolve(v_)
                        for k_ in x.keywords:
                            if k_.arg:
                                env2[k_.arg] = resolve(k_.value)
                        stores = {n_.id for n_ in ast.walk(c.node) if isinstance(n_, ast.Name) and isinstance(n_.ctx, ast.Store)}
                        todo.append((c, {k_: v_ for k_, v_ in env2.items() if k_ not in stores}))
        return out

    def long_enough(f: FuncInfo, t: Optional[ast.AST]) -> bool:
        if t is None or const(t) is None and isinstance(t, ast.Constant):
            return True              # no timeout at all
        if unparse(t) in ('TRANSFER_TIMEOUT', 'self.transfer_read_timeout'):
            return True
        v = cval(eng.repo, f, t)
        return isinstance(v, (int, float)) and isinstance(big, (int, float)) and v >= big
    for start_name, sink, what in (('send_file', '_send', 'written'), ('receive_file', '_read', 'read')):
        start = pc.methods[start_name]
        sites = reach(start, sink)
        ck.floor(f'R-C04-RETRY.{start_name}', len(sites), 1)
        bad = [(f.name, unparse(t)) for f, x, t in sites if not long_enough(f, t)]
        ck.ob('R-C04-RETRY', start, start.node, f'every chunk of {start_name} is {what} under the transfer timeout (TRANSFER_TIMEOUT = {big} s), not a control-message timeout',
              not bad, f'{bad}: with a bandwidth limit on the other side one chunk legitimately takes longer; the transfer fails with no fault at all and is not retried',
              construct=f'{start_name} uses the transfer timeout')
    init = pc.methods.get('__init__')
    if init is not None:
        a_ = init.node.args
        dflt = dict(zip([x.arg for x in a_.args][len(a_.args) - len(a_.defaults):], a_.defaults))
        d = dflt.get('transfer_read_timeout')
        v = cval(eng.repo, init, d) if d is not None else None
        ck.ob('R-C04-RETRY', init, init.node, 'the transfer read timeout of a peer connection defaults to TRANSFER_TIMEOUT', d is not None and (unparse(d) == 'TRANSFER_TIMEOUT' or
              (isinstance(v, (int, float)) and isinstance(big, (int, float)) and v >= big)), unparse(d) if d is not None else 'no default', construct='transfer_read_timeout default')


# ---------------------------------------------------------------------------------------------------------------------------
# R-C04-TASKFAULT: a connection fault never kills a transfer task while the transfer is INITIALIZING / UPLOADING / DOWNLOADING.
#
# Typestate walk over the syntax of the transfer task functions.  State of the walk: "released" = since the last
# `state.initialize()` / `state.start_transferring()` a state request (fail / incomplete / complete / queue / abort / ...) has been
# awaited, i.e. the transfer is no longer in a transient state that only this task can leave.  Exceptions are typed: the fault set
# of a call comes from Engine.faults() (FaultEscape: exceptions the repo raises while handling an I/O failure, specialised on
# constant arguments such as raise_exception=False).  A fault that leaves the function while not released is a violation: the task
# dies, nobody moves the transfer on, and "once faults stop the transfer finishes without user action" is lost.
ACQUIRE = {'initialize', 'start_transferring'}
RELEASE = {'fail', 'incomplete', 'complete', 'queue', 'abort', 'pause'}
NETWORK_FAULTS = {'NetworkError', 'PeerConnectionError', 'ConnectionFailedError', 'ConnectionReadError', 'ConnectionWriteError'}


def _state_request(call: ast.Call) -> Optional[str]:
    if isinstance(call.func, ast.Attribute) and isinstance(call.func.value, ast.Attribute) and call.func.value.attr == 'state':
        return call.func.attr
    return None


class TaskFaultWalk:
    """Escape items are (fault type, released?, call or raise statement that produced it)."""

    def __init__(self, eng: Engine, roots: list[FuncInfo]):
        self.eng = eng
        self.fe = eng.faults()
        self.roots = roots
        self.summary: dict[FuncInfo, tuple[set, Optional[bool]]] = {}

    def of(self, fn: FuncInfo) -> tuple[set, Optional[bool]]:
        if fn not in self.summary:
            self.summary[fn] = (set(), True)      # recursion guard
            esc, rel = self.block(fn, fn.node.body, True, frozenset())
            self.summary[fn] = (esc, rel)
        return self.summary[fn]

    # faults of the calls of one statement's own expressions, and the state requests it makes
    def stmt_effects(self, fn: FuncInfo, exprs: list[ast.AST], rel: bool):
        esc = set()
        for e in exprs:
            for x in walk_with_lambdas(e):
                if not isinstance(x, ast.Call):
                    continue
                req = _state_request(x)
                if req in ACQUIRE and isinstance(parent(x), ast.Await):
                    rel = False
                    continue
                if req in RELEASE and isinstance(parent(x), ast.Await):
                    rel = True
                    continue
                cs = self.eng.res.callees(x, fn)
                awaited = isinstance(parent(x), ast.Await)
                for c in cs:
                    if c.is_async and not awaited:
                        continue
                    if c in self.roots and c is not fn:
                        e2, r2 = self.of(c)
                        for t, r, w in e2:
                            esc.add((t, r, w if not r else x))
                        if r2 is not None:
                            rel = r2
                        continue
                    for t in self.fe.of_call(x, c):
                        if t in NETWORK_FAULTS:
                            esc.add((t, rel, x))
        return esc, rel

    def block(self, fn, stmts, rel: Optional[bool], caught: frozenset):
        esc: set = set()
        for st in stmts:
            if rel is None:
                break
            e, rel = self.stmt(fn, st, rel, caught)
            esc |= e
        return esc, rel

    def stmt(self, fn, st, rel: bool, caught: frozenset):
        if isinstance(st, FUNC_NODES) or isinstance(st, ast.ClassDef):
            return set(), rel
        if isinstance(st, ast.Raise):
            e, rel2 = self.stmt_effects(fn, [st.exc] if st.exc is not None else [], rel)
            if st.exc is None:
                e |= {(t, rel2, st) for t, _, _w in caught}
            else:
                x = st.exc.func if isinstance(st.exc, ast.Call) else st.exc
                ch = attr_chain(x)
                if ch and ch[-1] in NETWORK_FAULTS and caught:
                    e.add((ch[-1], rel2, st))
            return e, None
        if isinstance(st, ast.Return):
            e, rel2 = self.stmt_effects(fn, [st.value] if st.value is not None else [], rel)
            return e, None
        if isinstance(st, (ast.Break, ast.Continue)):
            return set(), None
        if isinstance(st, ast.If):
            e0, rel = self.stmt_effects(fn, [st.test], rel)
            e1, r1 = self.block(fn, st.body, rel, caught)
            e2, r2 = self.block(fn, st.orelse, rel, caught)
            rs = [r for r in (r1, r2) if r is not None]
            return e0 | e1 | e2, (all(rs) if rs else None)
        if isinstance(st, (ast.For, ast.AsyncFor, ast.While)):
            e0, rel = self.stmt_effects(fn, [st.iter if not isinstance(st, ast.While) else st.test], rel)
            e1, r1 = self.block(fn, st.body, rel, caught)
            e2, r2 = self.block(fn, st.orelse, rel, caught)
            return e0 | e1 | e2, rel and (r1 is None or r1) and (r2 is None or r2)
        if isinstance(st, (ast.With, ast.AsyncWith)):
            e0, rel = self.stmt_effects(fn, [i.context_expr for i in st.items], rel)
            e1, r1 = self.block(fn, st.body, rel, caught)
            return e0 | e1, r1
        if isinstance(st, ast.Try):
            eb, rb = self.block(fn, st.body, rel, caught)
            out = set()
            per_handler: dict[int, set] = {}
            for item in eb:
                t = item[0]
                must = False
                for i, h in enumerate(st.handlers):
                    m = handler_catches_type(h, t)
                    if m != 'no':
                        per_handler.setdefault(i, set()).add(item)
                    if m == 'must':
                        must = True
                        break
                if not must:
                    out.add(item)
            rels = []
            if rb is not None:
                eo, ro = self.block(fn, st.orelse, rb, caught) if st.orelse else (set(), rb)
                out |= eo
                rels.append(ro)
            for i, h in enumerate(st.handlers):
                incoming = per_handler.get(i, set())
                # entered with the flag the transfer had when the fault was raised; a handler that can only be entered by other
                # exceptions (OSError, CancelledError, ..) is walked with the flag at the start of the try
                flags = {it[1] for it in incoming} or {rel}
                for fl in flags:
                    eh, rh = self.block(fn, h.body, fl, frozenset(it for it in incoming if it[1] == fl))
                    out |= eh
                    rels.append(rh)
            if st.finalbody:
                ef, rf = self.block(fn, st.finalbody, rel, caught)
                out |= ef
            rs = [r for r in rels if r is not None]
            return out, (all(rs) if rs else None)
        exprs = [c for c in ast.iter_child_nodes(st) if isinstance(c, ast.expr)]
        return self.stmt_effects(fn, exprs, rel)


def handler_catches_type(h: ast.ExceptHandler, t: str) -> str:
    from sa import cfg as cfgmod
    return cfgmod.handler_catches(h, 'exc', t)


def task_fault_rule(eng: Engine, ck: Check):
    roots = [eng.func(TM, q) for q in ('TransferManager._upload_file', 'TransferManager._download_file',
                                       'TransferManager._initialize_upload', 'TransferManager._initialize_download')]
    w = TaskFaultWalk(eng, roots)
    n = 0
    for f in roots:
        ck.visited(f)
        esc, rel = w.of(f)
        bad = sorted({t for t, r, _w in esc if not r})
        n += 1
        where = next((w_ for t, r, w_ in sorted(esc, key=lambda it: getattr(it[2], 'lineno', 0)) if not r), None)
        ck.ob('R-C04-TASKFAULT', f, where if where is not None else f.node,
              f'{f.name}: no connection fault (NetworkError family) leaves the task while the transfer is INITIALIZING / UPLOADING / DOWNLOADING '
              '(every fault is caught and answered with a state request first)', not bad,
              f'{bad} can escape before any of fail()/incomplete()/complete()/queue() was requested'
              + (f' — raised through `{unparse(where)[:70]}` at line {getattr(where, "lineno", "?")}' if where is not None else '')
              + ': the task dies, the transfer keeps its transient state and its upload slot, and nothing retries it',
              construct=f'{f.qualname} faults answered')
    ck.floor('R-C04-TASKFAULT', n, 4)
    # a download without a local path sends offset 0 and then appends to the path the naming chain picks: sound only if that path is new
    from .c09 import free_name_rules
    free_name_rules(eng, ck, 'R-C04-RESUME')
    from . import defs as _d_rq
    _d_rq.requeue_forgets_local_file(eng, ck, 'R-C04-RESUME')


def fresh_chunk_rule(eng: Engine, ck: Check):
    # each chunk handed to the stream is an object of its own: StreamWriter.write() hands the object to the transport, which (CPython >= 3.12) QUEUES
    # it without copying when the socket is full and sends it later; `drain()` only waits above the high-water mark.  A buffer that the next
    # read refills changes bytes that are still waiting to be sent: the receiver gets the right number of bytes with the wrong content.
    sf = eng.func(CONN, 'PeerConnection.send_file')
    for x in calls_on(sf.node, 'send_data'):
        lp = next((a_ for a_ in ancestors(x) if isinstance(a_, (ast.While, ast.For, ast.AsyncFor))), None)
        arg0_ = x.args[0] if x.args else None
        ex = expand_aliases(sf, arg0_) if arg0_ is not None else None
        copied = isinstance(ex, ast.Call) and isinstance(ex.func, ast.Name) and ex.func.id == 'bytes' and len(ex.args) == 1     # bytes(view): an immutable copy
        fresh = ex is not None and (copied or (any(isinstance(y, ast.Call) and call_name(y) == 'read' for y in ast.walk(ex)) and not any(
            isinstance(y, ast.Call) and call_name(y) in ('readinto', 'readinto1', 'recv_into') for y in calls_in(sf.node))))
        outer = sorted({y.id for y in ast.walk(ex) if isinstance(y, ast.Name)} & {t_.id for n_ in walk_local(sf.node) if isinstance(n_, ast.Assign) and lp is not None and
                                                                                 lp not in list(ancestors(n_)) for t_ in n_.targets if isinstance(t_, ast.Name) and
                                                                                 isinstance(n_.value, ast.Call) and call_name(n_.value) in ('bytearray', 'memoryview')}) if ex is not None else []
        ck.ob('R-C04-COUNT', sf, x, 'send_file: every chunk handed to the stream is a fresh object read in that iteration (the transport may keep it queued after write() returns)',
              fresh and (copied or not outer), f'`{unparse(arg0_) if arg0_ is not None else "?"}` = `{unparse(ex)[:70] if ex is not None else "?"}`' +
              (f' is a view of the buffer {outer} created outside the loop' if outer else ' does not come from a read() of this iteration') +
              ': the next readinto() overwrites chunks that are queued but not yet on the wire; both ends report COMPLETE with the announced size and the content differs',
              construct='send_file chunk is a fresh object')



def file_connection_key_rule(eng: Engine, ck: Check):
    """R-C04-GUARD (whose bytes): the ticket in a PeerTransferRequest is chosen by the UPLOADER; nothing makes the tickets of two peers
    distinct (every aioslsk client counts from 2 after a start).  The future that `_initialize_download` parks for the uploader's file
    connection, and the look-up when an 'F' connection presents its ticket, are keyed by the peer AND the ticket: otherwise the file
    connection of one uploader completes the download of another, which stores foreign bytes under its own name and may end COMPLETE."""
    tm = eng.cls('TransferManager', TM)
    stores, reads = [], []
    for m in tm.methods.values():
        for n in walk_local(m.node):
            if isinstance(n, ast.Subscript) and isinstance(n.value, ast.Attribute) and n.value.attr == '_file_connection_futures':
                (stores if isinstance(n.ctx, ast.Store) else reads).append((m, n))
    ck.floor('R-C04-GUARD.file_connection_futures', min(len(stores), len(reads)), 1)
    for m, n in stores + reads:
        ck.visited(m)
        k = expand_aliases(m, n.slice)
        peer = any(isinstance(x, ast.Attribute) and x.attr == 'username' for x in ast.walk(k))
        tick = any((isinstance(x, ast.Attribute) and x.attr == 'ticket') or (isinstance(x, ast.Name) and 'ticket' in x.id) or
                   (isinstance(x, ast.Call) and 'ticket' in unparse(x.func)) for x in ast.walk(k))
        what = 'registered' if isinstance(n.ctx, ast.Store) else 'looked up'
        ck.ob('R-C04-GUARD', m, n, f'{m.name}: the future for the uploader\'s file connection is {what} under the peer\'s name and the ticket', peer and tick,
              f'key `{unparse(n.slice)}`: two uploaders that announce the same ticket in the same window share one entry; the first file connection to arrive completes '
              'the LAST registered download, whoever opened it', construct=f'{m.name} file connection key')
