"""C05 — upload slots, one per user, priority (structural safety clauses)."""
from __future__ import annotations
from .common import *


def nonneg_return(eng: Engine, fn: FuncInfo, r: ast.Return) -> tuple[bool, str]:
    v = r.value
    if v is None:
        return False, 'returns None'
    ex = expand_aliases(fn, v)
    if isinstance(ex, ast.Constant) and isinstance(ex.value, int) and ex.value >= 0:
        return True, ''
    if isinstance(ex, ast.Call) and call_name(ex) == 'max' and any(isinstance(const(a), int) and const(a) >= 0 for a in ex.args):
        return True, ''
    if isinstance(ex, ast.Call) and call_name(ex) == 'len':
        return True, ''
    # guarded: `if x < 0: return 0` before, i.e. this return is dominated by not (x < 0)
    for e, pol, _ in expanded_guards(eng, fn, r):
        a = cmp_atom(e)
        if a and unparse(a[1]) == unparse(ex):
            if (a[0] in ('ge', 'gt') and pol and const(a[2]) == 0) or (a[0] == 'lt' and not pol and const(a[2]) == 0):
                return True, ''
    return False, f'`{unparse(v)}` (= `{unparse(ex)}`) can be negative: a negative slice bound selects "all but the last k"'


def run(eng: Engine, ck: Check):
    mt = eng.func(TM, 'TransferManager.manage_transfers')
    # ---- R-C05-BOUND
    starts = [(f, st, v) for f, st, v in eng.stores_to_attr('_transfer_task')
              if v is not None and any(call_name(x) == '_initialize_upload' for x in ast.walk(expand_aliases(f, v)))]
    ck.floor('R-C05-BOUND', len(starts), 1)
    iu = eng.func(TM, 'TransferManager._initialize_upload')
    for caller, call, how in eng.res.callers_of(iu):
        if how == 'call':
            ck.ob('R-C05-BOUND', caller, call, 'uploads are started only by manage_transfers', caller is mt,
                  f'started from {caller.qualname}', construct=f'{caller.qualname} starts upload')
    for f, st, v in starts:
        loops = [a for a in ancestors(st) if isinstance(a, ast.For)]
        ok = False
        detail = 'the store is not inside a for-loop over a slice'
        if loops:
            it = expand_aliases(f, loops[0].iter)
            if isinstance(it, ast.Subscript) and isinstance(it.slice, ast.Slice):
                sl = it.slice
                lower_ok = sl.lower is None or const(sl.lower) == 0
                step_ok = sl.step is None or const(sl.step) == 1
                up = sl.upper
                up_ok = isinstance(up, ast.Call) and call_name(up) == 'get_free_upload_slots' and not up.args
                ok = lower_ok and step_ok and up_ok
                detail = f'iterates `{unparse(it)}`; upper bound must be exactly get_free_upload_slots()'
                src = it.value
                sel_ok = any(call_name(x) == '_get_queued_transfers' for x in ast.walk(expand_aliases(f, src))) or \
                    mentions_name(src, 'uploads')
            else:
                detail = f'iterates `{unparse(it)}` (not a slice bounded by the free slots)'
                # countdown idiom: n = get_free_upload_slots(); for u in uploads: if n <= 0: break; n -= 1; start(u)
                loop = loops[0]
                for e, pol, _ in eng.guards_at(f, st):
                    a = cmp_atom(e)
                    if not a or not isinstance(a[1], ast.Name):
                        continue
                    positive = (a[0] in ('gt',) and pol and const(a[2]) == 0) or (a[0] in ('le',) and not pol and const(a[2]) == 0) or \
                        (a[0] == 'ge' and pol and const(a[2]) == 1) or (a[0] == 'lt' and not pol and const(a[2]) == 1)
                    if not positive:
                        continue
                    n_ = a[1].id
                    writes = [w for w in walk_local(f.node) if (isinstance(w, ast.Assign) and any(isinstance(t, ast.Name) and t.id == n_ for t in w.targets))
                              or (isinstance(w, ast.AugAssign) and isinstance(w.target, ast.Name) and w.target.id == n_)]
                    inits = [w for w in writes if isinstance(w, ast.Assign)]
                    decs = [w for w in writes if isinstance(w, ast.AugAssign)]
                    init_ok = len(inits) == 1 and isinstance(inits[0].value, ast.Call) and call_name(inits[0].value) == 'get_free_upload_slots' and \
                        loop not in list(ancestors(inits[0]))
                    dec_ok = len(decs) == 1 and isinstance(decs[0].op, ast.Sub) and const(decs[0].value) == 1 and loop in list(ancestors(decs[0])) and \
                        parent(decs[0]) is loop
                    if init_ok and dec_ok:
                        cf = eng.cfg(f)
                        # every path from the loop head to the store passes the decrement
                        dn = cf.nodes_for(decs[0])
                        sn = cf.nodes_for(st)
                        hn = cf.nodes_for(loop)
                        pth = cf.find_path(hn, lambda n: n in sn, avoid=lambda n: n in dn)
                        ok = pth is None
                        detail = f'countdown of `{n_}` from get_free_upload_slots(); store reachable without the decrement: {pth is not None}'
        ck.ob('R-C05-BOUND', f, st, 'per cycle at most get_free_upload_slots() uploads are started (loop over uploads[:free])', ok, detail,
              construct='upload start loop bound')
        gs = eng.guards_at(f, st)
        ck.ob('R-C05-BOUND', f, st, 'the slot computation precedes the loop and no suspension separates them',
              not f.is_async or eng.cfg(f).suspension_between(eng.cfg(f).entry, eng.cfg(f).nodes_for(st)[0]) is None,
              'manage_transfers suspends between computing the free slots and starting uploads', construct='slot bound atomic')
    fs = eng.func(TM, 'TransferManager.get_free_upload_slots')
    ck.visited(fs)
    rets = [n for n in walk_local(fs.node) if isinstance(n, ast.Return)]
    ck.floor('R-C05-BOUND.returns', len(rets), 1)
    for r in rets:
        ok, why = nonneg_return(eng, fs, r)
        ck.ob('R-C05-BOUND', fs, r, 'get_free_upload_slots() is never negative', ok, why, construct='free slots non-negative')
        ex = expand_aliases(fs, r.value)
        subs = [b for b in ast.walk(ex) if isinstance(b, ast.BinOp) and isinstance(b.op, ast.Sub)]
        shape = any(isinstance(b.left, ast.Call) and call_name(b.left) == 'get_upload_slots' and isinstance(b.right, ast.Call)
                    and call_name(b.right) == 'len' and any(call_name(x) == 'get_uploading' for x in ast.walk(b.right)) for b in subs)
        ck.ob('R-C05-BOUND', fs, r, 'free slots = configured slots - |uploads initialising or uploading|', shape or const(ex) == 0,
              f'`{unparse(ex)}`', construct='free slots formula')
    gus = eng.func(TM, 'TransferManager.get_upload_slots')
    rets = [n for n in walk_local(gus.node) if isinstance(n, ast.Return)]
    ok = len(rets) == 1 and (chain_str(rets[0].value) or '').endswith('_settings.transfers.limits.upload_slots')
    ck.ob('R-C05-BOUND', gus, gus.node, 'the slot limit is read from the settings at call time', ok,
          f'{[unparse(r.value) for r in rets]}', construct='slot limit source')
    gu = eng.func(TM, 'TransferManager.get_uploading')
    comps = [n for n in walk_local(gu.node) if isinstance(n, (ast.ListComp, ast.SetComp, ast.GeneratorExp))]
    ok = False
    if comps:
        cond = [unparse(i) for g in comps[0].generators for i in g.ifs]
        ok = len(comps[0].generators) == 1 and mentions_attr(comps[0].generators[0].iter, '_transfers') and \
            any('is_upload()' in x and 'is_processing()' in x and 'not' not in x and ' or ' not in x for x in cond)
    ck.ob('R-C05-BOUND', gu, gu.node, 'occupied slots = every upload of the transfer list that is_processing()', ok,
          f'{[unparse(x) for x in comps]}', construct='occupied slots definition')
    ip = eng.func(TMODEL, 'Transfer.is_processing')
    mem = set()
    for r in [n for n in walk_local(ip.node) if isinstance(n, ast.Return)]:
        a = cmp_atom(r.value)
        if a and a[0] == 'in':
            mem = enum_members_in(a[2])
    ck.ob('R-C05-BOUND', ip, ip.node, 'is_processing() covers INITIALIZING, UPLOADING and DOWNLOADING',
          mem == {'INITIALIZING', 'UPLOADING', 'DOWNLOADING'}, f'{sorted(mem)}', construct='is_processing states')

    from . import defs
    defs.transfer_direction_predicates(eng, ck, 'R-C05-BOUND')
    # ---- R-C05-PERUSER
    gq = eng.func(TM, 'TransferManager._get_queued_transfers')
    ck.visited(gq)
    apps = [a for a in calls_in(gq.node) if call_name(a) == 'append' and 'upload' in unparse(a.func.value)]
    ck.floor('R-C05-PERUSER', len(apps), 1)
    sa = single_assignments(gq)
    for a in apps:
        gs = expanded_guards(eng, gq, a)
        raw = eng.guards_at(gq, a)

        def has(pred):
            return any(pred(e, pol) for e, pol, _ in gs) or any(pred(e, pol) for e, pol, _ in raw)
        offline = has(lambda e, pol: 'OFFLINE' in enum_members_in(e) and mentions_attr(e, 'status') and not pol)
        queued = has(lambda e, pol: enum_members_in(e) == {'QUEUED'} and mentions_attr(e, 'state') and pol)
        is_up = has(lambda e, pol: (('UPLOAD' in enum_members_in(e) and mentions_attr(e, 'direction')) or call_name(e) == 'is_upload') and pol)
        in_sets = [(e, pol) for e, pol, _ in raw if (cmp_atom(e) or ('',))[0] == 'in' and not pol and mentions_attr(expand_aliases(gq, cmp_atom(e)[1]), 'username')]
        set_names = {unparse(cmp_atom(e)[2]) for e, pol in in_sets}
        main_loop = next((x for x in ancestors(a) if isinstance(x, (ast.For, ast.AsyncFor))), None)
        # which of those sets is "users with a processing upload", which is the per-cycle set
        processing_set = None
        cycle_set = None
        for nm in set_names:
            d = sa.get(nm)
            if d is not None and isinstance(d, (ast.SetComp, ast.Call)) and 'is_processing' in unparse(d) and 'is_upload' in unparse(d):
                processing_set = nm
            elif d is not None and isinstance(d, (ast.SetComp, ast.Call)) and any(call_name(x) == 'get_uploading' for x in ast.walk(d)) and \
                    mentions_attr(d, 'username'):
                processing_set = nm        # get_uploading() is checked separately ("occupied slots definition")
            adds = [x for x in calls_in(gq.node) if call_name(x) == 'add' and unparse(x.func.value) == nm]
            outside = [x for x in adds if main_loop is None or main_loop not in list(ancestors(x))]
            if True:
                # the same set built by a loop of its own: every upload of the transfer list that is_processing() contributes its user
                def builds(x):
                    lp = next((y for y in ancestors(x) if isinstance(y, (ast.For, ast.AsyncFor))), None)
                    if lp is None or not mentions_attr(expand_aliases(gq, lp.iter), '_transfers'):
                        return False
                    g_ = expanded_guards(eng, gq, x)
                    pos = [unparse(e_) for e_, pol_, _ in g_ if pol_]
                    neg = [e_ for e_, pol_, _ in g_ if not pol_]
                    return len(pos) == len(g_) == 2 and any('is_upload()' in t_ for t_ in pos) and any('is_processing()' in t_ for t_ in pos) and not neg and \
                        bool(x.args) and mentions_attr(expand_aliases(gq, x.args[0]), 'username')
            if adds and len(outside) == len(adds):
                if all(builds(x) for x in adds) and main_loop is not None and all(x.lineno < main_loop.lineno for x in adds):
                    processing_set = nm
                continue
            if adds and outside != adds and all(builds(x) for x in adds) and main_loop is not None:
                # the set is filled DURING the selecting pass (complete only when the pass is over): fine iff the selected list is
                # filtered against it once more after the loop, before it is ranked / returned
                lst = unparse(a.func.value)
                post = [n_ for n_ in walk_local(gq.node) if isinstance(n_, ast.Assign) and unparse(n_.targets[0]) == lst and isinstance(n_.value, ast.ListComp) and
                        n_.lineno > getattr(main_loop, 'end_lineno', main_loop.lineno) and len(n_.value.generators) == 1 and unparse(n_.value.generators[0].iter) == lst and
                        unparse(n_.value.elt) == unparse(n_.value.generators[0].target) and not eng.guards_at(gq, n_)]
                for n_ in post:
                    tv_ = unparse(n_.value.generators[0].target)
                    for i_ in n_.value.generators[0].ifs:
                        for e_, pol_ in split_conj(i_, True):
                            a_ = cmp_atom(e_)
                            if a_ and a_[0] == 'in' and not pol_ and unparse(a_[1]) == f'{tv_}.username' and unparse(a_[2]) == nm:
                                processing_set = nm
                continue
            if adds:
                cycle_set = nm
                # the add is on every path to (or directly after) the append within the same iteration
                same_block = any(parent(enclosing_stmt(x)) is parent(enclosing_stmt(a)) or
                                 enclosing_stmt(x) in getattr(parent(enclosing_stmt(a)), 'body', []) for x in adds)
                add_arg_ok = all(x.args and mentions_attr(expand_aliases(gq, x.args[0]), 'username') for x in adds)
                if not (same_block and add_arg_ok):
                    cycle_set = None
        ck.ob('R-C05-PERUSER', gq, a, 'an upload is eligible only if its user is not OFFLINE', offline, 'missing status guard',
              construct='eligible: not offline')
        ck.ob('R-C05-PERUSER', gq, a, 'an upload is eligible only in state QUEUED', queued, 'missing state guard',
              construct='eligible: QUEUED')
        ck.ob('R-C05-PERUSER', gq, a, 'no upload is selected for a user who already has an upload initialising/uploading',
              processing_set is not None, f'membership guards: {sorted(set_names)}', construct='eligible: user not uploading')
        ck.ob('R-C05-PERUSER', gq, a, 'at most one upload per user is selected per cycle (per-cycle set tested and updated)',
              cycle_set is not None and cycle_set != processing_set, f'membership guards: {sorted(set_names)}',
              construct='eligible: one per user per cycle')
    # the ranked list is the only thing manage_transfers gets
    rets = [n for n in walk_local(gq.node) if isinstance(n, ast.Return)]
    for r in rets:
        ok = isinstance(r.value, ast.Tuple) and len(r.value.elts) == 2
        up = expand_aliases(gq, r.value.elts[1]) if ok else None
        ok = ok and isinstance(up, ast.Call) and call_name(up) == '_prioritize_uploads'
        ck.ob('R-C05-RANK', gq, r, 'the upload list handed to manage_transfers is the prioritised one', bool(ok) or
              any(isinstance(n, ast.Assign) and call_name(n.value) == '_prioritize_uploads' and
                  unparse(n.targets[0]) == unparse(r.value.elts[1]) for n in walk_local(gq.node)),
              f'`{unparse(r.value)}`', construct='uploads prioritised')

    # ---- R-C05-RANK
    pu = eng.func(TM, 'TransferManager._prioritize_uploads')
    ck.visited(pu)
    weights: dict[str, int] = {}
    # a key function defined inside _prioritize_uploads (`def get_rank(upload): ..; return rank` handed to sorted) computes the rank there
    nested = [g_ for g_ in eng.repo.all_funcs() if g_.outer is pu]
    rank_fns: set[str] = set()
    for pu_, n in [(f_, n_) for f_ in list(eng.scope(pu)) + [g_ for g_ in nested if g_ not in eng.scope(pu)] for n_ in walk_local(f_.node)]:
        if isinstance(n, ast.AugAssign) and isinstance(n.op, ast.Add) and isinstance(cval(eng.repo, pu_, n.value), int):
            if pu_ in nested and all(isinstance(r_.value, ast.Name) and r_.value.id == unparse(n.target) for r_ in walk_local(pu_.node) if isinstance(r_, ast.Return)):
                rank_fns.add(pu_.name)
            gs = expanded_guards(eng, pu_, n)
            kind = None
            for e, pol, _ in gs:
                if not pol:
                    continue
                if mentions_attr(e, 'privileged'):
                    kind = 'privileged'
                elif (cmp_atom(e) or ('',))[0] == 'in' and mentions(cmp_atom(e)[2], 'friends') and mentions_attr(cmp_atom(e)[1], 'username'):
                    kind = 'friend'
                elif mentions_attr(e, 'status') and enum_members_in(e) == {'ONLINE', 'AWAY'}:
                    kind = 'online'
            if kind is None:
                ck.ob('R-C05-RANK', pu_, n, 'every weight is added under one of the three documented tests', False,
                      f'`{unparse(n)}` under {[unparse(e) for e, _, _ in gs]}', construct=alpha_key(n))
            else:
                weights[kind] = weights.get(kind, 0) + cval(eng.repo, pu_, n.value)
        elif isinstance(n, (ast.Assign, ast.AugAssign)) and isinstance(n.value, ast.Call) and call_name(n.value) == 'get' and isinstance(n.value.func, ast.Attribute) and \
                (not isinstance(n, ast.AugAssign) or isinstance(n.op, ast.Add)):
            # the same weights as a lookup table: `rank = _STATUS_RANK.get(user.status, 0)`
            tbl = resolve_named_constant(n.value.func.value)
            if isinstance(tbl, ast.Dict) and len(n.value.args) == 2 and mentions_attr(expand_aliases(pu_, n.value.args[0]), 'status'):
                keys = set().union(*[enum_members_in(k_) for k_ in tbl.keys if k_ is not None]) if tbl.keys else set()
                vals = {const(v_) for v_ in tbl.values}
                if keys == {'ONLINE', 'AWAY'} and len(vals) == 1 and isinstance(next(iter(vals)), int) and const(n.value.args[1]) == 0 and len(tbl.keys) == 2:
                    weights['online'] = weights.get('online', 0) + next(iter(vals))
                else:
                    ck.ob('R-C05-RANK', pu_, n, 'every weight is added under one of the three documented tests', False,
                          f'`{unparse(n)}` with table keys {sorted(keys)} values {sorted(map(str, vals))}', construct=alpha_key(n))
    ck.floor('R-C05-RANK.weights', len(weights), 3)
    w = weights
    ok = len(w) == 3 and w['privileged'] > w['friend'] + w['online'] and w['friend'] > w['online'] > 0
    ck.ob('R-C05-RANK', pu, pu.node, 'weights: privileged > friend + online, friend > online > 0 (lexicographic priority)', ok,
          f'weights {w}', construct='weight order')
    # descending order
    src = unparse(pu.node)
    sort_calls = [c for c in calls_in(pu.node) if call_name(c) in ('sort', 'sorted')]
    rev_kw = any(const(kw(c, 'reverse')) is True for c in sort_calls)
    reversed_call = any(call_name(c) == 'reversed' for c in calls_in(pu.node))
    neg_key = any(isinstance(kw(c, 'key'), ast.Lambda) and isinstance(kw(c, 'key').body, ast.UnaryOp) for c in sort_calls)
    n_desc = sum([rev_kw, reversed_call, neg_key])
    if not sort_calls:
        raise AnalysisError('R-C05-RANK: ordering idiom of _prioritize_uploads not recognised (no sort/sorted call)')
    key_ok = all((kw(c, 'key') is not None and ('itemgetter(0)' in unparse(kw(c, 'key')) or '[0]' in unparse(kw(c, 'key')) or unparse(kw(c, 'key')) in rank_fns))
                 for c in sort_calls)
    ck.ob('R-C05-RANK', pu, sort_calls[0], 'the result is ordered by rank, highest first', n_desc == 1 and key_ok,
          f'sort calls {[unparse(c) for c in sort_calls]}, reverse kw {rev_kw}, reversed() {reversed_call}, negated key {neg_key}',
          construct='descending by rank')
    fr = [n for n in walk_local(pu.node) if isinstance(n, ast.Assign) and mentions_attr(n.value, 'friends')]
    ok = any((chain_str(n.value) or '').endswith('_settings.users.friends') for n in fr) or '_settings.users.friends' in src
    ck.ob('R-C05-RANK', pu, pu.node, 'friend test uses the configured friends list', ok, '', construct='friends source')

    # ---- R-C05-ATOMIC (advisory): QUEUED -> INITIALIZING happens inside the task, not at selection time
    c = eng.cfg(iu)
    init = [n for call in calls_on(iu.node, 'initialize') for n in c.nodes_for(call)]
    first = init and c.suspension_between(c.entry, init[0]) is None
    ck.ob('R-C05-ATOMIC', iu, iu.node, 'the upload task marks the transfer INITIALIZING as its first step (before any other suspension)',
          bool(first), 'initialize() is not the first suspension of _initialize_upload', construct='initialize first')
    defs.job_raises_nothing_typed(eng, ck, 'R-C05-BOUND', TM, 'TransferManager._management_job', 'the job is what starts queued uploads')
    # the ranking reads user.privileged / user.status of the object the user manager hands out: those fields are kept in step with the
    # server's announcements by these handlers (their pinned effects, shared with C19)
    from .c19 import handler_effects_rule
    n_h = handler_effects_rule(eng, ck, 'R-C05-RANK', {'UserManager:AddPrivilegedUser.Response', 'UserManager:GetUserStatus.Response', 'UserManager:PrivilegedUsers.Response',
                                                       'UserManager:AddUser.Response'})
    ck.floor('R-C05-RANK.replica', n_h, 3)


    wake_rule(eng, ck)


def wake_rule(eng: Engine, ck: Check):
    """R-C05-WAKE: the management task sleeps on a queue and has no periodic tick; it runs when somebody requests a cycle.  A state change
    that frees an upload slot (a transfer leaves INITIALIZING / UPLOADING) or adds a candidate (a transfer becomes QUEUED) must request
    one, otherwise a queued upload waits for an unrelated event although a slot is free.  The guards of the request in the state-change
    listener are evaluated over every edge of the documented state graph (tables/state_graph.json)."""
    import json
    import os
    lst = eng.func(TM, 'TransferManager.on_transfer_state_changed')
    ck.visited(lst)
    reqs = calls_on(lst.node, 'request_management_cycle')
    ps = [p_ for p_ in lst.params if p_ != 'self']
    if len(ps) < 3:
        raise AnalysisError('R-C05-WAKE: on_transfer_state_changed(transfer, old, new) signature not recognised')
    tp, oldp, newp = ps[:3]
    edges = json.load(open(os.path.join(os.path.dirname(os.path.dirname(__file__)), 'tables', 'state_graph.json')))['edges']
    PROCESSING = ('INITIALIZING', 'UPLOADING', 'DOWNLOADING')      # is_processing(): the states that hold a slot
    needed = sorted({(e['from'], e['to']) for e in edges if (e['from'] in PROCESSING and e['to'] not in PROCESSING) or e['to'] == 'QUEUED'})
    ck.floor('R-C05-WAKE.edges', len(needed), 10)
    UNK = object()

    def ev(e: ast.AST, env: dict):
        if isinstance(e, ast.UnaryOp) and isinstance(e.op, ast.Not):
            v = ev(e.operand, env)
            return UNK if v is UNK else not v
        if isinstance(e, ast.BoolOp):
            vs = [ev(x, env) for x in e.values]
            if isinstance(e.op, ast.And):
                return False if any(v is False for v in vs) else True if all(v is True for v in vs) else UNK
            return True if any(v is True for v in vs) else False if all(v is False for v in vs) else UNK
        if isinstance(e, ast.Compare) and len(e.ops) == 1:
            l, r, op = e.left, e.comparators[0], e.ops[0]
            if isinstance(r, ast.Name) and r.id in env and not (isinstance(l, ast.Name) and l.id in env):
                l, r = r, l
            if isinstance(l, ast.Name) and l.id in env:
                if isinstance(r, ast.Name) and r.id in env and isinstance(op, (ast.Eq, ast.NotEq, ast.Is, ast.IsNot)):
                    return (env[l.id] == env[r.id]) == isinstance(op, (ast.Eq, ast.Is))
                mem = enum_members_in(r)
                if mem and isinstance(op, (ast.Eq, ast.Is, ast.In)):
                    return env[l.id] in mem
                if mem and isinstance(op, (ast.NotEq, ast.IsNot, ast.NotIn)):
                    return env[l.id] not in mem
            return UNK
        if isinstance(e, ast.Call) and isinstance(e.func, ast.Attribute) and unparse(e.func.value) == tp and not e.args:
            return {'is_upload': True, 'is_download': False}.get(e.func.attr, UNK)
        if isinstance(e, ast.Constant):
            return bool(e.value)
        return UNK
    missing, undecided = [], []
    for frm, to in needed:
        env = {oldp: frm, newp: to}
        got = False
        for x in reqs:
            vs = [(ev(expand_aliases(lst, g), env), pol) for g, pol, _ in eng.guards_at(lst, x)]
            if any(v is UNK for v, _ in vs):
                undecided.append(unparse(x)[:40])
                continue
            if all(v == pol for v, pol in vs):
                got = True
        if not got:
            missing.append(f'{frm}->{to}')
    if undecided and missing:
        raise AnalysisError(f'R-C05-WAKE: a guard of request_management_cycle in on_transfer_state_changed is outside the (old, new) fragment: {sorted(set(undecided))}')
    ck.ob('R-C05-WAKE', lst, lst.node, f'every state change of an upload that frees a slot or adds a candidate requests a management cycle ({len(needed)} edges of the state graph)',
          not missing, f'no cycle is requested for {missing}: the slot is free (is_processing() false) but the management task keeps sleeping on its queue; the queued '
          'uploads of other users wait for an unrelated event', construct='state change wakes the scheduler')
