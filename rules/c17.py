"""C17 — transfers survive a restart."""
from __future__ import annotations
from .common import *
from .c03 import state_classes

TCACHE = 'transfer/cache.py'
NON_PERSISTABLE = ('asyncio.Task', 'asyncio.Lock', 'deque', 'TransferStateListener', 'TransferProgressSnapshot', 'Task', 'Lock')


def run(eng: Engine, ck: Check):
    repo = eng.repo
    tcls = eng.cls('Transfer', TMODEL)
    init = eng.func(TMODEL, 'Transfer.__init__')
    gst = eng.func(TMODEL, 'Transfer.__getstate__')
    sst = eng.func(TMODEL, 'Transfer.__setstate__')
    for f in (init, gst, sst):
        ck.visited(f)

    # ---- R-C17-FIELDS
    attrs: dict[str, str] = {}
    for n in walk_local(init.node):
        if isinstance(n, ast.AnnAssign) and isinstance(n.target, ast.Attribute) and unparse(n.target.value) == 'self':
            attrs[n.target.attr] = unparse(n.annotation)
        elif isinstance(n, ast.Assign):
            for t in n.targets:
                if isinstance(t, ast.Attribute) and unparse(t.value) == 'self':
                    attrs.setdefault(t.attr, '')
    ck.floor('R-C17-FIELDS.attrs', len(attrs), 20)
    volatile = {a for a, ann in attrs.items() if any(x in ann for x in NON_PERSISTABLE)}
    unp = None
    for st in tcls.node.body:
        if isinstance(st, ast.Assign) and unparse(st.targets[0]) == '_UNPICKABLE_FIELDS':
            unp = {const(e) for e in st.value.elts}
    if unp is None:
        raise AnalysisError('Transfer._UNPICKABLE_FIELDS vanished')
    ck.ob('R-C17-FIELDS', tcls, tcls.node, 'the fields dropped when persisting are exactly the run-time-only ones (tasks, lock, listeners, speed log, snapshot)',
          unp == volatile, f'_UNPICKABLE_FIELDS={sorted(unp)}; non-persistable by declared type={sorted(volatile)}: '
          f'missing {sorted(volatile - unp)} (pickling a Task/Lock fails or resurrects a stale object), extra {sorted(unp - volatile)} (field lost on restart)',
          construct='unpickable == volatile')
    # __getstate__: copies __dict__, deletes exactly the unpickable, replaces state by VALUE
    src = unparse(gst.node)
    loops = [n for n in walk_local(gst.node) if isinstance(n, ast.For) and '_UNPICKABLE_FIELDS' in unparse(n.iter)]
    cp = pfind(gst.node, '$d = self.__dict__.copy()') + pfind(gst.node, '$d = dict(self.__dict__)')
    OS = cp[0][1]['d'] if len(cp) == 1 else 'obj_state'
    # removals of a key of the copy (del / pop) that are not the documented `state` handling: exactly the one in the loop over the unpickable names
    dels = [(n, k_) for n, k_ in key_removals(gst.node, OS) if not isinstance(k_, ast.Constant)]
    ok = len(cp) == 1 and len(loops) == 1 and len(dels) == 1 and any(a is loops[0] for a in ancestors(dels[0][0])) and unparse(dels[0][1]) == unparse(loops[0].target) and \
        not [1 for n, k_ in key_removals(gst.node, OS) if isinstance(k_, ast.Constant) and k_.value not in unp]
    if not ok and not cp:
        # the same copy as one expression: {k: v for k, v in self.__dict__.items() if k not in self._UNPICKABLE_FIELDS}
        for n in walk_local(gst.node):
            if isinstance(n, ast.Assign) and len(n.targets) == 1 and isinstance(n.targets[0], ast.Name) and isinstance(n.value, ast.DictComp) and len(n.value.generators) == 1:
                g_ = n.value.generators[0]
                if isinstance(g_.target, ast.Tuple) and len(g_.target.elts) == 2 and unparse(g_.iter) == 'self.__dict__.items()' and \
                        unparse(n.value.key) == unparse(g_.target.elts[0]) and unparse(n.value.value) == unparse(g_.target.elts[1]) and len(g_.ifs) == 1:
                    t_ = g_.ifs[0]
                    if isinstance(t_, ast.Compare) and len(t_.ops) == 1 and isinstance(t_.ops[0], ast.NotIn) and unparse(t_.left) == unparse(g_.target.elts[0]) and \
                            unparse(t_.comparators[0]).endswith('._UNPICKABLE_FIELDS'):
                        OS2 = n.targets[0].id
                        ok = not [1 for n2, k_ in key_removals(gst.node, OS2) if not (isinstance(k_, ast.Constant) and k_.value in unp)]
    ck.ob('R-C17-FIELDS', gst, gst.node, '__getstate__ persists a copy of every attribute except the unpickable ones', ok, '', construct='getstate copies all but unpickable')
    sv = [n for n in walk_local(gst.node) if isinstance(n, ast.Assign) and "['state']" in unparse(n.targets[0])]
    ok = len(sv) == 1 and unparse(sv[0].value).endswith("['state'].VALUE")
    ck.ob('R-C17-FIELDS', gst, gst.node, '__getstate__ stores the state as its enum VALUE', ok, '', construct='getstate state value')
    # __setstate__: restores state via init_from_state, dict update, re-creates every volatile field
    recreated = {t.attr for n in walk_local(sst.node) if isinstance(n, ast.Assign) for t in n.targets if isinstance(t, ast.Attribute) and unparse(t.value) == 'self'}
    ck.ob('R-C17-FIELDS', sst, sst.node, '__setstate__ re-creates every run-time-only field', recreated >= volatile,
          f're-created {sorted(recreated)}; missing {sorted(volatile - recreated)}: the loaded transfer lacks the attribute (AttributeError on first use)',
          construct='setstate recreates volatile')
    c = eng.cfg(sst)
    upd = [x for x in calls_in(sst.node) if call_name(x) == 'update' and '__dict__' in unparse(x.func.value)]
    ok = len(upd) == 1
    if ok:
        un = c.nodes_for(upd[0])[0]
        for n in walk_local(sst.node):
            if isinstance(n, ast.Assign) and any(isinstance(t, ast.Attribute) and unparse(t.value) == 'self' and t.attr in volatile for t in n.targets):
                if un not in c.dominators()[c.nodes_for(n)[0]]:
                    ok = False
    ck.ob('R-C17-FIELDS', sst, sst.node, 'the run-time-only fields are re-created after the stored dict was applied (a stale stored value cannot win)', ok, '',
          construct='setstate order')
    ifs = [x for x in calls_in(sst.node) if call_name(x) == 'init_from_state']
    OBJ = [p_ for p_ in sst.params if p_ != 'self'][0]
    ok = len(ifs) == 1 and len(ifs[0].args) >= 2 and phas(ifs[0].args[0], f"{OBJ}['state']") and unparse(ifs[0].args[1]) == 'self'
    ck.ob('R-C17-FIELDS', sst, sst.node, '__setstate__ maps the stored enum back to a state object bound to this transfer', ok, '', construct='setstate state object')
    for n in walk_local(sst.node):
        if isinstance(n, ast.Assign) and isinstance(n.targets[0], ast.Subscript) and unparse(n.targets[0].value) == [p_ for p_ in sst.params if p_ != 'self'][0]:
            k = const(n.targets[0].slice)
            if k != 'state':
                ck.ob('R-C17-FIELDS', sst, n, f'legacy default for `{k}` names a real attribute', k in attrs, f'{k} is not an attribute of Transfer', construct=f'legacy default {k}')
    # state registry exhaustive and unambiguous
    states = state_classes(eng)
    senum = None
    base = eng.cls('TransferState', TSTATE)
    for st in base.node.body:
        if isinstance(st, ast.ClassDef) and st.name == 'State':
            senum = [t.id for x in st.body if isinstance(x, ast.Assign) for t in x.targets if isinstance(t, ast.Name)]
    vals = {}
    for sc in repo.subclasses(base):
        for st in sc.node.body:
            if isinstance(st, ast.Assign) and unparse(st.targets[0]) == 'VALUE':
                vals.setdefault(enum_member(st.value), []).append(sc.name)
    ok = senum is not None and all(len(vals.get(m, [])) == 1 for m in senum if m != 'UNSET')
    ck.ob('R-C17-FIELDS', base, base.node, 'every State member except UNSET has exactly one state class (init_from_state is total and unambiguous)', ok,
          f'{ {m: vals.get(m) for m in (senum or [])} }', construct='state registry')
    ifn = eng.func(TSTATE, 'TransferState.init_from_state')
    ok = '__subclasses__()' in unparse(ifn.node) and any(isinstance(n, ast.Raise) for n in walk_local(ifn.node)) and \
        any(isinstance(n, ast.Return) and isinstance(n.value, ast.Call) and unparse(n.value.args[0]) == ifn.params[2] for n in walk_local(ifn.node))
    ck.ob('R-C17-FIELDS', ifn, ifn.node, 'init_from_state instantiates the matching subclass for the given transfer and raises for an unknown value', ok, '',
          construct='init_from_state')
    tss = eng.func(TSTATE, 'TransferState.__setstate__')
    from . import defs as _defs
    ok = _defs.state_lock_wrapping(eng, ck, 'R-C17-FIELDS', only=('__init__', '__setstate__'))['__setstate__'] and any(call_name(x) == 'update' for x in calls_in(tss.node))
    ck.ob('R-C17-FIELDS', tss, tss.node, 'a loaded state object gets its methods wrapped with the state lock again', ok, '', construct='state setstate wraps')
    eq = eng.func(TMODEL, 'Transfer.__eq__')
    eq_fields = sorted({n.attr for n in walk_local(eq.node) if isinstance(n, ast.Attribute) and unparse(n.value) == 'self'})
    ck.ob('R-C17-FIELDS', eq, eq.node, 'transfer identity is (remote_path, username, direction)', eq_fields == ['direction', 'remote_path', 'username'], f'{eq_fields}',
          construct='identity fields')

    # ---- R-C17-REPAIR
    rc = eng.func(TM, 'TransferManager.read_cache')
    ck.visited(rc)
    c = eng.cfg(rc)
    loops = [n for n in walk_local(rc.node) if isinstance(n, ast.For)]
    ok = len(loops) == 1 and 'cache.read()' in unparse(expand_aliases(rc, loops[0].iter))
    ck.ob('R-C17-REPAIR', rc, rc.node, 'read_cache iterates every stored transfer', ok, '', construct='repair loop')
    if loops:
        lp = loops[0]
        body_in = [n for n in c.nodes if n.kind == 'join' and n.info == ('loop_body', lp)]
        head = c.nodes_for(lp)
        tv = lp.target.id

        def every_iteration(pred, what, key):
            targets = [n for n in c.nodes if n.ast is not None and n.kind == 'stmt' and pred(n.ast)]
            p = c.find_path(body_in, lambda n: n in head, avoid=lambda n: n in targets, edge_ok=lambda a, b, lab: lab == 'next') if body_in else 'x'
            ck.ob('R-C17-REPAIR', rc, lp, what, bool(targets) and p is None,
                  f'an iteration can finish without it: lines {c.describe_path(p, rc.where) if p and p != "x" else ""}', construct=key)
        every_iteration(lambda s: isinstance(s, ast.Assign) and unparse(s.targets[0]) == f'{tv}.remotely_queued' and const(s.value) is False,
                        'the remote-queue mark of every loaded transfer is cleared, whatever its state', 'repair clears remotely_queued')
        every_iteration(lambda s: any(call_name(x) == 'add' and unparse(x.func.value) == 'self' and x.args and unparse(x.args[0]) == tv for x in calls_in(s)),
                        'every loaded transfer is registered through add() (listeners, scheduling)', 'repair adds every transfer')
        # processing states are repaired
        ip = eng.func(TMODEL, 'Transfer.is_processing')
        proc = set()
        for r in [n for n in walk_local(ip.node) if isinstance(n, ast.Return)]:
            a = cmp_atom(r.value)
            if a:
                proc = enum_members_in(a[2])
        def admitted_by(e: ast.AST, pol: bool) -> Optional[set]:
            """the states a guard atom admits: is_transferring() / is_processing() taken true, or `state.VALUE ==/in <members>` (through aliases)"""
            if not pol:
                return None
            if isinstance(e, ast.Call) and call_name(e) == 'is_transferring':
                return {'DOWNLOADING', 'UPLOADING'}
            if isinstance(e, ast.Call) and call_name(e) == 'is_processing':
                return {'DOWNLOADING', 'UPLOADING', 'INITIALIZING'}
            x = expand_aliases(rc, e)
            a = cmp_atom(x)
            if a and a[0] in ('eq', 'in', 'is') and mentions_attr(a[1], 'state') and enum_members_in(a[2]):
                return set(enum_members_in(a[2]))
            return None
        def admitted_states(node) -> set:
            """states a transfer can be in when `node` runs: the dominating guards intersected (a guard taken false removes its states)"""
            adm = set(states)
            for e_, pol_, _ in eng.guards_at(rc, node):
                s_ = admitted_by(e_, True)
                if s_ is not None:
                    adm = adm & s_ if pol_ else adm - s_
            return adm
        covered = set()
        for x in calls_in(lp):
            if call_name(x) == 'queue' and isinstance(x.func, ast.Attribute) and mentions_attr(x.func.value, 'state') and admitted_states(x) == {'INITIALIZING'}:
                covered.add('INITIALIZING')
        for f_, s_, v_ in eng.stores_to_attr('state', [rc]):
            if admitted_states(s_) == {'DOWNLOADING', 'UPLOADING'}:
                covered |= {'DOWNLOADING', 'UPLOADING'}
        ck.ob('R-C17-REPAIR', rc, lp, f'every in-progress state {sorted(proc)} has a repair branch', proc <= covered and bool(proc), f'covered {sorted(covered)}',
              construct='repair covers processing states')
        it = eng.func(TMODEL, 'Transfer.is_transferring')
        tr = set()
        for r in [n for n in walk_local(it.node) if isinstance(n, ast.Return)]:
            a = cmp_atom(r.value)
            if a:
                tr = enum_members_in(a[2])
        ck.ob('R-C17-REPAIR', it, it.node, 'is_transferring() = DOWNLOADING or UPLOADING', tr == {'DOWNLOADING', 'UPLOADING'}, f'{sorted(tr)}', construct='is_transferring states')
        # transferring -> COMPLETE iff is_transfered else INCOMPLETE
        from .c04 import is_transfered_definition
        is_transfered_definition(eng, ck, 'R-C17-REPAIR')
        inst = [x for x in calls_in(lp) if call_name(x) == 'init_from_state' and len(x.args) >= 2]
        SV = unparse(inst[0].args[0]) if len(inst) == 1 else 'state'
        row = {}
        for n in [n for n in walk_local(lp) if isinstance(n, ast.Assign) and unparse(n.targets[0]) == SV]:
            for conds, leaf in cond_values(eng, rc, n):
                for e, pol in conds:
                    if call_name(e) == 'is_transfered' and enum_member(leaf):
                        row[pol] = enum_member(leaf)
        ck.ob('R-C17-REPAIR', rc, lp, 'a transfer caught transferring becomes COMPLETE iff all bytes had arrived, else INCOMPLETE', row == {True: 'COMPLETE', False: 'INCOMPLETE'},
              f'{row}', construct='repair transferring')
        st_store = [s for f, s, v in eng.stores_to_attr('state', [rc])]
        ok = len(st_store) == 1 and len(inst) == 1 and inst[0] in list(ast.walk(st_store[0].value)) and unparse(inst[0].args[1]) == tv and \
            isinstance(st_store[0].targets[0], ast.Attribute) and unparse(st_store[0].targets[0].value) == tv and \
            admitted_states(st_store[0]) == {'DOWNLOADING', 'UPLOADING'}
        ck.ob('R-C17-REPAIR', rc, lp, 'the repaired state object is installed on the transfer', ok, '', construct='repair installs state')
    # repairs that go through the state machine must be defined for EVERY state the guard admits (an undefined operation is a silent refusal)
    for x in calls_in(rc.node):
        if isinstance(x.func, ast.Attribute) and isinstance(x.func.value, ast.Attribute) and x.func.value.attr == 'state' and x.func.attr in \
                ('queue', 'complete', 'incomplete', 'fail', 'abort', 'pause', 'initialize', 'start_transferring'):
            admitted = admitted_states(x) if loops else set(states)
            undefined = sorted(v for v in admitted if v in states and x.func.attr not in states[v].methods)
            ck.ob('R-C17-REPAIR', rc, x, f'repair `state.{x.func.attr}()` is a defined transition for every state it can be applied to here {sorted(admitted)}',
                  not undefined, f'{x.func.attr}() is not defined for {undefined}: the base class refuses silently and the transfer stays in that state',
                  construct=f'repair op {x.func.attr} defined for admitted states')
    ad = eng.func(TM, 'TransferManager.add')
    ck.visited(ad)
    TP = [p_ for p_ in ad.params if p_ != 'self'][0]
    ok = phas(ad.node, f'{TP}.state_listeners.append(self)') and phas(ad.node, f'self._transfers.append({TP})') and bool(calls_on(ad.node, 'request_management_cycle'))
    ck.ob('R-C17-REPAIR', ad, ad.node, 'add() subscribes the manager to state changes, stores the transfer and requests a cycle', ok, '', construct='add registers')
    dup = [n for n in walk_local(ad.node) if isinstance(n, ast.Return) and any(pol and (cmp_atom(e) or ('',))[0] == 'eq' for e, pol, _ in eng.guards_at(ad, n))]
    ck.ob('R-C17-REPAIR', ad, ad.node, 'add() keeps one transfer per identity (an equal one is returned, not duplicated)', len(dup) == 1, '', construct='add dedups')
    ld = eng.func(TM, 'TransferManager.load_data')
    ck.ob('R-C17-REPAIR', ld, ld.node, 'load_data reads the cache', any(not eng.guards_at(ld, x) for x in calls_on(ld.node, 'read_cache')), '', construct='load_data reads')

    from . import defs
    defs.transfer_identity(eng, ck, 'R-C17-REPAIR')
    defs.transfer_state_sets(eng, ck, 'R-C17-REPAIR', which=('is_processing',))
    store_on_stop_rule(eng, ck)
    # ---- R-C17-WRITE
    w = eng.func(TCACHE, 'TransferShelveCache.write')
    ck.visited(w)
    def shelf_name(fn: FuncInfo) -> str:
        for n_ in walk_local(fn.node):
            if isinstance(n_, (ast.With, ast.AsyncWith)):
                for it_ in n_.items:
                    if it_.optional_vars is not None and isinstance(it_.optional_vars, ast.Name) and any(call_name(x_) == 'open' for x_ in ast.walk(it_.context_expr)):
                        return it_.optional_vars.id
        return 'database'
    DB = shelf_name(w)
    stores = [n for n in walk_local(w.node) if isinstance(n, ast.Assign) and isinstance(n.targets[0], ast.Subscript) and unparse(n.targets[0].value) == DB]
    ok = len(stores) == 1 and any(isinstance(a, ast.For) and unparse(a.iter) == w.params[1] for a in ancestors(stores[0])) and not eng.guards_at(w, stores[0])
    ck.ob('R-C17-WRITE', w, w.node, 'write() stores every current transfer', ok, '', construct='write stores all')
    pops = [x for x in calls_in(w.node) if call_name(x) in ('pop',) and unparse(x.func.value) == DB] + \
           [n for n in walk_local(w.node) if isinstance(n, ast.Delete) and mentions_name(n, DB)]
    # the keys popped are collected from the shelf's items under `not any(<current transfer> == <stored record>)`
    stale = []
    for x in pops:
        lp_ = next((a_ for a_ in ancestors(x) if isinstance(a_, ast.For)), None)
        if lp_ is None or not isinstance(lp_.iter, ast.Name):
            continue
        for cnd in collected(eng, w, lp_.iter.id):
            it_ok = cnd['iter'] is not None and unparse(cnd['iter']) in (f'{DB}.items()', f'{DB}.keys()', DB)
            neg_any = [e for e, pol in cnd['conds'] if (not pol) and call_name(e) == 'any']
            others = [e for e, pol in cnd['conds'] if not ((not pol) and call_name(e) == 'any')]
            cmp_ok = False
            for e in neg_any:
                g_ = e.args[0] if e.args and isinstance(e.args[0], (ast.GeneratorExp, ast.ListComp)) else None
                a_ = cmp_atom(g_.elt) if g_ is not None else None
                if a_ and a_[0] == 'eq' and len(g_.generators) == 1 and unparse(g_.generators[0].iter) == w.params[1] and not g_.generators[0].ifs:
                    cmp_ok = True
            if it_ok and cmp_ok and not others:
                stale.append(cnd)
                continue
            # second form of the same decision: the identity of every current transfer is collected ONCE into a set, a stored record is
            # stale when its identity is not in it.  "Identity" has to be what Transfer.__eq__ compares (remote_path, username,
            # direction): the same fields, in the same order on both sides.  A record that is not a Transfer at all may be dropped too
            # (it equals no transfer).
            IDENT = {'remote_path', 'username', 'direction'}

            def ident_tuple(e_: ast.AST):
                """(variable, [field, ..]) for `(v.a, v.b, v.c)`"""
                if isinstance(e_, ast.Tuple) and e_.elts and all(isinstance(x_, ast.Attribute) and isinstance(x_.value, ast.Name) for x_ in e_.elts) and \
                        len({x_.value.id for x_ in e_.elts}) == 1:
                    return e_.elts[0].value.id, [x_.attr for x_ in e_.elts]
                return None

            def stale_by_set(e_: ast.AST, pol_: bool) -> bool:
                a_ = cmp_atom(e_)
                if not (a_ and a_[0] == 'in' and not pol_):
                    return False
                lhs = ident_tuple(a_[1])
                st_ = expand_aliases(w, a_[2])
                if lhs is None or not isinstance(st_, ast.SetComp) or len(st_.generators) != 1 or st_.generators[0].ifs or unparse(st_.generators[0].iter) != w.params[1]:
                    return False
                rhs = ident_tuple(st_.elt)
                return rhs is not None and rhs[0] == unparse(st_.generators[0].target) and rhs[1] == lhs[1] and set(lhs[1]) == IDENT and len(lhs[1]) == 3
            atoms = []
            for e, pol in cnd['conds']:
                if pol and isinstance(e, ast.BoolOp) and isinstance(e.op, ast.Or):
                    atoms.append([(x_, True) for x_ in e.values])
                else:
                    atoms.append([(e, pol)])
            by_set = it_ok and len(atoms) == 1 and any(stale_by_set(*split_conj(x_, p_)[0]) if len(split_conj(x_, p_)) == 1 else False for x_, p_ in atoms[0]) and all(
                (len(split_conj(x_, p_)) == 1 and stale_by_set(*split_conj(x_, p_)[0])) or
                (isinstance(x_, ast.UnaryOp) and isinstance(x_.op, ast.Not) and call_name(x_.operand) == 'isinstance' and 'Transfer' in unparse(x_.operand)) for x_, p_ in atoms[0])
            if by_set:
                stale.append(cnd)
    ck.ob('R-C17-WRITE', w, w.node, 'write() deletes every stored record that equals no current transfer (removed transfers are gone)', bool(pops) and len(stale) == 1, '',
          construct='write drops stale')
    stop = eng.func('client.py', 'SoulSeekClient.stop')
    c = eng.cfg(stop)
    sd = [n for x in calls_in(stop.node) if call_name(x) == 'store_data' for n in c.nodes_for(x)]
    # the gather over the tasks returned by service.stop()
    stop_lists = {x.func.value.id for x in calls_in(stop.node) if call_name(x) in ('extend', 'append') and isinstance(x.func.value, ast.Name) and
                  any(call_name(y) == 'stop' for y in ast.walk(x))}
    ga = [n for x in calls_in(stop.node) if call_name(x) == 'gather' and names_in(x) & stop_lists for n in c.nodes_for(x)]
    ok = bool(sd) and bool(ga) and all(ga[0] in c.dominators()[n] for n in sd)
    ck.ob('R-C17-WRITE', stop, stop.node, 'stop() writes the caches after the cancelled tasks were awaited (final states are persisted)', ok, '', construct='stop stores after gather')
    sdm = eng.func(TM, 'TransferManager.store_data')
    ck.ob('R-C17-WRITE', sdm, sdm.node, 'store_data writes the transfer cache', bool(calls_on(sdm.node, 'write_cache')), '', construct='store_data writes')
    wc = eng.func(TM, 'TransferManager.write_cache')
    ck.ob('R-C17-WRITE', wc, wc.node, 'write_cache passes the full transfer list', phas(wc.node, 'self.cache.write(self._transfers)'), '', construct='write_cache list')
    r = eng.func(TCACHE, 'TransferShelveCache.read')
    rrets = [n for n in walk_local(r.node) if isinstance(n, ast.Return) and n.value is not None]
    ok = len(rrets) == 1
    if ok:
        rdb = shelf_name(r)
        rv = rrets[0].value
        if isinstance(rv, ast.Name):
            got = collected(eng, r, rv.id)
            ok = len(got) == 1 and got[0]['iter'] is not None and unparse(got[0]['iter']) in (f'{rdb}.items()', f'{rdb}.values()') and not got[0]['conds'] and \
                isinstance(got[0]['elt'], ast.Name) and got[0]['elt'].id in names_in(got[0]['target']) and \
                (unparse(got[0]['iter']).endswith('.values()') or (isinstance(got[0]['target'], ast.Tuple) and len(got[0]['target'].elts) == 2 and
                                                                 unparse(got[0]['target'].elts[1]) == got[0]['elt'].id))
        else:
            ok = unparse(rv) in (f'list({rdb}.values())', f'[*{rdb}.values()]')
    ck.ob('R-C17-WRITE', r, r.node, 'read() returns every stored record', ok, '', construct='read all')

    # ---- R-C17-KEY
    # the local used as subscript of the shelf in `database[key] = transfer`
    key_names = {unparse(st_.targets[0].slice) for st_ in stores if isinstance(st_.targets[0].slice, ast.Name)}
    tvar = next((a_.target.id for st_ in stores for a_ in ancestors(st_) if isinstance(a_, ast.For) and isinstance(a_.target, ast.Name)), 'transfer')
    keys = [n for n in walk_local(w.node) if isinstance(n, ast.Assign) and unparse(n.targets[0]) in key_names]
    ck.floor('R-C17-KEY', len(keys), 1)
    for k in keys:
        material = None
        for x in ast.walk(k.value):
            if isinstance(x, ast.Call) and call_name(x) == 'encode':
                material = x.func.value
        if material is None:
            raise AnalysisError('R-C17-KEY: key derivation idiom not recognised')
        used = sorted({n.attr for n in ast.walk(material) if isinstance(n, ast.Attribute) and unparse(n.value) == tvar})
        ck.ob('R-C17-KEY', w, k, 'the cache key is derived from the identity fields', used == ['direction', 'remote_path', 'username'], f'{used}', construct='key fields')
        # injective encoding: plain concatenation of >= 2 variable-length strings is not
        parts = []

        def flat(e):
            if isinstance(e, ast.BinOp) and isinstance(e.op, ast.Add):
                flat(e.left)
                flat(e.right)
            else:
                parts.append(e)
        flat(material)
        var_strs = [p for p in parts if not isinstance(p, ast.Constant) and 'direction' not in unparse(p)]
        seps = [p for p in parts if isinstance(p, ast.Constant)]
        injective = not (len(parts) > 1 and len(var_strs) >= 2 and not seps) or isinstance(material, (ast.Tuple, ast.JoinedStr)) and False
        if isinstance(material, ast.Call) and call_name(material) in ('repr', 'str') and material.args and isinstance(material.args[0], ast.Tuple):
            injective = True
        if isinstance(material, ast.Call) and call_name(material) == 'join' and isinstance(material.func.value, ast.Constant):
            sep = material.func.value.value
            injective = sep in ('\0', '\x00', '\n')
        ck.ob('R-C17-KEY', w, k, 'the key encoding is injective on (username, remote_path, direction): different transfers never share a key',
              injective, f'key material `{unparse(material)}` concatenates {len(var_strs)} variable-length strings without a delimiter or length prefix: '
              '("ab","c") and ("a","bc") hash to the same key, one record overwrites the other', construct='key injective')
    defs.job_raises_nothing_typed(eng, ck, 'R-C17-REPAIR', TM, 'TransferManager._management_job', 'loaded transfers are picked up by the scheduling job, which runs before the first login')


def store_on_stop_rule(eng: Engine, ck: Check):
    """R-C17-WRITE (stop): SoulSeekClient.stop() ends by writing every service's cache.  The transfer list is written whatever the OTHER
    services' store_data() do (the shares index is the large file: full disk, vanished directory, an application-supplied cache that
    raises): the calls are gathered -- each runs to its end before the first failure is re-raised -- or each is protected on its own."""
    st = eng.func('client.py', 'SoulSeekClient.stop')
    ck.visited(st)
    calls = [x for x in calls_in(st.node) if call_name(x) == 'store_data']
    ck.floor('R-C17-WRITE.store_on_stop', len(calls), 1)
    for x in calls:
        gathered = any(isinstance(a_, ast.Call) and call_name(a_) == 'gather' for a_ in ancestors(x))
        if not gathered and not isinstance(parent(x), ast.Await):
            # the coroutines are only CREATED here (collected in a list) and started together by one gather(*list)
            par = parent(x)
            lst = unparse(par.func.value) if isinstance(par, ast.Call) and call_name(par) in ('append', 'add') and isinstance(par.func, ast.Attribute) else None
            if lst is None:
                stx = enclosing_stmt(x)
                lst = unparse(stx.targets[0]) if isinstance(stx, ast.Assign) and isinstance(stx.value, (ast.ListComp, ast.List)) else None
            gathered = lst is not None and any(call_name(g_) == 'gather' and any(isinstance(a_, ast.Starred) and unparse(a_.value) == lst for a_ in g_.args) and
                                               isinstance(parent(g_), ast.Await) for g_ in calls_in(st.node))
        own_try = protected_by_try_catching(eng, st, x, 'Exception', 'BaseException') is not None and any(isinstance(a_, (ast.For, ast.AsyncFor)) for a_ in ancestors(x)) and \
            any(isinstance(a_, ast.Try) and any(isinstance(b_, (ast.For, ast.AsyncFor)) for b_ in ancestors(a_)) for a_ in ancestors(x))
        single = not any(isinstance(a_, (ast.For, ast.AsyncFor, ast.ListComp, ast.GeneratorExp)) for a_ in ancestors(x))
        ck.ob('R-C17-WRITE', st, x, 'stop() writes the caches of all services independently of each other (gathered, or each call protected on its own)',
              gathered or own_try or (single and False), f'`{unparse(enclosing_stmt(x))[:70]}` awaits the services one after the other: an exception from an earlier one (the shares '
              'index cannot be written) leaves stop() before TransferManager.store_data() runs; nothing of this session is persisted', construct='store_data isolated on stop')
