"""C10 — connection life cycle monotone; registry exact."""
from __future__ import annotations
from .common import *
from sa.engine import ReleaseSummaries

ORDER = ['UNINITIALIZED', 'CONNECTING', 'CONNECTED', 'CLOSING', 'CLOSED']


def set_state_calls(fn: FuncInfo) -> list[tuple[ast.Call, str]]:
    out = []
    for c in calls_in(fn.node):
        if call_name(c) == 'set_state' and c.args:
            m = enum_member(c.args[0])
            if m in ORDER:
                out.append((c, m))
    return out


def opened_stream_rule(eng: Engine, ck: Check, rule: str, relies: str):
    """A stream that `asyncio.open_connection` handed back is either taken over by the connection (writer stored in `self._writer`, state
    reported CONNECTED) or closed ON THE SPOT (`writer.close()`): on every path from the successful open to an exit of connect().  The
    path on which a concurrent disconnect() overtook the connect is the delicate one: the state is already CLOSED there, so
    `self.disconnect()` returns at its idempotence guard and closes nothing -- the socket has to be closed directly."""
    f = eng.func(CONN, 'DataConnection.connect')
    ck.visited(f)
    c = eng.cfg(f)
    opens = [x for x in calls_in(f.node) if call_name(x) == 'open_connection']
    ck.floor(rule + '.open_connection', len(opens), 1)
    for x in opens:
        st = enclosing_stmt(x)
        wname = None
        if isinstance(st, ast.Assign) and isinstance(st.targets[0], ast.Tuple) and len(st.targets[0].elts) == 2:
            wname = unparse(st.targets[0].elts[1])
        names = {wname, 'self._writer'} - {None}

        def settles(n) -> bool:
            if n.ast is None:
                return False
            for y in ast.walk(n.ast) if not isinstance(n.ast, (ast.If, ast.While, ast.For, ast.Try, ast.With, ast.AsyncWith)) else []:
                if isinstance(y, ast.Call) and call_name(y) == 'close' and isinstance(y.func, ast.Attribute) and unparse(y.func.value) in names:
                    return True
                if isinstance(y, ast.Call) and call_name(y) == 'set_state' and y.args and enum_member(y.args[0]) == 'CONNECTED':
                    return True
            return False
        starts = [s_ for n in c.nodes_for(x) for s_, lab in n.succ if lab == 'next']
        p = c.find_path(starts, lambda n: n.kind.startswith('exit'), avoid=settles,
                        edge_ok=lambda a, b, lab: lab == 'next' or (lab == 'exc' and isinstance(a.ast, ast.Raise)))
        if p is None and any(n.kind.startswith('exit') for n in starts):
            p = [(starts[0], 'next')]
        ck.ob(rule, f, x, f'the stream opened by connect() is taken over (CONNECTED) or closed directly on every path out of connect() ({relies})', p is None,
              ('path ' + c.describe_path(p, f.where) + ' leaves connect() with the socket open and nobody holding it to account: `disconnect()` on a connection that is '
               'already CLOSED returns at its guard, the transport stays registered with the loop, the remote end never sees EOF') if p else '',
              construct='opened stream settled')


def run(eng: Engine, ck: Check):
    repo = eng.repo
    conn_mod = repo.module(CONN)
    exc = eng.exc_model()

    # ---- R-C10-SETSTATE: state and _is_closing are written synchronously, before the first suspension
    ss = eng.func(CONN, 'Connection.set_state')
    c = eng.cfg(ss)
    stores = [(f, st, v) for f, st, v in eng.stores_to_attr('state', [ss])] + \
             [(f, st, v) for f, st, v in eng.stores_to_attr('_is_closing', [ss])]
    ck.floor('R-C10-SETSTATE', len(stores), 2)
    for f, st, v in stores:
        n = c.nodes_for(st)[0]
        s = c.suspension_between(c.entry, n)
        ck.ob('R-C10-SETSTATE', ss, st, f'`{unparse(st)}` happens before the first suspension point of set_state',
              s is None, f'suspension at line {s.lineno} precedes the store' if s else '')
    # _is_closing is exactly "state in {CLOSING, CLOSED}" and is written nowhere else
    for f, st, v in eng.stores_to_attr('_is_closing'):
        if f.name == '__init__':
            ck.ob('R-C10-ISCLOSING', f, st, '_is_closing starts False', const(v) is False,
                  f'initial value {unparse(v)}')
            continue
        ok = f is ss
        detail = '' if ok else 'written outside Connection.set_state'
        if ok:
            mem = set()
            a = cmp_atom(v) if v is not None else None
            if a and a[0] == 'in':
                rhs = a[2]
                ch = attr_chain(rhs)
                if ch and ch[-1] == '_CLOSING_STATES':
                    for cst in repo.cls('Connection', CONN).node.body:
                        if isinstance(cst, (ast.Assign, ast.AnnAssign)) and '_CLOSING_STATES' in unparse(
                                cst.targets[0] if isinstance(cst, ast.Assign) else cst.target):
                            mem = enum_members_in(cst.value)
                else:
                    mem = enum_members_in(rhs)
            ok = mem == {'CLOSING', 'CLOSED'}
            detail = f'value is `{unparse(v)}` covering {sorted(mem)}, expected exactly CLOSING, CLOSED'
        ck.ob('R-C10-ISCLOSING', f, st, '_is_closing == (state in {CLOSING, CLOSED}), written only by set_state', ok,
              detail, construct=alpha_key(st))
    # state has no writer other than set_state / __init__
    for f, st, v in eng.stores_to_attr('state'):
        if f.module.rel != CONN:
            continue
        if f.cls is None or not repo.is_subclass(f.cls, 'Connection'):
            continue
        ok = f is ss or f.name == '__init__'
        ck.ob('R-C10-STATE-OWNER', f, st, 'Connection.state is written only in set_state/__init__', ok,
              f'`{unparse(st)}` in {f.qualname}', construct=alpha_key(st))

    # ---- R-C10-MONO: typestate of set_state on data connections
    scope = [f for f in repo.all_funcs() if f.module.rel in (CONN, NET)]
    all_calls = [(f, call, m) for f in scope for call, m in set_state_calls(f)]
    ck.floor('R-C10-MONO', len(all_calls), 8)
    for f, call, m in all_calls:
        ck.visited(f)
        recv = receiver_str(call)
        cf = eng.cfg(f)
        nodes = cf.nodes_for(call)
        listening = f.cls is not None and f.cls.name == 'ListeningConnection' and recv == 'self'
        if listening:
            ck.note(f'set_state({m}) on the listening connection itself at {f.where(call)} (outside the property)')
        if m in ('CONNECTING', 'CONNECTED'):
            # (a) after a suspension point the state may have moved to CLOSING/CLOSED: need a re-check
            for n in nodes:
                s = cf.suspension_between(cf.entry, n)
                if s is None:
                    ck.ob('R-C10-MONO', f, call, f'set_state({m}) on {recv}: no suspension point precedes it', True,
                          construct=f'set_state({m}) on {recv}')
                    continue

                def is_state_guard(e, pol):
                    return mentions_attr(e, 'state', '_is_closing') and not mentions_attr(e, 'connection_state')
                g = eng.guarded_by(f, call, is_state_guard, no_suspension=True)
                ok = g is not None
                if listening:
                    # property speaks about peer connections; the listening socket has a single owner
                    ok = True
                ck.ob('R-C10-MONO', f, call,
                      f'set_state({m}) on {recv} after a suspension point is guarded by a re-check of the state',
                      ok, f'suspension at line {s.lineno} (the connection may have been closed meanwhile) and no '
                          f'state guard dominates the call without a further suspension',
                      construct=f'set_state({m}) on {recv}')
                # .. and that re-check admits only states from which {m} is a step FORWARD: the states that pass all the fresh state
                # tests (those with no suspension between test and call) are computed as sets of enum members
                if not listening:
                    ORDER = ['UNINITIALIZED', 'CONNECTING', 'CONNECTED', 'CLOSING', 'CLOSED']
                    adm = set(ORDER)
                    for e_, pol_, a_ in eng.guards_at(f, call):
                        if any(cf.suspension_between(a_, n2) is not None for n2 in cf.nodes_for(call)):
                            continue
                        for e2, p2 in split_conj(expand_aliases(f, e_), pol_):
                            if mentions_attr(e2, 'connection_state'):
                                continue
                            a2 = cmp_atom(e2)
                            if a2 and a2[0] in ('eq', 'is', 'in') and mentions_attr(a2[1], 'state') and enum_members_in(a2[2]) & set(ORDER):
                                named = enum_members_in(a2[2]) & set(ORDER)
                                adm &= named if p2 else set(ORDER) - named
                            elif mentions_attr(e2, '_is_closing') and not a2:
                                adm &= {'CLOSING', 'CLOSED'} if p2 else set(ORDER) - {'CLOSING', 'CLOSED'}
                    back = sorted(x for x in adm if ORDER.index(x) >= ORDER.index(m))
                    ck.ob('R-C10-MONO', f, call, f'the re-check before set_state({m}) on {recv} lets through only states that precede {m}', not back,
                          f'the fresh state tests admit {sorted(adm)}: from {back} the report of {m} goes BACKWARDS (a connection that another task is closing '
                          f'reports CLOSING, {m}, CLOSED and clears _is_closing in between)', construct=f'set_state({m}) on {recv} admits only earlier states')
        if m == 'CLOSING' and not listening:
            # (c) idempotence guard, and CLOSED on every exit
            def closing_guard(e, pol):
                r = state_guard(e, pol, 'state', {'CLOSING', 'CLOSED'})
                if r is False:
                    return True
                return (not pol) and mentions_attr(e, '_is_closing') and not isinstance(e, ast.Compare)
            g = eng.guarded_by(f, call, closing_guard, no_suspension=True)
            ck.ob('R-C10-IDEMPOTENT', f, call, 'set_state(CLOSING) is reached only when not already CLOSING/CLOSED',
                  g is not None, 'no dominating guard `state not in (CLOSING, CLOSED)` / `not _is_closing`',
                  construct='idempotence guard of disconnect')
            rel = lambda n: n.ast is not None and n.kind == 'stmt' and any(
                mm == 'CLOSED' for cc, mm in [(x, enum_member(x.args[0])) for x in calls_named(n.ast, 'set_state')
                                              if x.args])
            leaks = eng.leak_paths(f, call, rel)
            ck.ob('R-C10-CLOSED-ALWAYS', f, call,
                  'after set_state(CLOSING) every exit (return, exception, cancellation) passes set_state(CLOSED)',
                  not leaks, '; '.join(f'{k} reachable without CLOSED via {p}' for k, p in leaks),
                  construct='CLOSING -> CLOSED on all exits')
    # (b) connect() is called on peer connections only when freshly constructed in the same function
    for f in repo.all_funcs():
        if f.module.rel == CONN and f.name == 'connect':
            continue
        for call in calls_on(f.node, 'connect'):
            r = call.func.value
            ts = eng.res.expr_types(r, f)
            if not any(t.name == 'PeerConnection' for t in ts):
                continue
            fresh = False
            if isinstance(r, ast.Name):
                for n in walk_local(f.node):
                    if isinstance(n, ast.Assign) and any(isinstance(t, ast.Name) and t.id == r.id for t in n.targets) \
                            and isinstance(n.value, ast.Call) and call_name(n.value) == 'PeerConnection':
                        fresh = True
            ck.ob('R-C10-FRESH', f, call, f'`{unparse(call)}`: peer connection is constructed in the same function '
                  '(only the server connection may go from CLOSED back to CONNECTING)', fresh,
                  'receiver is not a locally constructed PeerConnection', construct=f'{recv_name(r)}.connect()')

    # ---- R-C10-AFTER-CLOSED
    sm = eng.func(CONN, 'DataConnection.send_message')
    sends = calls_on(sm.node, '_send')
    ck.floor('R-C10-AFTER-CLOSED.send', len(sends), 1)
    a_sm = sm.node.args
    sm_defaults = dict(zip([x.arg for x in a_sm.args][len(a_sm.args) - len(a_sm.defaults):], a_sm.defaults))
    sm_defaults.update({x.arg: d for x, d in zip(a_sm.kwonlyargs, a_sm.kw_defaults) if d is not None})
    for call in sends:
        g = eng.guarded_by(sm, call, lambda e, pol: (not pol) and mentions_attr(e, '_is_closing'))
        # a `_send` on an OPT-IN path (under a test of a parameter that is false for the default value: `if raw:` with raw=False) is not what
        # `send_message(message)` does; it is judged at the callers that opt in -- only the connection's own raw-data path may (send_data
        # called `_send` directly before and never looked at _is_closing either)
        opt_in = [unparse(e) for e, pol, _ in eng.guards_at(sm, call) if isinstance(e, ast.Name) and e.id in sm_defaults and
                  isinstance(sm_defaults[e.id], ast.Constant) and bool(sm_defaults[e.id].value) != pol]
        if g is None and opt_in:
            users = [(f_, x) for f_ in repo.all_funcs() for x in calls_on(f_.node, 'send_message') if any(k.arg in opt_in for k in x.keywords)]
            outside = [f_.qualname for f_, x in users if f_.module.rel != CONN or unparse(x.func.value) != 'self']
            ck.ob('R-C10-AFTER-CLOSED', sm, call, f'the opt-in path of send_message ({opt_in}) is used only by the connection\'s own raw-data path', not outside,
                  f'used from {outside}', construct='send opt-in path owners')
            continue
        ck.ob('R-C10-AFTER-CLOSED', sm, call, 'send_message does not write once the connection is closing/closed',
              g is not None, 'the `_send` call is not dominated by `not self._is_closing`',
              construct='send guarded by _is_closing')
    rl = eng.func(CONN, 'DataConnection._message_reader_loop')
    # the dispatch: a call of the helper that performs the network callback, or the callback itself when written in place
    dc_ = eng.cls('DataConnection', CONN)
    cb_helpers = {m_.name for m_ in dc_.methods.values() if m_ is not rl and calls_on(m_.node, 'on_message_received')}
    cbs = [x for x in calls_in(rl.node) if (call_name(x) in cb_helpers and isinstance(x.func, ast.Attribute) and unparse(x.func.value) == 'self')
           or call_name(x) == 'on_message_received']
    ck.floor('R-C10-AFTER-CLOSED.dispatch', len(cbs), 1)
    for call in cbs:
        g = eng.guarded_by(rl, call, lambda e, pol: (not pol) and mentions_attr(e, '_is_closing'), no_suspension=True)
        ck.ob('R-C10-AFTER-CLOSED', rl, call, 'reader loop does not dispatch a message once closing/closed',
              g is not None, 'dispatch not dominated by a `not self._is_closing` test made after the read',
              construct='dispatch guarded by _is_closing')

    from . import defs as _defs_emit
    _defs_emit.event_bus_emit_contains(eng, ck, 'R-C10-CLOSED-ALWAYS', 'set_state() awaits the state report of every connection; an escaping listener failure turns a close into an exception in the closing task')
    _defs_emit.identity_semantics(eng, ck, 'R-C10-REGISTRY', [('PeerConnection', CONN), ('ServerConnection', CONN), ('ListeningConnection', CONN)],
                                  'the registry removes a closed connection with `in` / list.remove(); two connections to one endpoint are different connections')
    opened_stream_rule(eng, ck, 'R-C10-CLOSED-ALWAYS', 'a connection reported CLOSED holds no open socket')
    from .c02 import logger_adapter_total
    logger_adapter_total(eng, ck, 'R-C10-CLOSED-ALWAYS')      # disconnect() logs between CLOSING and CLOSED: an exception there leaves the connection in CLOSING
    _defs_emit.enum_members_distinct(eng, ck, 'R-C10-TYPESTATE', [('ConnectionState', CONN), ('CloseReason', CONN), ('PeerConnectionState', CONN)], 'every life-cycle test compares against one state')
    # ---- R-C10-REGISTRY
    net_cls = repo.cls('Network', NET)
    adders = eng.mutations_of_attr('peer_connections', ['append', 'add', 'insert', 'extend'])
    removers = eng.mutations_of_attr('peer_connections', ['remove', 'pop', 'clear', 'discard'])
    ck.floor('R-C10-REGISTRY.add', len(adders), 3)
    ck.floor('R-C10-REGISTRY.remove', len(removers), 1)
    for f, call in removers:
        ck.ob('R-C10-REGISTRY', f, call, 'peer_connections is shrunk only by Network.remove_peer_connection',
              f.qualname == 'Network.remove_peer_connection', f'removal in {f.qualname}', construct=alpha_key(call))
    for f, st, v in eng.stores_to_attr('peer_connections'):
        ck.ob('R-C10-REGISTRY', f, st, 'peer_connections is re-bound only in Network.__init__',
              f.qualname == 'Network.__init__', f'store in {f.qualname}', construct=alpha_key(st))
    # the unregistration is reached from Network.on_state_changed, directly or through one private handler; the guards along that
    # chain must be exactly: "it is a PeerConnection" and "the new state is CLOSED"
    osc = eng.func(NET, 'Network.on_state_changed')

    def chain(fn: FuncInfo, acc: list, depth: int):
        out = []
        for call in calls_in(fn.node):
            gs = acc + [(e, pol) for e, pol, _ in eng.guards_at(fn, call)]
            if call_name(call) == 'remove_peer_connection':
                out.append((fn, call, gs))
            elif depth > 0 and isinstance(call.func, ast.Attribute) and unparse(call.func.value) == 'self':
                for cal in eng.res.callees(call, fn):
                    if cal.cls is fn.cls and cal is not fn and cal.name != 'remove_peer_connection':
                        out += chain(cal, gs, depth - 1)
        return out
    rm = chain(osc, [], 2)
    ck.floor('R-C10-REGISTRY.closed', len(rm), 1)
    for fn_, call, gs in rm:
        ck.visited(fn_)
        only_closed = any(state_guard(e, pol, 'state', {'CLOSED'}) is True or
                          (pol and isinstance(e, ast.Compare) and mentions_name(e, 'state') and
                           enum_members_in(e) == {'CLOSED'}) for e, pol in gs)
        is_peer = any(isinstance(e, ast.Call) and call_name(e) == 'isinstance' and mentions_name(e, 'PeerConnection') and pol for e, pol in gs)
        extra = [unparse(e) for e, pol in gs if not (mentions_name(e, 'state') or mentions_attr(e, 'state') or
                                                     (isinstance(e, ast.Call) and call_name(e) == 'isinstance'))]
        ck.ob('R-C10-REGISTRY', fn_, call, 'a peer connection is unregistered exactly when it reports CLOSED '
              '(on_state_changed -> [handler ->] remove_peer_connection, conditional on nothing but the connection type and the new state)',
              only_closed and is_peer and not extra, f'guards along the chain: {[unparse(e) + ("" if p else " [negated]") for e, p in gs]}',
              construct='remove on CLOSED')
    # ... and nothing suspends between the moment the connection reports CLOSED (set_state -> on_state_changed) and its removal:
    # a listener that suspends (or a cancellation delivered while it does) would leave a CLOSED connection registered for good
    def first_hops(fn: FuncInfo, target_call: ast.Call, depth: int = 2):
        """the calls in `fn` through which target_call is reached (target itself if it is in fn)"""
        if any(x is target_call for x in calls_in(fn.node)):
            return [(fn, target_call)]
        out_ = []
        if depth > 0:
            for call_ in calls_in(fn.node):
                for cal in eng.res.callees(call_, fn):
                    if cal.cls is fn.cls and cal is not fn:
                        sub = first_hops(cal, target_call, depth - 1)
                        if sub:
                            out_ += [(fn, call_)] + sub
        return out_
    for fn_, call, gs in rm:
        bad_s = None
        for hop_fn, hop_call in first_hops(osc, call):
            c_ = eng.cfg(hop_fn)
            for n_ in c_.nodes_for(hop_call):
                s_ = c_.suspension_between(c_.entry, n_)
                # the await of the hop itself is the call we follow, not a suspension before it
                if s_ is not None and not any(x is hop_call for x in ast.walk(s_.ast) if isinstance(x, ast.Call)):
                    bad_s = (hop_fn, s_)
        ck.ob('R-C10-REGISTRY', fn_, call, 'the unregistration follows the CLOSED report without a suspension in between (listeners are notified afterwards)',
              bad_s is None, (f'{bad_s[0].qualname} suspends at line {bad_s[1].lineno} before the registry is updated: the CLOSED event reaches listeners '
                              'first; a listener that suspends, or a cancellation delivered meanwhile, skips the removal and the connection stays registered')
              if bad_s else '', construct='remove before notify')
    for caller, call, how in eng.res.callers_of(eng.func(NET, 'Network.remove_peer_connection')):
        ck.ob('R-C10-REGISTRY', caller, call, 'remove_peer_connection is called only on the CLOSED path of on_state_changed',
              any(call is c_ for _, c_, _g in rm), f'called from {caller.qualname}', construct=f'{caller.qualname} unregisters')
    ck.ob('R-C10-REGISTRY', ss, ss.node, 'set_state reports every change to network.on_state_changed',
          len(calls_on(ss.node, 'on_state_changed')) == 1 and not eng.guards_at(ss, calls_on(ss.node, 'on_state_changed')[0])
          if calls_on(ss.node, 'on_state_changed') else False,
          'call missing or conditional', construct='set_state -> on_state_changed')
    # every append: on every exceptional/cancelled exit after it the connection has been disconnected
    for f, call in adders:
        if not call.args:
            continue
        var = unparse(call.args[0])
        rs = ReleaseSummaries(eng, 'disconnect')
        rel = lambda n, var=var: rs.is_release_node(n, {var})
        c = eng.cfg(f)
        ok_edge = rs.edge_filter(f, {var})
        acq = c.nodes_for(call)
        starts = [s for a in acq for s, lab in a.succ if lab == 'next']
        leaks = []
        for kind in ('exit_raise', 'exit_cancel'):
            p = c.find_path(starts, lambda n, k=kind: n.kind == k, avoid=rel, edge_ok=ok_edge)
            if p:
                leaks.append((kind, c.describe_path(p, f.where)))
        ck.ob('R-C10-REGISTRY-PAIR', f, call,
              f'after `{unparse(call)}` every exceptional or cancelled exit of {f.qualname} passes `{var}.disconnect()` '
              '(otherwise the connection stays registered without an owner)', not leaks,
              '; '.join(f'{k} reachable via lines {p}' for k, p in leaks), construct=f'register {var}')

    # ---- R-C10-ERRCLOSE: _read/_send close on every error
    for q in ('DataConnection._read', 'DataConnection._send'):
        f = eng.func(CONN, q)
        c = eng.cfg(f)
        hs = [n for n in c.nodes if n.kind == 'handler' and n in c.reachable_nodes()]
        ck.floor(f'R-C10-ERRCLOSE.{q}', len(hs), 2)
        disc = eng.release_pred(f, lambda c2: call_name(c2) == 'disconnect' and receiver_str(c2) == 'self', depth=0)
        for hnode in hs:
            p = c.find_path([hnode], lambda n: n.kind in ('exit_return', 'exit_raise'), avoid=disc,
                            edge_ok=lambda a, b, lab: lab == 'next' or isinstance(a.ast, ast.Raise))
            ck.ob('R-C10-ERRCLOSE', f, hnode.ast, f'handler `except {", ".join(handler_type_names(hnode.ast)) or "*"}` '
                  'disconnects before leaving', p is None,
                  f'leaves without disconnect via {c.describe_path(p, f.where) if p else ""}',
                  construct=f'except {",".join(handler_type_names(hnode.ast))}')
        # the awaited I/O is covered by a catch-all
        for n in c.nodes:
            if n.suspends and n.ast is not None and n.kind == 'stmt' and not eng.handler_context(f, n.ast) \
                    and not calls_named(n.ast, 'disconnect'):
                t = protected_by_try_catching(eng, f, n.ast, 'Exception', 'BaseException')
                ck.ob('R-C10-ERRCLOSE', f, n.ast, f'I/O await `{unparse(n.ast)[:50]}` is inside a try with a catch-all handler',
                      t is not None, 'no enclosing `except Exception`', construct=alpha_key(n.ast))


def recv_name(r: ast.AST) -> str:
    return chain_str(r) or unparse(r)
