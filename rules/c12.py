"""C12 — replies complete exactly the requests they answer; timeouts are timeouts."""
from __future__ import annotations
from .common import *

CLIENT = 'client.py'
CMDS = 'commands.py'


def done_guard_for(recv: str):
    def pred(e, pol):
        # only `done()` establishes "pending": a future that was COMPLETED is done but not cancelled
        if isinstance(e, ast.Call) and call_name(e) == 'done' and isinstance(e.func, ast.Attribute) and \
                unparse(e.func.value) == recv:
            return not pol
        return False
    return pred


def run(eng: Engine, ck: Check):
    repo = eng.repo
    # ---- R-C12-FUTURE: typestate of every completion
    sites = []
    for f in repo.all_funcs():
        for c in calls_in(f.node):
            if call_name(c) in ('set_result', 'set_exception') and isinstance(c.func, ast.Attribute):
                sites.append((f, c))
    ck.floor('R-C12-FUTURE', len(sites), 3)
    for f, c in sites:
        ck.visited(f)
        recv = unparse(c.func.value)
        g = eng.guarded_by(f, c, done_guard_for(recv), no_suspension=True)
        in_try = protected_by_try_catching(eng, f, c, 'InvalidStateError', 'Exception', 'BaseException') is not None
        # a subscripted receiver inside try/except KeyError+InvalidStateError is the transfer manager idiom
        fresh = False
        if isinstance(c.func.value, ast.Name):
            v = single_assignments(f).get(c.func.value.id)
            if isinstance(v, ast.Call) and call_name(v) in ('Future', 'create_future', 'ExpectedResponse', 'PeerFuture'):
                cf = eng.cfg(f)
                dn = [n for n in cf.nodes if n.ast is not None and any(x is v for x in ast.walk(n.ast))]
                fresh = bool(dn) and all(cf.suspension_between(dn[0], n) is None for n in cf.nodes_for(c))
        cancelled_ctx = in_handler_catching(eng, f, c, 'TimeoutError', 'CancelledError') and not in_try
        ok = (g is not None or in_try or fresh) and not (cancelled_ctx and g is None)
        why = 'the future may already be done (cancelled by a timeout, completed by an earlier message, or cancelled but not yet removed ' \
              'from the table): set_* raises asyncio.InvalidStateError'
        if cancelled_ctx:
            why = 'inside the timeout handler the awaited future has just been cancelled by the timeout: set_exception() raises ' \
                  'asyncio.InvalidStateError, which replaces the TimeoutError the caller should get'
        ck.ob('R-C12-FUTURE', f, c, f'`{unparse(c)[:60]}` is reached only with a pending future (`not {recv}.done()` guard without a '
              'suspension in between, try/except InvalidStateError, or a future created in the same step)', ok, why,
              construct=f'{f.qualname}: {call_name(c)} on {recv}')
    # ---- R-C12-ITER: the completion loop visits every registered waiter
    omr = eng.func(NET, 'Network.on_message_received')
    ck.visited(omr)
    loops = [n for n in walk_local(omr.node) if isinstance(n, ast.For) and mentions_attr(expand_aliases(omr, n.iter), '_expected_response_futures')]
    ck.floor('R-C12-ITER', len(loops), 1)
    for lp in loops:
        it_ = expand_aliases(omr, lp.iter)
        # anything but a snapshot (list(..), tuple(..), sorted(..), a list comprehension, a slice) walks the live list
        direct = not ((isinstance(it_, ast.Call) and call_name(it_) in ('list', 'tuple', 'sorted', 'copy')) or isinstance(it_, (ast.ListComp, ast.Subscript)))
        muts = [c for st in lp.body for c in calls_in(st) if call_name(c) in ('remove', 'pop', 'append', 'insert', 'clear', 'extend')
                and mentions_attr(c.func.value, '_expected_response_futures')]
        dels = [n for st in lp.body for n in ast.walk(st) if isinstance(n, ast.Delete) and mentions_attr(n, '_expected_response_futures')]
        # ... also through a function that mutates the list (the done-callback `_remove_response_future` called by hand, or anything that calls it)
        mutators = {f_ for f_, _c in eng.mutations_of_attr('_expected_response_futures', ['remove', 'pop', 'append', 'insert', 'clear', 'extend'])}
        for _ in range(2):
            for f_ in list(repo.all_funcs()):
                if f_ not in mutators and f_.module.rel == NET and any(cal in mutators for x_ in calls_in(f_.node) for cal in eng.res.callees(x_, f_)):
                    mutators.add(f_)
        muts += [c for st in lp.body for c in calls_in(st) if any(cal in mutators for cal in eng.res.callees(c, omr))]
        ck.ob('R-C12-ITER', omr, lp, 'the list of pending requests is not modified while it is being iterated '
              '(removing during iteration skips the next waiter)', not ((muts or dels) and direct),
              f'loop over `{unparse(lp.iter)}` contains `{unparse((muts + dels)[0])[:60]}`' if (muts or dels) else '',
              construct='completion loop no mutation')
        exits = [n for st in lp.body for n in ast.walk(st) if isinstance(n, (ast.Break, ast.Return))]
        ck.ob('R-C12-ITER', omr, lp, 'every pending request that the message answers is completed (no break/return in the loop)', not exits,
              f'loop is left early at line {exits[0].lineno}' if exits else '', construct='completion loop complete')
        susp = [n for st in lp.body for n in walk_local(st) if isinstance(n, ast.Await)]
        ck.ob('R-C12-ITER', omr, lp, 'the completion loop does not suspend (the list cannot change under it)', not susp or not direct,
              'await inside the loop over the live list', construct='completion loop atomic')
        ms = [c for st in lp.body for c in calls_in(st) if call_name(c) == 'matches']
        ok = len(ms) == 1 and [unparse(a) for a in ms[0].args] == [omr.params[2], omr.params[1]]
        srs = [c for st in lp.body for c in calls_in(st) if call_name(c) == 'set_result']
        ok2 = len(srs) == 1 and any(pol and isinstance(e, ast.Call) and call_name(e) == 'matches' for e, pol, _ in eng.guards_at(omr, srs[0]))
        ck.ob('R-C12-MATCH', omr, lp, 'a waiter is completed iff matches(connection, message) holds for this very message', ok and ok2,
              f'matches args {[unparse(a) for m in ms for a in m.args]}', construct='complete iff matches')
        if srs:
            v = srs[0].args[0] if srs[0].args else None
            ok = isinstance(v, ast.Tuple) and [unparse(e) for e in v.elts] == [omr.params[2], omr.params[1]]
            ck.ob('R-C12-MATCH', omr, srs[0], 'the result delivered is (connection, message) of the received message', ok, unparse(v),
                  construct='result value')
        # after the handler map and the event emission
        c = eng.cfg(omr)
        ln = c.nodes_for(lp)
        em = [n for call in calls_on(omr.node, 'emit') for n in c.nodes_for(call)]
        p = c.find_path([c.entry], lambda n: n in ln, avoid=lambda n: n in em)
        ck.ob('R-C12-MATCH', omr, lp, 'futures are completed after the internal handlers and the event emission ran', bool(em) and p is None,
              'completion loop reachable before emit', construct='complete after handlers')

    # the emission that precedes the completion loop must not be able to raise: a failing listener (application code) would otherwise
    # propagate out of on_message_received and the reply would never complete its requests
    from . import defs
    escm = eng.escape()
    defs.event_bus_emit_contains(eng, ck, 'R-C12-MATCH', 'on_message_received awaits emit() before it completes the waiting requests: every request waiting for that '
                                 'reply would time out although it was answered')
    defs.waiters_are_fresh(eng, ck, 'R-C12-REMOVE', 'every request is completed, timed out and removed on its own')
    defs.identity_semantics(eng, ck, 'R-C12-REMOVE', [('ExpectedResponse', NET)], 'the done-callback removes the finished waiter with `in` / list.remove(); two '
                            'requests for the same message are different waiters')
    emits = [x for x in calls_on(omr.node, 'emit')]
    pre = []
    for st in omr.node.body:
        if any(isinstance(n, ast.For) and mentions_attr(expand_aliases(omr, n.iter), '_expected_response_futures') for n in ast.walk(st)):
            break
        pre.append(st)
    typed = sorted({t for st in pre for t in escm._stmt(omr, st, frozenset()) if t not in ('*', '<cancel>')})
    ck.ob('R-C12-MATCH', omr, omr.node, 'no typed exception can leave on_message_received before the completion loop', not typed, f'{typed}',
          construct='completion loop reached')

    # ---- R-C12-MATCH: ExpectedResponse.matches
    m = eng.func(NET, 'ExpectedResponse.matches')
    ck.visited(m)
    falses = [n for n in walk_local(m.node) if isinstance(n, ast.Return) and const(n.value) is False]
    conn_p, resp_p = [p_ for p_ in m.params if p_ != 'self'][:2]
    flat = [(e, pol, r) for r in falses for e, pol, _ in expanded_guards(eng, m, r)]
    # `if A or B: return False` rejects when A holds and rejects when B holds: each disjunct of a guard taken true is a sufficient reason
    for e, pol, r in list(flat):
        if isinstance(e, ast.BoolOp) and isinstance(e.op, ast.Or) and pol:
            for v_ in e.values:
                parts = split_conj(v_, True)
                if len(parts) == 1:
                    flat.append((parts[0][0], parts[0][1], r))

    def rejects_unequal(lhs: str, rhs: str, within=None) -> bool:
        """some `return False` is reached exactly when lhs != rhs (guard atom lhs == rhs false / lhs != rhs true)"""
        eq = pat.compile_pattern(f'{lhs} == {rhs}')[0]
        ne = pat.compile_pattern(f'{lhs} != {rhs}')[0]
        return any(((not pol) and pat.match(e, eq) is not None) or (pol and pat.match(e, ne) is not None)
                   for e, pol, r in flat if within is None or within in list(ancestors(r)))
    ck.ob('R-C12-MATCH', m, m.node, 'matches() rejects a message from another connection class',
          rejects_unequal(f'{conn_p}.__class__', 'self.connection_class') or rejects_unequal(f'type({conn_p})', 'self.connection_class'),
          str([(unparse(e), pol) for e, pol, _ in flat])[:200], construct='matches connection class')
    ck.ob('R-C12-MATCH', m, m.node, 'matches() rejects another message class',
          rejects_unequal(f'{resp_p}.__class__', 'self.message_class') or rejects_unequal(f'type({resp_p})', 'self.message_class'), '', construct='matches message class')
    ck.ob('R-C12-MATCH', m, m.node, 'matches() rejects a message from another peer', rejects_unequal(f'{conn_p}.username', 'self.peer'), '', construct='matches peer')
    floops = [n for n in walk_local(m.node) if isinstance(n, ast.For) and pat.match(n.iter, pat.compile_pattern('self.fields.items()')[0]) is not None
              and isinstance(n.target, ast.Tuple) and len(n.target.elts) == 2]
    ok = False
    if not floops:
        # the loop runs over something else than `self.fields.items()`.  A one-shot iterator kept in an attribute is reported by the pitfall layer;
        # a sequence computed per call by code this rule cannot evaluate (a property building a generator pipeline ..) is NOT DECIDED here: exit 2
        cand = [n for n in walk_local(m.node) if isinstance(n, ast.For) and isinstance(n.target, ast.Tuple) and len(n.target.elts) == 2]
        prop = [n for n in cand if isinstance(n.iter, ast.Attribute) and unparse(n.iter.value) == 'self' and n.iter.attr in m.cls.methods and
                any(unparse(d_) == 'property' for d_ in m.cls.methods[n.iter.attr].node.decorator_list)]
        if prop:
            raise AnalysisError(f'R-C12-MATCH: matches() iterates `{unparse(prop[0].iter)}`, a property whose value is computed per call by code outside the fragment; '
                                'whether it visits exactly the expected fields is not decided')
    if len(floops) == 1:
        kx, vx = (unparse(x) for x in floops[0].target.elts)
        ok = rejects_unequal(f'getattr({resp_p}, {kx}, $$)', vx, within=floops[0])
    ck.ob('R-C12-MATCH', m, m.node, 'matches() rejects a message whose field differs from the expected value', ok,
          str([(unparse(e), pol) for e, pol, _ in flat])[:300], construct='matches fields')
    loops = [n for n in walk_local(m.node) if isinstance(n, ast.For)]
    ok = len(loops) == 1 and loops == floops
    ck.ob('R-C12-MATCH', m, m.node, 'matches() iterates all expected fields', ok, '', construct='matches iterates fields')
    trues = [n for n in walk_local(m.node) if isinstance(n, ast.Return) and const(n.value) is True]
    ok = len(trues) == 1 and not any(isinstance(a, (ast.For, ast.While)) for a in ancestors(trues[0]) if a is not m.node)
    if ok:
        # every condition on the way to `return True` is the negation of a rejecting test, and the field loop has been passed
        rej = {(unparse(e), pol) for e, pol, r in flat}
        def negates_reject(e, pol) -> bool:
            if (unparse(e), not pol) in rej:
                return True
            # `not (x and y and z)`: the rejecting `if x and y and z: return False` was not taken
            if isinstance(e, ast.BoolOp) and isinstance(e.op, ast.And) and not pol:
                return all(any((unparse(a_), p_) in rej for a_, p_ in split_conj(v_, True)) for v_ in e.values)
            return False
        ok = all(negates_reject(e, pol) for e, pol, _ in expanded_guards(eng, m, trues[0]))
        if ok and len(floops) == 1:
            cm = eng.cfg(m)
            tn, ln = cm.nodes_for(trues[0]), cm.nodes_for(floops[0])
            ok = cm.find_path([cm.entry], lambda n: n in tn, avoid=lambda n: n in ln) is None
    ck.ob('R-C12-MATCH', m, m.node, 'matches() returns True only after every test passed (single `return True` at the end)', ok,
          f'{len(trues)} return True statements', construct='matches returns True last')
    early = [n for lp in loops for st in lp.body for n in ast.walk(st) if isinstance(n, ast.Return) and const(n.value) is not False]
    for r in early:
        ck.ob('R-C12-MATCH', m, r, 'a callable matcher decides for its field only', False,
              f'`{unparse(r)}` returns from inside the field loop: fields after a callable matcher are not compared '
              '(no caller combines a callable with further fields today)', construct='callable matcher early return', advisory=True)

    # ---- R-C12-REMOVE: waiter residue
    acq = eng.mutations_of_attr('_expected_response_futures', ['append'])
    # registration sites: direct appends plus calls of the functions that append (a refactoring may route every creator through one of them)
    reg_calls = [(c_, x_) for f_, _a in acq for c_, x_, how_ in eng.res.callers_of(f_) if how_ == 'call' and f_.name.startswith('register')]
    ck.floor('R-C12-REMOVE', len(acq) + len(reg_calls), 3)
    removers: set[str] = set()
    for f, a in acq:
        ck.visited(f)
        fut = unparse(a.args[0])
        # the remover is whatever method of the network is attached as done-callback here; it is checked below
        cbs = [c for c in calls_on(f.node, 'add_done_callback') if unparse(c.func.value) == fut and c.args and
               (chain_str(c.args[0]) or '').startswith('self.') and eng.repo.find_func(NET, 'Network.' + chain_str(c.args[0])[5:]) is not None]
        ok = len(cbs) == 1 and not eng.guards_at(f, cbs[0]) and not f.is_async
        if ok:
            removers.add(chain_str(cbs[0].args[0])[5:])
        ck.ob('R-C12-REMOVE', f, a, f'{f.name}: a registered waiter removes itself when done or cancelled (done-callback attached in the same step)',
              ok, 'add_done_callback(<remover of the network>) missing/conditional', construct=f'{f.name} attaches remover')
    ck.floor('R-C12-REMOVE.removers', len(removers), 1)
    for rn_ in sorted(removers):
        rrf = eng.func(NET, f'Network.{rn_}')
        ck.visited(rrf)
        fp_ = [p_ for p_ in rrf.params if p_ != 'self']
        rem = [c for c in calls_in(rrf.node) if call_name(c) == 'remove' and mentions_attr(c.func.value, '_expected_response_futures') and
               len(c.args) == 1 and fp_ and unparse(c.args[0]) == fp_[0]]
        ok = len(rem) == 1 and (any(pol and (cmp_atom(e) or ('',))[0] == 'in' for e, pol, _ in eng.guards_at(rrf, rem[0])) or
                                protected_by_try_catching(eng, rrf, rem[0], 'ValueError') is not None)
        ck.ob('R-C12-REMOVE', rrf, rrf.node, 'the done-callback removes the finished waiter from the table and tolerates one that is already gone', ok, '',
              construct='remover tolerant')
    for f, st, v in eng.stores_to_attr('_expected_response_futures'):
        ck.ob('R-C12-REMOVE', f, st, 'the waiter table is re-bound only in Network.__init__', f.qualname == 'Network.__init__', f.qualname,
              construct=alpha_key(st))

    # ---- R-C12-TIMEOUT: named waiters are done or cancelled on every exit; timeout maps to TimeoutError
    creators = ('create_server_response_future', 'create_peer_response_future')
    named = []
    for f in repo.all_funcs():
        if f.module.rel == 'network/network.py' and f.name == '_make_indirect_connection':
            continue        # C11
        for n in walk_local(f.node):
            if isinstance(n, ast.Assign) and isinstance(n.value, ast.Call) and call_name(n.value) in creators and \
                    isinstance(n.targets[0], ast.Name):
                named.append((f, n, n.targets[0].id))
    ck.floor('R-C12-TIMEOUT', len(named), 2)
    for f, st, nm in named:
        ck.visited(f)
        c = eng.cfg(f)

        def rel(n: Node, nm=nm) -> bool:
            if n.ast is None or n.kind not in ('stmt',):
                return False
            for x in walk_local(n.ast):
                if isinstance(x, ast.Await) and isinstance(x.value, ast.Name) and x.value.id == nm:
                    return True       # awaiting the bare future: cancellation/timeout of the waiter cancels the future
                if isinstance(x, ast.Call) and call_name(x) == 'cancel' and isinstance(x.func, ast.Attribute) and unparse(x.func.value) == nm:
                    return True
            return False
        leaks = eng.leak_paths(f, st, rel, exits=('exit_raise', 'exit_cancel', 'exit_return'))
        ck.ob('R-C12-TIMEOUT', f, st, f'{f.name}: waiter `{nm}` is awaited to completion or cancelled on every exit', not leaks,
              '; '.join(f'{k} via lines {p}' for k, p in leaks), construct=f'{f.name} waiter {nm} released')
    for q in ('Network.wait_for_server_message', 'Network.wait_for_peer_message'):
        f = eng.func(NET, q)
        hs = [h for h in walk_local(f.node) if isinstance(h, ast.ExceptHandler)]
        for h in hs:
            names = handler_type_names(h)
            if not any(x in ('TimeoutError', 'Exception', 'BaseException', 'CancelledError') for x in names) and names:
                continue
            rer = [n for n in h.body if isinstance(n, ast.Raise) and n.exc is None]
            other_raise = [n for n in walk_local(h) if isinstance(n, ast.Raise) and n.exc is not None and 'TimeoutError' not in unparse(n.exc)]
            ck.ob('R-C12-TIMEOUT', f, h, f'{f.name}: on timeout the caller gets the TimeoutError (handler re-raises it)', bool(rer) and not other_raise,
                  'timeout handler does not re-raise the TimeoutError', construct=f'{f.name} timeout re-raised')
        at = [n for n in walk_local(f.node) if isinstance(n, ast.AsyncWith) and any(call_name(i.context_expr) in ('atimeout', 'timeout') for i in n.items)]
        ok = len(at) == 1 and 'timeout' in f.params and unparse(at[0].items[0].context_expr.args[0]) == 'timeout'
        ck.ob('R-C12-TIMEOUT', f, f.node, f'{f.name}: the wait is bounded by the caller\'s timeout', ok, '', construct=f'{f.name} timeout bound')

    # ---- R-C12-SENDFAIL / ordering in execute
    ex = eng.func(CLIENT, 'SoulSeekClient.execute')
    ck.visited(ex)
    c = eng.cfg(ex)
    send = calls_on(ex.node, 'send')
    reg = calls_on(ex.node, 'register_response_future')
    bld = calls_on(ex.node, 'build_expected_response')
    ck.floor('R-C12-SENDFAIL', min(len(send), len(reg), len(bld)), 1)
    if send and reg and bld:
        sn, rn, bn = c.nodes_for(send[0]), c.nodes_for(reg[0]), c.nodes_for(bld[0])
        # the waiter is registered before the command is sent: no path leads from the send to the registration,
        # and the expected response is built before the send
        late = any(r in c.reach_from(sn) for r in rn)
        built_first = all(any(b_ in c.dominators()[s_] for b_ in bn) for s_ in sn)
        ck.ob('R-C12-SENDFAIL', ex, reg[0], 'execute(): the waiter is built and registered before the command is sent (a fast reply cannot be missed)',
              not late and built_first, 'the registration is reachable after the send', construct='register before send')
        t = protected_by_try_catching(eng, ex, send[0], 'Exception', 'BaseException')
        ok = False
        if t is not None:
            for h in t.handlers:
                canc = [x for x in calls_in(h) if call_name(x) == 'cancel' and
                        ('response_future' in unparse(x.func.value) or any(mentions_name(leaf_, 'response_future') and all(
                            not (mentions_name(e_, 'response') and not pol_) for e_, pol_ in conds_) for conds_, leaf_ in ifexp_cases(expand_aliases(ex, x.func.value, 1))
                            if not is_none_const(leaf_)))]
                rer = [n for n in walk_local(h) if isinstance(n, ast.Raise) and n.exc is None]
                ok = bool(canc) and bool(rer)
        ck.ob('R-C12-SENDFAIL', ex, send[0], 'execute(): if sending fails the registered waiter is cancelled and the error re-raised', ok,
              'send not covered by a handler that cancels response_future and re-raises', construct='send failure cancels waiter')
    aw = [n for n in walk_local(ex.node) if isinstance(n, ast.Await) and isinstance(n.value, ast.Name) and 'future' in n.value.id]
    ok = bool(aw) and all(any(isinstance(a, ast.AsyncWith) and any(call_name(i.context_expr) in ('atimeout', 'timeout') and
                          unparse(i.context_expr.args[0]) == 'timeout' for i in a.items) for a in ancestors(x)) for x in aw)
    ck.ob('R-C12-TIMEOUT', ex, ex.node, 'execute(): the reply wait is bounded by the given timeout', ok, '', construct='execute timeout bound')
    hs = [h for h in walk_local(ex.node) if isinstance(h, ast.ExceptHandler) and any(x in handler_type_names(h) for x in ('TimeoutError',))]
    ck.ob('R-C12-TIMEOUT', ex, ex.node, 'execute(): a timeout reaches the caller as TimeoutError (not converted)', not hs or all(
        any(isinstance(n, ast.Raise) and n.exc is None for n in h.body) for h in hs), '', construct='execute timeout propagates')

    # ---- R-C12-CMD-INIT
    base = eng.cls('BaseCommand', CMDS)
    cmds = repo.subclasses(base)
    ck.floor('R-C12-CMD-INIT.classes', len(cmds), 38)
    n_resp = 0
    for ci in cmds:
        b = ci.methods.get('build_expected_response')
        if b is None:
            continue
        n_resp += 1
        ck.visited(b)
        reads = sorted({n.attr for n in walk_local(b.node) if isinstance(n, ast.Attribute) and isinstance(n.value, ast.Name)
                        and n.value.id == 'self' and isinstance(n.ctx, ast.Load)})
        init = ci.methods.get('__init__')
        for attr in reads:
            if attr in ci.methods or repo.lookup_method(ci, attr):
                continue
            vals = []
            if init is not None:
                vals = [v for f, st, v in eng.stores_to_attr(attr, [init]) if isinstance(st.targets[0] if isinstance(st, ast.Assign) else st.target, ast.Attribute)]
            late = [m.name for m in ci.methods.values() if m.name not in ('__init__',) and any(True for _ in eng.stores_to_attr(attr, [m]))]
            placeholder = bool(vals) and all(is_none_const(v) for v in vals if v is not None)
            ok = bool(vals) and not placeholder
            ck.ob('R-C12-CMD-INIT', b, b.node,
                  f'{ci.name}.build_expected_response (called by execute() BEFORE send()) reads self.{attr}, which must have its final value after __init__',
                  ok, f'self.{attr} is {"a None placeholder in __init__" if placeholder else "not assigned in __init__"}'
                  f'{" and only set in " + ", ".join(late) if late else ""}: the expected reply can never match',
                  construct=f'{ci.name}.{attr} initialised before build_expected_response')
    ck.floor('R-C12-CMD-INIT', n_resp, 24)
