"""Definitions the property rules take for granted.

Round 3 of the seeds (DESIGN.md 13.4) changed what a small helper MEANS and left the functions that use it untouched.  Each function
below pins the meaning of one such helper as an obligation of the calling property (rule id passed in), so that the same definition
can be shared by every property that relies on it.  They are deliberately small and structural (patterns, enum-member sets), and
they accept the equivalent spellings the refactoring controls produced.
"""
from __future__ import annotations
from .common import *


def _single_return(fn: FuncInfo) -> Optional[ast.AST]:
    rets = [n for n in walk_local(fn.node) if isinstance(n, ast.Return) and n.value is not None]
    return expand_aliases(fn, rets[0].value) if len(rets) == 1 else None


def _method(eng: Engine, rel: str, cls: str, name: str) -> FuncInfo:
    ci = eng.cls(cls, rel)
    m = ci.methods.get(name)
    if m is None:
        raise AnalysisError(f'anchor function vanished: {rel}:{cls}.{name}')
    return m


# --------------------------------------------------------------------------- Transfer predicates
def transfer_direction_predicates(eng: Engine, ck: Check, rule: str):
    for name, member in (('is_upload', 'UPLOAD'), ('is_download', 'DOWNLOAD')):
        m = _method(eng, TMODEL, 'Transfer', name)
        ck.visited(m)
        v = _single_return(m)
        a = cmp_atom(v) if v is not None else None
        ok = bool(a and a[0] in ('eq', 'is') and {chain_str(a[1]), chain_str(a[2])} == {'self.direction', f'TransferDirection.{member}'})
        ck.ob(rule, m, m.node, f'Transfer.{name}() is `direction == {member}`', ok, f'returns `{unparse(v) if v is not None else "?"}`',
              construct=f'Transfer.{name} definition')


def transfer_state_sets(eng: Engine, ck: Check, rule: str, which=('is_processing', 'is_transferring', 'is_finalized')):
    want = {'is_processing': {'DOWNLOADING', 'UPLOADING', 'INITIALIZING'}, 'is_transferring': {'DOWNLOADING', 'UPLOADING'},
            'is_finalized': {'COMPLETE', 'ABORTED', 'FAILED'}}
    for name in which:
        m = _method(eng, TMODEL, 'Transfer', name)
        ck.visited(m)
        v = _single_return(m)
        a = cmp_atom(v) if v is not None else None
        ok = bool(a and a[0] == 'in' and chain_str(a[1]) == 'self.state.VALUE' and enum_members_in(a[2]) == want[name])
        ck.ob(rule, m, m.node, f'Transfer.{name}() is `state in {sorted(want[name])}`', ok, f'returns `{unparse(v) if v is not None else "?"}`',
              construct=f'Transfer.{name} definition')


def transfer_identity(eng: Engine, ck: Check, rule: str):
    """Two Transfer objects are equal iff (remote_path, username, direction) agree -- add() de-duplicates with it, the cache drops
    stored records that equal no current transfer."""
    m = _method(eng, TMODEL, 'Transfer', '__eq__')
    ck.visited(m)
    op = [p_ for p_ in m.params if p_ != 'self'][0]
    rets = [n for n in walk_local(m.node) if isinstance(n, ast.Return) and n.value is not None and unparse(n.value) != 'NotImplemented']
    fields_self, fields_other = set(), set()
    ok = len(rets) == 1
    if ok:
        v = expand_aliases(m, rets[0].value)
        ok = isinstance(v, ast.Compare) and len(v.ops) == 1 and isinstance(v.ops[0], ast.Eq)
        if ok:
            for side in (v.left, v.comparators[0]):
                for n in ast.walk(side):
                    if isinstance(n, ast.Attribute) and isinstance(n.value, ast.Name):
                        (fields_self if n.value.id == 'self' else fields_other if n.value.id == op else set()).add(n.attr)
    want = {'remote_path', 'username', 'direction'}
    ck.ob(rule, m, m.node, 'Transfer.__eq__ compares exactly (remote_path, username, direction) of both objects', ok and fields_self == want and fields_other == want,
          f'self fields {sorted(fields_self)}, other fields {sorted(fields_other)}', construct='Transfer identity')


def transfer_get_tasks(eng: Engine, ck: Check, rule: str, slots: list[str]):
    """get_tasks() returns every task slot that is set (the scheduler's "an attempt is in flight" test and cancel_tasks build on it)."""
    m = _method(eng, TMODEL, 'Transfer', 'get_tasks')
    ck.visited(m)
    rets = [n for n in walk_local(m.node) if isinstance(n, ast.Return) and n.value is not None]
    got: set[str] = set()
    ok = len(rets) == 1
    if ok:
        v = rets[0].value
        if isinstance(v, ast.Name):
            for c in calls_in(m.node):
                if isinstance(c.func, ast.Attribute) and c.func.attr in ('append', 'add') and isinstance(c.func.value, ast.Name) and c.func.value.id == v.id and c.args and \
                        isinstance(c.args[0], ast.Attribute) and unparse(c.args[0].value) == 'self':
                    gs = [g for g, pol, _ in eng.guards_at(m, c)]
                    if all(mentions_attr(g, c.args[0].attr) for g in gs):
                        got.add(c.args[0].attr)
        for n in ast.walk(expand_aliases(m, v)):
            if isinstance(n, (ast.List, ast.Tuple)):
                got |= {e.attr for e in n.elts if isinstance(e, ast.Attribute) and unparse(e.value) == 'self'}
    ck.ob(rule, m, m.node, f'Transfer.get_tasks() returns every task slot that is set ({slots})', ok and set(slots) <= got,
          f'slots returned: {sorted(got)}', construct='get_tasks covers slots')


# --------------------------------------------------------------------------- connection: queueing
def queue_messages_definition(eng: Engine, ck: Check, rule: str):
    """queue_messages(*m) = one queue_message per message, in order; queue_message creates the send task for that message and keeps it in
    the connection's own queue."""
    qm = _method(eng, CONN, 'DataConnection', 'queue_messages')
    q1 = _method(eng, CONN, 'DataConnection', 'queue_message')
    ck.visited(qm)
    ck.visited(q1)
    vp = qm.node.args.vararg.arg if qm.node.args.vararg else qm.params[-1]
    calls = [x for x in calls_in(qm.node) if call_name(x) == 'queue_message' and unparse(x.func.value) == 'self']
    ok = len(calls) == 1 and len(calls[0].args) == 1 and isinstance(calls[0].args[0], ast.Name)
    if ok:
        var = calls[0].args[0].id
        binder = next((a for a in ancestors(calls[0]) if isinstance(a, (ast.For, ast.ListComp, ast.GeneratorExp))), None)
        if isinstance(binder, ast.For):
            ok = unparse(binder.iter) == vp and unparse(binder.target) == var and not eng.guards_at(qm, calls[0])
        elif binder is not None:
            g = binder.generators[0]
            ok = len(binder.generators) == 1 and unparse(g.iter) == vp and unparse(g.target) == var and not g.ifs
        else:
            ok = False
    ck.ob(rule, qm, qm.node, 'queue_messages queues every message it is given, once, in order', ok, '', construct='queue_messages definition')
    mp = [p_ for p_ in q1.params if p_ != 'self'][0]
    tasks = [x for x in calls_in(q1.node) if call_name(x) == 'create_task' and x.args and phas(x.args[0], f'self.send_message({mp})')]
    kept = [x for x in calls_in(q1.node) if isinstance(x.func, ast.Attribute) and x.func.attr == 'append' and unparse(x.func.value) == 'self._queued_messages']
    ok = len(tasks) == 1 and len(kept) == 1 and not eng.guards_at(q1, tasks[0])
    ck.ob(rule, q1, q1.node, 'queue_message starts one task sending exactly that message on this connection and keeps it in the connection\'s own queue', ok, '',
          construct='queue_message definition')


def network_send_helpers(eng: Engine, ck: Check, rule: str):
    """send_server_messages / queue_server_messages pass every message to the server connection."""
    for name, via in (('send_server_messages', 'send_message'), ('queue_server_messages', 'queue_messages')):
        m = eng.repo.find_func(NET, f'Network.{name}')
        if m is None:
            raise AnalysisError(f'anchor function vanished: {NET}:Network.{name}')
        ck.visited(m)
        vp = m.node.args.vararg.arg if m.node.args.vararg else [p_ for p_ in m.params if p_ != 'self'][0]
        xs = [x for x in calls_in(m.node) if call_name(x) == via and mentions_attr(x.func, 'server_connection')]
        ok = len(xs) == 1
        if ok:
            x = xs[0]
            star = any(isinstance(a, ast.Starred) and unparse(a.value) == vp for a in x.args)
            loop = next((a for a in ancestors(x) if isinstance(a, (ast.For, ast.ListComp, ast.GeneratorExp))), None)
            if star:
                ok = True
            elif isinstance(loop, ast.For):
                ok = unparse(loop.iter) == vp and x.args and unparse(x.args[0]) == unparse(loop.target)
            elif loop is not None:
                g = loop.generators[0]
                ok = unparse(g.iter) == vp and not g.ifs and x.args and unparse(x.args[0]) == unparse(g.target)
            else:
                ok = False
        ck.ob(rule, m, m.node, f'Network.{name} hands every message it is given to the server connection ({via})', ok, '', construct=f'{name} definition')


# --------------------------------------------------------------------------- shares: lookups go through the lock test
def shared_item_lookups(eng: Engine, ck: Check, rule: str):
    """get_shared_item / find_shared_item / find_shared_item_cache pass the requesting user on to get_shared_item_cache (where the lock
    test raises FileNotSharedError)."""
    for name in ('get_shared_item', 'find_shared_item', 'find_shared_item_cache'):
        m = eng.repo.find_func(SHARES, f'SharesManager.{name}')
        if m is None:
            continue
        ck.visited(m)
        if 'username' not in m.params:
            ck.ob(rule, m, m.node, f'{name} takes the requesting user', False, f'params {m.params}', construct=f'{name} takes user')
            continue
        inner = [x for x in calls_in(m.node) if call_name(x) in ('get_shared_item_cache', 'get_shared_item', 'find_shared_item_cache') and call_name(x) != name]
        passes = [x for x in inner if any(unparse(a) == 'username' for a in x.args) or any(k.arg == 'username' and unparse(k.value) == 'username' for k in x.keywords)]
        ck.ob(rule, m, m.node, f'{name}: every delegated lookup is made for the same requesting user', bool(inner) and len(passes) == len(inner),
              f'lookups {[unparse(x)[:60] for x in inner]}', construct=f'{name} passes user')


# --------------------------------------------------------------------------- utils.cancel_task
def cancel_task_definition(eng: Engine, ck: Check, rule: str):
    m = eng.func('utils.py', 'cancel_task')
    ck.visited(m)
    tp = m.params[0]
    canc = [x for x in calls_in(m.node) if call_name(x) == 'cancel' and unparse(x.func.value) == tp]
    aw = [n for n in walk_local(m.node) if isinstance(n, ast.Await) and mentions_name(n.value, tp)]
    ok = len(canc) == 1 and len(aw) >= 1
    if ok:
        c = eng.cfg(m)
        ok = c.nodes_for(canc[0])[0].id < c.nodes_for(aw[0])[0].id
    ck.ob(rule, m, m.node, 'cancel_task(t) cancels t and then awaits it (the cancelled task has finished its clean-up when cancel_task returns)', ok, '',
          construct='cancel_task definition')


# --------------------------------------------------------------------------- transfer states: public methods run under the state lock
def state_lock_wrapping(eng: Engine, ck: Check, rule: str, only=('__init__', '__setstate__')) -> dict[str, bool]:
    """Every TransferState object re-binds its public methods to the locked wrapper when it is created and when it is un-pickled: by a
    loop over inspect.getmembers(.., ismethod) written in a helper (`_wrap_lock` today) or in place.  -> {method name: wraps}"""
    base = eng.cls('TransferState', TSTATE)
    sites: dict[str, list] = {}
    for m in base.methods.values():
        for c in calls_in(m.node):
            if call_name(c) == 'setattr' and any(call_name(x) == '_with_state_lock' for x in ast.walk(c)):
                sites.setdefault(m.name, []).append(c)
    n_sites = sum(len(v) for v in sites.values())
    ck.floor(rule + '.setattr', n_sites, 1)
    good_loops: dict[str, list] = {}
    for mn, cs in sites.items():
        m = base.methods[mn]
        ck.visited(m)
        for c in cs:
            gs = eng.guards_at(m, c)
            loops = [a for a in ancestors(c) if isinstance(a, ast.For)]
            own = [g for g in gs if loops and any(x is g[2].ast or any(y is g[2].ast for y in ast.walk(x)) for x in ast.walk(loops[0]))] if loops else gs
            ok = len(own) == 1 and (not own[0][1]) and call_name(own[0][0]) == 'startswith' and const(own[0][0].args[0]) == '_'
            it_ok = bool(loops) and 'getmembers' in unparse(loops[0].iter) and 'ismethod' in unparse(loops[0].iter)
            outer = [g for g in gs if g not in own]
            ck.ob(rule, m, c, 'every public method (name not starting with "_") is re-bound to the locked wrapper',
                  ok and it_ok, f'guards: {[unparse(g[0]) for g in gs]}, iterates inspect.getmembers(ismethod): {it_ok}', construct=f'wrap loop in {mn}')
            if ok and it_ok and not outer and len(loops) == 1:
                good_loops.setdefault(mn, []).append(loops[0])
    helpers = {mn for mn in good_loops if mn not in only}
    out = {}
    for nm in only:
        m = base.methods.get(nm)
        ok = m is not None and (nm in good_loops or any(not eng.guards_at(m, c) for h in helpers for c in calls_on(m.node, h)))
        out[nm] = bool(ok)
    return out


# --------------------------------------------------------------------------- network: finalisation of a peer connection
def connection_finalisation(eng: Engine):
    """A peer connection is finalised by `c.set_connection_state(ESTABLISHED)` or, for file connections,
    `c.set_connection_state(NEGOTIATING_TRANSFER)`; written in place or in a helper of the network that does it on every path
    (`_finalize_peer_connection` today).  -> (names of such helpers, function giving the finalisation calls written in a function)"""
    net = eng.cls('Network', NET)

    def direct(fn: FuncInfo) -> list[ast.Call]:
        return [c for c in calls_on(fn.node, 'set_connection_state') if c.args and enum_member(c.args[0]) in ('ESTABLISHED', 'NEGOTIATING_TRANSFER')
                and unparse(c.func.value) != 'self']
    helpers = set()
    for m in net.methods.values():
        d = direct(m)
        if not d:
            continue
        cf = eng.cfg(m)
        dn = [n for c in d for n in cf.nodes_for(c)]
        p = cf.find_path([cf.entry], lambda n: n.kind == 'exit_return', avoid=lambda n: n in dn, edge_ok=lambda a, b, lab: lab == 'next')
        if p is None:
            helpers.add(m.name)
    return helpers, direct
