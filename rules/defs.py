"""Definitions the property rules take for granted.

Round 3 of the seeds (DESIGN.md 13.4) changed what a small helper MEANS and left the functions that use it untouched.  Each function
below pins the meaning of one such helper as an obligation of the calling property (rule id passed in), so that the same definition
can be shared by every property that relies on it.  They are deliberately small and structural (patterns, enum-member sets), and
they accept the equivalent spellings the refactoring controls produced.
"""
from __future__ import annotations
import re
from .common import *


def _single_return(fn: FuncInfo) -> Optional[ast.AST]:
    rets = [n for n in walk_local(fn.node) if isinstance(n, ast.Return) and n.value is not None]
    return expand_aliases(fn, rets[0].value) if len(rets) == 1 else None


def _method(eng: Engine, rel: str, cls: str, name: str) -> FuncInfo:
    ci = eng.cls(cls, rel)
    m = ci.methods.get(name)
    if m is None:
        raise AnalysisError(f'anchor function vanished: {rel}:{cls}.{name}')
    return m


# --------------------------------------------------------------------------- Transfer predicates
def transfer_direction_predicates(eng: Engine, ck: Check, rule: str):
    for name, member in (('is_upload', 'UPLOAD'), ('is_download', 'DOWNLOAD')):
        m = _method(eng, TMODEL, 'Transfer', name)
        ck.visited(m)
        v = _single_return(m)
        a = cmp_atom(v) if v is not None else None
        ok = bool(a and a[0] in ('eq', 'is') and {chain_str(a[1]), chain_str(a[2])} == {'self.direction', f'TransferDirection.{member}'})
        ck.ob(rule, m, m.node, f'Transfer.{name}() is `direction == {member}`', ok, f'returns `{unparse(v) if v is not None else "?"}`',
              construct=f'Transfer.{name} definition')


def transfer_state_sets(eng: Engine, ck: Check, rule: str, which=('is_processing', 'is_transferring', 'is_finalized')):
    want = {'is_processing': {'DOWNLOADING', 'UPLOADING', 'INITIALIZING'}, 'is_transferring': {'DOWNLOADING', 'UPLOADING'},
            'is_finalized': {'COMPLETE', 'ABORTED', 'FAILED'}}
    for name in which:
        m = _method(eng, TMODEL, 'Transfer', name)
        ck.visited(m)
        v = _single_return(m)
        a = cmp_atom(v) if v is not None else None
        ok = bool(a and a[0] == 'in' and chain_str(a[1]) == 'self.state.VALUE' and enum_members_in(a[2]) == want[name])
        ck.ob(rule, m, m.node, f'Transfer.{name}() is `state in {sorted(want[name])}`', ok, f'returns `{unparse(v) if v is not None else "?"}`',
              construct=f'Transfer.{name} definition')


def transfer_identity(eng: Engine, ck: Check, rule: str):
    """Two Transfer objects are equal iff (remote_path, username, direction) agree -- add() de-duplicates with it, the cache drops
    stored records that equal no current transfer."""
    m = _method(eng, TMODEL, 'Transfer', '__eq__')
    ck.visited(m)
    op = [p_ for p_ in m.params if p_ != 'self'][0]
    rets = [n for n in walk_local(m.node) if isinstance(n, ast.Return) and n.value is not None and unparse(n.value) != 'NotImplemented']
    fields_self, fields_other = set(), set()
    ok = len(rets) == 1
    if ok:
        v = expand_aliases(m, rets[0].value)
        ok = isinstance(v, ast.Compare) and len(v.ops) == 1 and isinstance(v.ops[0], ast.Eq)
        if ok:
            for side in (v.left, v.comparators[0]):
                for n in ast.walk(side):
                    if isinstance(n, ast.Attribute) and isinstance(n.value, ast.Name):
                        (fields_self if n.value.id == 'self' else fields_other if n.value.id == op else set()).add(n.attr)
    want = {'remote_path', 'username', 'direction'}
    ck.ob(rule, m, m.node, 'Transfer.__eq__ compares exactly (remote_path, username, direction) of both objects', ok and fields_self == want and fields_other == want,
          f'self fields {sorted(fields_self)}, other fields {sorted(fields_other)}', construct='Transfer identity')


def enumerated_slots(eng: Engine, slots: list, fn, e, depth=0) -> set:
    """Slots that the expression `e` (in function fn) enumerates in full: `self.S`, a tuple/list of those, a local list
    they are appended to, `self.get_tasks()`-like helpers (one level).  `a or b` enumerates nothing (first non-None only)."""
    sa = single_assignments(fn)
    tcls = eng.cls('Transfer', TMODEL)
    if isinstance(e, ast.Attribute) and isinstance(e.value, ast.Name) and e.value.id == 'self' and e.attr in slots:
        return {e.attr}
    if isinstance(e, (ast.Tuple, ast.List, ast.Set)):
        return set().union(*[enumerated_slots(eng, slots, fn, x, depth) for x in e.elts]) if e.elts else set()
    if isinstance(e, ast.Starred):
        return enumerated_slots(eng, slots, fn, e.value, depth)
    if isinstance(e, ast.Name):
        out = set()
        if e.id in sa and sa[e.id] is not None and depth < 3:
            out |= enumerated_slots(eng, slots, fn, sa[e.id], depth + 1)
        for c in calls_on(fn.node, 'append') + calls_on(fn.node, 'extend') + calls_on(fn.node, 'add'):
            if isinstance(c.func.value, ast.Name) and c.func.value.id == e.id and c.args:
                gs = [g for g, pol, _ in eng.guards_at(fn, c)]
                arg_slots = enumerated_slots(eng, slots, fn, c.args[0], depth + 1)
                # an append guarded by anything but the slot's own None-test does not count
                if all(any(mentions_attr(g, sl) for sl in arg_slots) or (isinstance(c.args[0], ast.Name) and mentions_name(g, c.args[0].id))
                       for g in gs):
                    out |= arg_slots
        return out
    if isinstance(e, ast.Call) and isinstance(e.func, ast.Attribute) and isinstance(e.func.value, ast.Name) and \
            e.func.value.id == 'self' and e.func.attr in tcls.methods and depth < 2:
        m = tcls.methods[e.func.attr]
        out = set()
        rets = [r.value for r in walk_local(m.node) if isinstance(r, ast.Return) and r.value is not None]
        if len(rets) == 1:
            out = enumerated_slots(eng, slots, m, rets[0], depth + 1)
        return out
    if isinstance(e, ast.Call) and call_name(e) in ('list', 'tuple', 'set', 'sorted') and e.args:
        return enumerated_slots(eng, slots, fn, e.args[0], depth)
    if isinstance(e, (ast.IfExp, ast.BinOp)):
        # `([a] if a is not None else []) + ([b] if b is not None else [])`: evaluated for every combination of set / empty slots;
        # a slot is enumerated iff it is in the value whenever it is set (operator precedence included: the AST is what runs)
        import itertools as _it
        tup_alias = {}
        for n_ in walk_local(fn.node):
            if isinstance(n_, ast.Assign) and isinstance(n_.targets[0], ast.Tuple) and isinstance(n_.value, ast.Tuple) and len(n_.targets[0].elts) == len(n_.value.elts):
                for t_, v_ in zip(n_.targets[0].elts, n_.value.elts):
                    if isinstance(t_, ast.Name):
                        tup_alias[t_.id] = v_

        def slot_of(x):
            if isinstance(x, ast.Name) and x.id in tup_alias:
                x = tup_alias[x.id]
            elif isinstance(x, ast.Name) and x.id in sa and sa[x.id] is not None:
                x = sa[x.id]
            if isinstance(x, ast.Attribute) and isinstance(x.value, ast.Name) and x.value.id == 'self' and x.attr in slots:
                return x.attr
            return None

        def ev(x, env):
            if isinstance(x, (ast.List, ast.Tuple)):
                out_ = set()
                for el in x.elts:
                    s_ = slot_of(el)
                    if s_ is None or not env[s_]:
                        return None          # an unknown element, or an empty slot put into the result
                    out_.add(s_)
                return out_
            if isinstance(x, ast.BinOp) and isinstance(x.op, ast.Add):
                l_, r_ = ev(x.left, env), ev(x.right, env)
                return None if l_ is None or r_ is None else l_ | r_
            if isinstance(x, ast.IfExp):
                t_ = x.test
                pol_ = True
                while isinstance(t_, ast.UnaryOp) and isinstance(t_.op, ast.Not):
                    t_, pol_ = t_.operand, not pol_
                a_ = cmp_atom(t_)
                if a_ and a_[0] == 'is' and is_none_const(a_[2]) and slot_of(a_[1]):
                    truth = not env[slot_of(a_[1])]
                elif isinstance(t_, ast.Compare) and isinstance(t_.ops[0], ast.IsNot) and is_none_const(t_.comparators[0]) and slot_of(t_.left):
                    truth = env[slot_of(t_.left)]
                elif slot_of(t_):
                    truth = env[slot_of(t_)]
                else:
                    return None
                return ev(x.body if truth == pol_ else x.orelse, env)
            return None
        full = set(slots)
        for combo in _it.product((False, True), repeat=len(slots)):
            env_ = dict(zip(slots, combo))
            v_ = ev(e, env_)
            if v_ is None:
                return set()
            full &= {s_ for s_ in slots if not env_[s_]} | v_      # s stays only if (set => contained)
        return full
    if isinstance(e, (ast.ListComp, ast.GeneratorExp, ast.SetComp)) and len(e.generators) == 1 and \
            isinstance(e.elt, ast.Name) and isinstance(e.generators[0].target, ast.Name) and e.elt.id == e.generators[0].target.id:
        g = e.generators[0]
        # a filter may only drop empty (None) or finished entries
        if all(mentions_name(i, e.elt.id) and ('None' in unparse(i) or 'done()' in unparse(i) or unparse(i) == e.elt.id) for i in g.ifs):
            return enumerated_slots(eng, slots, fn, g.iter, depth)
    return set()



def transfer_get_tasks(eng: Engine, ck: Check, rule: str, slots: list[str]):
    """get_tasks() returns every task slot that is set (the scheduler's "an attempt is in flight" test and cancel_tasks build on it)."""
    m = _method(eng, TMODEL, 'Transfer', 'get_tasks')
    ck.visited(m)
    rets = [n for n in walk_local(m.node) if isinstance(n, ast.Return) and n.value is not None]
    ok = len(rets) == 1
    got = enumerated_slots(eng, slots, m, rets[0].value) if ok else set()
    ck.ob(rule, m, m.node, f'Transfer.get_tasks() returns every task slot that is set ({slots})', ok and set(slots) <= got,
          f'slots returned: {sorted(got)}', construct='get_tasks covers slots')


# --------------------------------------------------------------------------- connection: queueing
def queue_messages_definition(eng: Engine, ck: Check, rule: str):
    """queue_messages(*m) = one queue_message per message, in order; queue_message creates the send task for that message and keeps it in
    the connection's own queue."""
    qm = _method(eng, CONN, 'DataConnection', 'queue_messages')
    q1 = _method(eng, CONN, 'DataConnection', 'queue_message')
    ck.visited(qm)
    ck.visited(q1)
    vp = qm.node.args.vararg.arg if qm.node.args.vararg else qm.params[-1]
    calls = [x for x in calls_in(qm.node) if call_name(x) == 'queue_message' and unparse(x.func.value) == 'self']
    ok = len(calls) == 1 and len(calls[0].args) == 1 and isinstance(calls[0].args[0], ast.Name)
    if ok:
        var = calls[0].args[0].id
        binder = next((a for a in ancestors(calls[0]) if isinstance(a, (ast.For, ast.ListComp, ast.GeneratorExp))), None)
        if isinstance(binder, ast.For):
            ok = unparse(binder.iter) == vp and unparse(binder.target) == var and not eng.guards_at(qm, calls[0])
        elif binder is not None:
            g = binder.generators[0]
            ok = len(binder.generators) == 1 and unparse(g.iter) == vp and unparse(g.target) == var and not g.ifs
        else:
            ok = False
    ck.ob(rule, qm, qm.node, 'queue_messages queues every message it is given, once, in order', ok, '', construct='queue_messages definition')
    mp = [p_ for p_ in q1.params if p_ != 'self'][0]
    tasks = [x for x in calls_in(q1.node) if call_name(x) == 'create_task' and x.args and phas(x.args[0], f'self.send_message({mp})')]
    kept = [x for x in calls_in(q1.node) if isinstance(x.func, ast.Attribute) and x.func.attr == 'append' and unparse(x.func.value) == 'self._queued_messages']
    ok = len(tasks) == 1 and len(kept) == 1 and not eng.guards_at(q1, tasks[0])
    ck.ob(rule, q1, q1.node, 'queue_message starts one task sending exactly that message on this connection and keeps it in the connection\'s own queue', ok, '',
          construct='queue_message definition')


def network_send_helpers(eng: Engine, ck: Check, rule: str):
    """send_server_messages / queue_server_messages pass every message to the server connection."""
    for name, via in (('send_server_messages', 'send_message'), ('queue_server_messages', 'queue_messages')):
        m = eng.repo.find_func(NET, f'Network.{name}')
        if m is None:
            raise AnalysisError(f'anchor function vanished: {NET}:Network.{name}')
        ck.visited(m)
        vp = m.node.args.vararg.arg if m.node.args.vararg else [p_ for p_ in m.params if p_ != 'self'][0]
        xs = [x for x in calls_in(m.node) if call_name(x) == via and mentions_attr(x.func, 'server_connection')]
        ok = len(xs) == 1
        if ok:
            x = xs[0]
            star = any(isinstance(a, ast.Starred) and unparse(a.value) == vp for a in x.args)
            loop = next((a for a in ancestors(x) if isinstance(a, (ast.For, ast.ListComp, ast.GeneratorExp))), None)
            if star:
                ok = True
            elif isinstance(loop, ast.For):
                ok = unparse(loop.iter) == vp and x.args and unparse(x.args[0]) == unparse(loop.target)
            elif loop is not None:
                g = loop.generators[0]
                ok = unparse(g.iter) == vp and not g.ifs and x.args and unparse(x.args[0]) == unparse(g.target)
            else:
                ok = False
        ck.ob(rule, m, m.node, f'Network.{name} hands every message it is given to the server connection ({via})', ok, '', construct=f'{name} definition')


# --------------------------------------------------------------------------- shares: lookups go through the lock test
def shared_item_lookups(eng: Engine, ck: Check, rule: str):
    """get_shared_item / find_shared_item / find_shared_item_cache pass the requesting user on to get_shared_item_cache (where the lock
    test raises FileNotSharedError)."""
    for name in ('get_shared_item', 'find_shared_item', 'find_shared_item_cache'):
        m = eng.repo.find_func(SHARES, f'SharesManager.{name}')
        if m is None:
            continue
        ck.visited(m)
        if 'username' not in m.params:
            ck.ob(rule, m, m.node, f'{name} takes the requesting user', False, f'params {m.params}', construct=f'{name} takes user')
            continue
        inner = [x for x in calls_in(m.node) if call_name(x) in ('get_shared_item_cache', 'get_shared_item', 'find_shared_item_cache') and call_name(x) != name]
        passes = [x for x in inner if any(unparse(a) == 'username' for a in x.args) or any(k.arg == 'username' and unparse(k.value) == 'username' for k in x.keywords)]
        ck.ob(rule, m, m.node, f'{name}: every delegated lookup is made for the same requesting user', bool(inner) and len(passes) == len(inner),
              f'lookups {[unparse(x)[:60] for x in inner]}', construct=f'{name} passes user')


# --------------------------------------------------------------------------- utils.cancel_task
def cancel_task_definition(eng: Engine, ck: Check, rule: str):
    m = eng.func('utils.py', 'cancel_task')
    ck.visited(m)
    tp = m.params[0]
    canc = [x for x in calls_in(m.node) if call_name(x) == 'cancel' and unparse(x.func.value) == tp]
    aw = [n for n in walk_local(m.node) if isinstance(n, ast.Await) and mentions_name(n.value, tp)]
    ok = len(canc) == 1 and len(aw) >= 1
    if ok:
        c = eng.cfg(m)
        ok = c.nodes_for(canc[0])[0].id < c.nodes_for(aw[0])[0].id
    ck.ob(rule, m, m.node, 'cancel_task(t) cancels t and then awaits it (the cancelled task has finished its clean-up when cancel_task returns)', ok, '',
          construct='cancel_task definition')


# --------------------------------------------------------------------------- transfer states: public methods run under the state lock
def state_lock_wrapping(eng: Engine, ck: Check, rule: str, only=('__init__', '__setstate__')) -> dict[str, bool]:
    """Every TransferState object re-binds its public methods to the locked wrapper when it is created and when it is un-pickled: by a
    loop over inspect.getmembers(.., ismethod) written in a helper (`_wrap_lock` today) or in place.  -> {method name: wraps}"""
    base = eng.cls('TransferState', TSTATE)
    sites: dict[str, list] = {}
    for m in base.methods.values():
        for c in calls_in(m.node):
            if call_name(c) == 'setattr' and any(call_name(x) == '_with_state_lock' for x in ast.walk(c)):
                sites.setdefault(m.name, []).append(c)
    n_sites = sum(len(v) for v in sites.values())
    ck.floor(rule + '.setattr', n_sites, 1)
    good_loops: dict[str, list] = {}
    for mn, cs in sites.items():
        m = base.methods[mn]
        ck.visited(m)
        for c in cs:
            gs = eng.guards_at(m, c)
            loops = [a for a in ancestors(c) if isinstance(a, ast.For)]
            own = [g for g in gs if loops and any(x is g[2].ast or any(y is g[2].ast for y in ast.walk(x)) for x in ast.walk(loops[0]))] if loops else gs
            ok = len(own) == 1 and (not own[0][1]) and call_name(own[0][0]) == 'startswith' and const(own[0][0].args[0]) == '_'
            it_ok = bool(loops) and 'getmembers' in unparse(loops[0].iter) and 'ismethod' in unparse(loops[0].iter)
            outer = [g for g in gs if g not in own]
            why = f'guards: {[unparse(g[0]) for g in gs]}, iterates inspect.getmembers(ismethod): {it_ok}'
            if loops and not it_ok:
                # an explicit table of operation names instead of reflection: it must name every state operation of the base class
                tbl = resolve_named_constant(loops[0].iter) if not isinstance(loops[0].iter, (ast.Tuple, ast.List)) else loops[0].iter
                if isinstance(tbl, (ast.Tuple, ast.List, ast.Set)) and all(isinstance(const(e_), str) for e_ in tbl.elts):
                    names = {const(e_) for e_ in tbl.elts}
                    ops = {n_ for n_, f_ in base.methods.items() if not n_.startswith('_') and f_.is_async}
                    it_ok = ops <= names
                    ok = not own
                    why = f'the table {sorted(names)} misses the state operation(s) {sorted(ops - names)}: they run without the state lock and without the re-dispatch on the current state'
            ck.ob(rule, m, c, 'every public method (name not starting with "_") is re-bound to the locked wrapper',
                  ok and it_ok, why, construct=f'wrap loop in {mn}')
            if ok and it_ok and not outer and len(loops) == 1:
                good_loops.setdefault(mn, []).append(loops[0])
    helpers = {mn for mn in good_loops if mn not in only}
    out = {}
    for nm in only:
        m = base.methods.get(nm)
        ok = m is not None and (nm in good_loops or any(not eng.guards_at(m, c) for h in helpers for c in calls_on(m.node, h)))
        out[nm] = bool(ok)
    return out


def state_operations_are_methods(eng: Engine, ck: Check, rule: str):
    """The lock wrapper is attached by reflection: `inspect.getmembers(self, predicate=inspect.ismethod)`.  Only a FUNCTION bound in the class
    body comes back from an instance as a method.  An operation bound to anything else -- functools.partialmethod / partial (read from an
    instance it is a `functools.partial` object), a callable object, a staticmethod -- is silently left out: it runs without the state lock
    and without the re-dispatch on the current state.  Class-level bindings of operation names in the state classes are `async def`s or
    aliases of one (`queue = FailedState.queue`)."""
    base = eng.cls('TransferState', TSTATE)
    ops = {n_ for n_, f_ in base.methods.items() if not n_.startswith('_') and f_.is_async}
    n = 0
    for ci in [base] + eng.repo.subclasses(base):
        for st in ci.node.body:
            if not isinstance(st, (ast.Assign, ast.AnnAssign)) or getattr(st, 'value', None) is None:
                continue
            for t in (st.targets if isinstance(st, ast.Assign) else [st.target]):
                if isinstance(t, ast.Name) and t.id in ops:
                    n += 1
                    v = st.value
                    ok = isinstance(v, (ast.Attribute, ast.Name)) and state_operation(eng, ci, t.id) is not None
                    ck.ob(rule, ci, st, f'{ci.name}.{t.id} is bound to a function (an `async def` or an alias of one), which is what `_wrap_lock` finds with inspect.ismethod', ok,
                          f'bound to `{unparse(v)[:70]}`: read from an instance this is not a method, `_wrap_lock` skips it, {ci.name}.{t.id}() runs without the state lock '
                          '(a second operation issued while it is suspended finds the lock free and the old state still current)', construct=f'{ci.name}.{t.id} is a method')
    ck.note(f'{rule}: {n} class-level bindings of state operations examined')


def lock_wrapper_forwards_arguments(eng: Engine, ck: Check, rule: str, relies: str):
    """Both dispatch paths of the state-lock wrapper (the method the caller looked up; the same operation of the state that is current
    once the lock is held) receive ALL the caller's arguments: `*args` and `**kwargs` of the wrapper.  The re-dispatch path is taken only
    when the transfer changed state while the call waited for the lock; an argument lost there (`abort(reason=REQUESTED)` is passed by
    keyword) silently becomes the default."""
    wsl = eng.func(TSTATE, '_with_state_lock')
    wrapper = eng.repo.find_func(TSTATE, '_with_state_lock.<locals>.wrapper')
    if wrapper is None:
        raise AnalysisError('anchor vanished: _with_state_lock.<locals>.wrapper')
    ck.visited(wrapper)
    a = wrapper.node.args
    fparam = wsl.params[0] if wsl.params else 'func'
    sa_w = single_assignments(wrapper)
    n = 0
    for c in calls_in(wrapper.node):
        looked_up = isinstance(c.func, ast.Name) and isinstance(sa_w.get(c.func.id), ast.Call) and call_name(sa_w[c.func.id]) == 'getattr'
        if not ((isinstance(c.func, ast.Name) and c.func.id == fparam) or looked_up):
            continue
        n += 1
        star = not a.vararg or any(isinstance(x, ast.Starred) and unparse(x.value) == a.vararg.arg for x in c.args)
        dstar = not a.kwarg or any(k.arg is None and unparse(k.value) == a.kwarg.arg for k in c.keywords)
        named = [p_.arg for p_ in a.posonlyargs + a.args + a.kwonlyargs][1:]
        passed = {unparse(x) for x in c.args} | {unparse(k.value) for k in c.keywords}
        rest = all(p_ in passed for p_ in named)
        ck.ob(rule, wrapper, c, f'`{unparse(c.func)}(..)` in the state-lock wrapper receives all the caller\'s arguments ({relies})', star and dstar and rest,
              f'`{unparse(c)}` drops {"*" + a.vararg.arg if not star else ""} {"**" + a.kwarg.arg if not dstar else ""}: on this dispatch path the operation runs with its defaults '
              '(abort(reason=..) becomes abort(): an upload aborted on request has no reason and is queued again by the next shares / block-list evaluation)',
              construct=f'wrapper forwards arguments to {"looked-up method" if looked_up else "bound method"}')
    ck.floor(rule + '.wrapper_calls', n, 1)


# --------------------------------------------------------------------------- every waiter waits on a future of its own
def waiters_are_fresh(eng: Engine, ck: Check, rule: str, relies: str):
    """asyncio cancels the future a task is awaiting when the task is cancelled -- and that wakes EVERY other task awaiting the same future
    with CancelledError.  A waiter for a server / peer message therefore gets a future nobody else awaits: the factories
    (`create_server_response_future`, `create_peer_response_future`) return the ExpectedResponse they have just constructed, on every
    path; they never hand out an entry of the registry ("an identical request is already pending")."""
    net = eng.cls('Network', NET)
    n = 0
    for name in ('create_server_response_future', 'create_peer_response_future'):
        m = net.methods.get(name)
        if m is None:
            raise AnalysisError(f'anchor vanished: Network.{name}')
        ck.visited(m)
        n += 1
        rets = [r for r in walk_local(m.node) if isinstance(r, ast.Return)]
        bad = []
        for r in rets:
            v = expand_aliases(m, r.value) if r.value is not None else None
            arms = [leaf for _, leaf in ifexp_cases(v)] if v is not None else []
            if not arms or not all(isinstance(a_, ast.Call) and call_name(a_) == 'ExpectedResponse' for a_ in arms):
                bad.append(unparse(r.value) if r.value is not None else 'None')
        ck.ob(rule, m, m.node, f'{name} returns the ExpectedResponse it has just constructed, on every path ({relies})', bool(rets) and not bad,
              f'returns {bad}: two requests share one future; cancelling one of them (its caller gives up, it lost a race, its timeout fires) cancels the future and the OTHER '
              'request ends with CancelledError -- neither a connection nor PeerConnectionError, and none of the `except NetworkError` arms sees it',
              construct=f'{name} returns a fresh future')
    return n


# --------------------------------------------------------------------------- @on_message really registers the handler
def on_message_registers(eng: Engine, ck: Check, rule: str, relies: str):
    """`@on_message(M)` marks the handler (`_registered_message = M`) and `build_message_map` collects the bound methods that carry the mark.
    The decorator has to hand back THE OBJECT IT MARKED: a wrapper returned in its place (without the mark, functools.wraps or not, the mark
    sits on the inner function) is a method nobody finds -- the handler silently leaves every message map."""
    reg = eng.repo.find_func('events.py', 'on_message.<locals>.register')
    if reg is None:
        raise AnalysisError('anchor vanished: events.py:on_message.<locals>.register')
    ck.visited(reg)
    fp = reg.params[0] if reg.params else 'event_func'
    marked = {unparse(t.value) for n_ in walk_local(reg.node) if isinstance(n_, ast.Assign) for t in n_.targets
              if isinstance(t, ast.Attribute) and t.attr == '_registered_message'} | \
        {unparse(x.args[0]) for x in calls_in(reg.node) if call_name(x) == 'setattr' and len(x.args) >= 2 and const(x.args[1]) == '_registered_message'}
    rets = [n_ for n_ in walk_local(reg.node) if isinstance(n_, ast.Return)]
    bad = [unparse(r.value) if r.value is not None else 'None' for r in rets if r.value is None or unparse(r.value) not in marked]
    ck.ob(rule, reg, reg.node, f'on_message(..) returns the function it has marked with `_registered_message`, on every path ({relies})', bool(rets) and bool(marked) and not bad,
          f'marked: {sorted(marked)}; returned: {bad}: build_message_map looks for the mark on the bound METHOD, i.e. on what the decorator returned; an unmarked wrapper is '
          'skipped and its message is never handled', construct='on_message returns the marked function')
    bm = eng.func('events.py', 'build_message_map')
    ck.visited(bm)
    ok = any(call_name(x) == 'getattr' and len(x.args) >= 2 and const(x.args[1]) == '_registered_message' for x in calls_in(bm.node)) and \
        any(call_name(x) == 'getmembers' for x in calls_in(bm.node))
    ck.ob(rule, bm, bm.node, 'build_message_map collects the members that carry `_registered_message`', ok, '', construct='build_message_map reads the mark')


# --------------------------------------------------------------------------- a state-change listener never waits for its own deliverer
def listener_never_awaits_deliverer(eng: Engine, ck: Check, rule: str, relies: str):
    """The report of a connection's state change is delivered by `await`ing every listener, one after the other, INSIDE whichever task
    closed the connection: the reader task on EOF, but also any task whose send failed (`_send` -> disconnect(WRITE_ERROR)) -- or a child
    task that such a task awaits (`send_server_messages` gathers its sends).  A listener that awaits the end of a library task therefore
    waits for ITSELF whenever that task's body can reach a send: the listener never returns, the listeners after it never hear about
    the close (session not destroyed, rooms / users not reset, no reconnect).  For every listener of ConnectionStateChangedEvent: the
    task slots whose tasks it awaits (directly, through gather / wait / cancel_task, or through a repo method that returns them) must
    not be filled with a coroutine from which Connection.disconnect is reachable in the call graph."""
    repo = eng.repo
    listeners: list[FuncInfo] = []
    for f in repo.all_funcs():
        for x in calls_on(f.node, 'register'):
            if len(x.args) >= 2 and unparse(x.args[0]) == 'ConnectionStateChangedEvent' and isinstance(x.args[1], ast.Attribute) and unparse(x.args[1].value) == 'self' \
                    and f.cls is not None:
                m = next((c.methods[x.args[1].attr] for c in repo.mro(f.cls) if x.args[1].attr in c.methods), None)
                if m is not None and m not in listeners:
                    listeners.append(m)
    ck.floor(rule + '.state_listeners', len(listeners), 6)
    sinks = {eng.func(CONN, 'DataConnection.disconnect'), eng.func(CONN, 'Connection.set_state')}
    memo: dict[FuncInfo, bool] = {}

    def can_deliver(f: FuncInfo, depth=0, stack=()) -> bool:
        if f in sinks:
            return True
        if f in memo:
            return memo[f]
        if f in stack or depth > 8:
            return False
        r = False
        for x in calls_in(f.node):
            for c in eng.res.callees(x, f):
                if can_deliver(c, depth + 1, stack + (f,)):
                    r = True
                    break
            if r:
                break
        memo[f] = r
        return r

    def slots_in(fn: FuncInfo, e: ast.AST, depth=0) -> set[str]:
        """names of the attributes (task slots) whose values `e` denotes"""
        if isinstance(e, ast.Starred):
            return slots_in(fn, e.value, depth)
        orig = e
        e = expand_aliases(fn, e)
        if unparse(e) == unparse(orig):
            e = orig
        out: set[str] = set()
        if isinstance(e, ast.Attribute):
            return {e.attr}
        if isinstance(e, (ast.List, ast.Tuple, ast.Set)):
            for x in e.elts:
                out |= slots_in(fn, x, depth)
            return out
        if isinstance(e, ast.Call) and depth < 2:
            for c in eng.res.callees(e, fn):
                # what the method hands back: attributes appended to / listed in the value it returns
                rets = [r.value for r in walk_local(c.node) if isinstance(r, ast.Return) and r.value is not None]
                for r in rets:
                    if isinstance(r, ast.Name):
                        for y in calls_in(c.node):
                            if call_name(y) in ('append', 'add', 'extend') and isinstance(y.func, ast.Attribute) and unparse(y.func.value) == r.id and y.args:
                                out |= slots_in(c, y.args[0], depth + 1)
                        out |= slots_in(c, r, depth + 1) if not isinstance(expand_aliases(c, r), ast.Name) else set()
                    else:
                        out |= slots_in(c, r, depth + 1)
        if isinstance(e, ast.Name):
            # a local filled in place
            for y in calls_in(fn.node):
                if call_name(y) in ('append', 'add', 'extend') and isinstance(y.func, ast.Attribute) and unparse(y.func.value) == e.id and y.args:
                    out |= slots_in(fn, y.args[0], depth + 1)
        return out
    for L in listeners:
        ck.visited(L)
        waited: list[tuple[ast.AST, set[str]]] = []
        for aw in [n for n in walk_local(L.node) if isinstance(n, ast.Await)]:
            v = aw.value
            if isinstance(v, ast.Call) and call_name(v) in ('gather', 'wait', 'wait_for', 'cancel_task', 'shield'):
                sl = set()
                for a_ in v.args:
                    sl |= slots_in(L, a_)
                if sl:
                    waited.append((aw, sl))
            elif isinstance(v, ast.Attribute):
                waited.append((aw, {v.attr}))
        bad = []
        for aw, sl in waited:
            for slot in sorted(sl):
                for f_, st_, v_ in eng.stores_to_attr(slot):
                    if v_ is None:
                        continue
                    for y in ast.walk(v_):
                        if isinstance(y, ast.Call) and call_name(y) in ('create_task', 'ensure_future') and y.args and isinstance(y.args[0], ast.Call):
                            for body in eng.res.callees(y.args[0], f_):
                                if can_deliver(body):
                                    bad.append((aw, slot, body))
        why = ''
        if bad:
            aw, slot, body = bad[0]
            why = (f'`{unparse(aw)[:70]}` waits for the task in `{slot}`, which runs {body.qualname}; that coroutine can reach Connection.disconnect (a failed send closes the '
                   'connection from inside it, or from a child task it awaits): when the close is reported from there the listener waits for itself, every listener '
                   'registered after it is never told')
        ck.ob(rule, L, L.node, f'{L.qualname} (listener of the connection state report) awaits no task that can itself be delivering the report ({relies})', not bad, why,
              construct=f'{L.qualname} awaits no deliverer')


# --------------------------------------------------------------------------- only 'P' connections stay obfuscated after the init message
def obfuscation_reset_definition(eng: Engine, ck: Check, rule: str, relies: str):
    """The init message of a connection to / from an obfuscated port is obfuscated whatever the type; after it, only peer ('P') connections
    go on obfuscated -- distributed and file connections talk plain.  PeerConnection.set_connection_state clears `obfuscated` for every
    state other than AWAITING_INIT and every type other than PEER.  The states / types that reach the store are computed as sets of
    members from the guards (not read off one spelling)."""
    m = eng.func(CONN, 'PeerConnection.set_connection_state')
    ck.visited(m)
    sp = [p_ for p_ in m.params if p_ != 'self'][0]
    states = {st.targets[0].id for st in eng.cls('PeerConnectionState', CONN).node.body
              if isinstance(st, ast.Assign) and isinstance(st.targets[0], ast.Name) and not st.targets[0].id.startswith('_')}
    types = {st.targets[0].id for st in eng.cls('PeerConnectionType', CONN).node.body
             if isinstance(st, ast.Assign) and isinstance(st.targets[0], ast.Name) and not st.targets[0].id.startswith('_')}
    stores = [st for st in walk_local(m.node) if isinstance(st, ast.Assign) and any(unparse(t) == 'self.obfuscated' for t in st.targets) and const(st.value) is False]
    reached: set[tuple[str, str]] = set()           # (state, type) pairs for which some store runs
    for st in stores:
        adm_s, adm_t = set(states), set(types)
        for e_, pol_, _ in eng.guards_at(m, st):
            for e2, p2 in split_conj(expand_aliases(m, e_), pol_):
                a2 = cmp_atom(e2)
                if not a2 or a2[0] not in ('eq', 'is', 'in'):
                    adm_s = adm_t = set()          # a test the fragment does not read: claims nothing for this store
                    continue
                if unparse(a2[1]) == sp:
                    named = enum_members_in(a2[2]) & states
                    adm_s &= named if p2 else states - named
                elif mentions_attr(a2[1], 'connection_type'):
                    named = enum_members_in(a2[2]) & types
                    adm_t &= named if p2 else types - named
                else:
                    adm_s = adm_t = set()
        reached |= {(s_, t_) for s_ in adm_s for t_ in adm_t}
    want_s, want_t = states - {'AWAITING_INIT'}, types - {'PEER'}
    want = {(s_, t_) for s_ in want_s for t_ in want_t}
    ok = reached == want
    reach_s, reach_t = {s_ for s_, _ in reached}, {t_ for _, t_ in reached}
    missing = sorted(want - reached)
    ck.ob(rule, m, m.node, f'set_connection_state clears `obfuscated` exactly for the states {sorted(want_s)} and the types {sorted(want_t)} ({relies})', ok,
          f'cleared for states {sorted(reach_s)} x types {sorted(reach_t)}, not for {missing[:4]}, wrongly for {sorted(reached - want)[:4]}: a connection outside that set keeps obfuscating after the init message (a distributed connection '
          'over an obfuscated port is returned as established but neither side understands the other), or a peer connection stops obfuscating', construct='obfuscation reset')


# --------------------------------------------------------------------------- network: finalisation of a peer connection
def connection_finalisation(eng: Engine):
    """A peer connection is finalised by `c.set_connection_state(ESTABLISHED)` or, for file connections,
    `c.set_connection_state(NEGOTIATING_TRANSFER)`; written in place or in a helper of the network that does it on every path
    (`_finalize_peer_connection` today).  -> (names of such helpers, function giving the finalisation calls written in a function)"""
    net = eng.cls('Network', NET)

    def direct(fn: FuncInfo) -> list[ast.Call]:
        return [c for c in calls_on(fn.node, 'set_connection_state') if c.args and enum_member(c.args[0]) in ('ESTABLISHED', 'NEGOTIATING_TRANSFER')
                and unparse(c.func.value) != 'self']
    helpers = set()
    for m in net.methods.values():
        d = direct(m)
        if not d:
            continue
        cf = eng.cfg(m)
        dn = [n for c in d for n in cf.nodes_for(c)]
        p = cf.find_path([cf.entry], lambda n: n.kind == 'exit_return', avoid=lambda n: n in dn, edge_ok=lambda a, b, lab: lab == 'next')
        if p is None:
            helpers.add(m.name)
    return helpers, direct


# --------------------------------------------------------------------------- distributed network: peer lookup by connection
def distributed_peer_lookup(eng: Engine, ck: Check, rule: str):
    """get_distributed_peer(connection) answers with THE peer registered for that connection object, whichever other peers carry the
    same username: the connection test is part of the search itself (a search that stops at the first peer with the right name and
    compares the connection afterwards misses the second connection of a user).  The CLOSED handler, the branch-value handlers and
    the child admission all find their peer through it."""
    m = eng.func(DIST, 'DistributedNetwork.get_distributed_peer')
    ck.visited(m)
    cp = [p_ for p_ in m.params if p_ != 'self'][0]
    rets = [n for n in walk_local(m.node) if isinstance(n, ast.Return) and n.value is not None and not is_none_const(n.value)]

    def conn_test(e: ast.AST, pol: bool, var: str) -> bool:
        a = cmp_atom(e)
        return bool(a and a[0] in ('eq', 'is') and pol and {unparse(a[1]), unparse(a[2])} == {f'{var}.connection', cp})
    ok = bool(rets)
    why = []
    for r in rets:
        v = r.value
        good = False
        if isinstance(v, ast.Name):
            lp = next((a for a in ancestors(r) if isinstance(a, (ast.For, ast.AsyncFor))), None)
            if lp is not None and isinstance(lp.target, ast.Name) and lp.target.id == v.id and chain_str(lp.iter) == 'self.distributed_peers':
                good = any(conn_test(e, pol, v.id) for e, pol, _ in eng.guards_at(m, r))
            else:
                # `peer = <loop variable>` assigned in the hit branch of the search loop (the desugared next(..) form)
                # every value the name ever receives is None (no hit) or the loop variable of the search, assigned where the connection test holds
                hits, others = 0, 0
                for n in walk_local(m.node):
                    if isinstance(n, ast.Assign) and unparse(n.targets[0]) == v.id:
                        if is_none_const(n.value):
                            continue
                        lp2 = next((a for a in ancestors(n) if isinstance(a, (ast.For, ast.AsyncFor))), None)
                        if isinstance(n.value, ast.Name) and lp2 is not None and isinstance(lp2.target, ast.Name) and lp2.target.id == n.value.id and \
                                chain_str(lp2.iter) == 'self.distributed_peers' and any(conn_test(e, pol, n.value.id) for e, pol, _ in eng.guards_at(m, n)):
                            hits += 1
                        else:
                            others += 1
                good = hits >= 1 and others == 0
        vx = expand_aliases(m, v)
        if not good and isinstance(vx, ast.Call) and call_name(vx) == 'next' and vx.args and isinstance(vx.args[0], ast.GeneratorExp) and len(vx.args[0].generators) == 1:
            v = vx
            g = v.args[0].generators[0]
            if isinstance(g.target, ast.Name) and unparse(v.args[0].elt) == g.target.id and chain_str(g.iter) == 'self.distributed_peers':
                good = any(conn_test(e, pol, g.target.id) for i_ in g.ifs for e, pol in split_conj(i_, True))
        if not good:
            why.append(unparse(r)[:80])
        ok = ok and good
    ck.ob(rule, m, m.node, 'get_distributed_peer(connection) searches the registered peers FOR that connection (the connection test is part of the search, not a '
          'check of the first peer with the right name)', ok, f'returns not established as "the peer of this connection": {why}' if why else 'no peer is ever returned',
          construct='peer lookup by connection')


# --------------------------------------------------------------------------- event bus: a failing listener never reaches the emitter
def event_bus_emit_contains(eng: Engine, ck: Check, rule: str, relies: str):
    """EventBus.emit contains every listener failure -- calling AND awaiting a listener happen inside the try that logs and goes on.
    Library code awaits emit() in the middle of its own sequences (completing requests, the per-user tracking worker, state reports,
    the session burst); application listeners run there."""
    escm = eng.escape()
    em_fn = eng.func('events.py', 'EventBus.emit')
    ck.visited(em_fn)
    leaked = sorted(escm.of(em_fn))
    ck.ob(rule, em_fn, em_fn.node, 'EventBus.emit contains every listener failure: calling AND awaiting a listener happen inside the try that logs and goes on '
          f'({relies})', not leaked, f'exceptions can leave emit(): {leaked} -- a listener (application code) that raises is thrown into the library code that emitted',
          construct='emit contains listener failures')


# --------------------------------------------------------------------------- objects that are registered and removed BY IDENTITY
def eq_is_identity(eng: Engine, c: ClassInfo, fn: FuncInfo) -> Optional[str]:
    """None when the hand-written `__eq__` decides exactly what the inherited one does (equal iff the very same object), else why not.
    The body is evaluated three times over a small symbolic domain: `other is self`; `other` a DIFFERENT object of the same class whose
    fields may all be equal; `other` of a foreign class.  It must give True / NotImplemented in the first case and False / NotImplemented
    in the other two (Python falls back to identity when both sides answer NotImplemented).  Anything whose value depends on field
    contents is unknown; a test on an unknown value explores both branches."""
    a = fn.node.args
    ps = [x.arg for x in a.posonlyargs + a.args]
    if len(ps) != 2:
        return 'unexpected signature'
    SELF, OTHER = ps
    UNK, NI = 'UNK', 'NI'

    class Stop(Exception):
        pass

    def canon(t, case):
        if case == 'same':
            if t == ('obj', 'other'):
                return ('obj', 'self')
            if isinstance(t, tuple):
                return tuple(canon(x, case) if isinstance(x, tuple) else x for x in t)
        return t

    def sym(e, env, case, recv=None, depth=0):
        """expression -> symbolic term"""
        if isinstance(e, ast.Name):
            if e.id in env:
                return env[e.id]
            if e.id == 'NotImplemented':
                return ('val', NI)
            return ('opaque', e.id)
        if isinstance(e, ast.Constant):
            return ('val', e.value) if isinstance(e.value, bool) or e.value is None else ('const', repr(e.value))
        if isinstance(e, ast.Tuple):
            return ('tuple',) + tuple(sym(x, env, case, recv, depth) for x in e.elts)
        if isinstance(e, ast.Call):
            if isinstance(e.func, ast.Name) and e.func.id == 'id' and len(e.args) == 1:
                return ('id', sym(e.args[0], env, case, recv, depth))
            if isinstance(e.func, ast.Name) and e.func.id == 'isinstance' and len(e.args) == 2:
                o = sym(e.args[0], env, case, recv, depth)
                if o == ('obj', 'other') and unparse(e.args[1]) in [x.name for x in eng.repo.mro(c)] + ['type(self)', 'self.__class__', '__class__']:
                    return ('val', case != 'foreign')
                if o == ('obj', 'self'):
                    return ('val', True)
                return ('val', UNK)
            if isinstance(e.func, ast.Attribute) and not e.args and not e.keywords and depth < 3:
                o = sym(e.func.value, env, case, recv, depth)
                if o in (('obj', 'self'), ('obj', 'other')) and not (o == ('obj', 'other') and case == 'foreign'):
                    m = next((x.methods[e.func.attr] for x in eng.repo.mro(c) if e.func.attr in x.methods), None)
                    if m is not None and not m.is_async:
                        body = [s_ for s_ in m.node.body if not (isinstance(s_, ast.Expr) and isinstance(s_.value, ast.Constant))]
                        mp = [x.arg for x in m.node.args.posonlyargs + m.node.args.args]
                        if len(body) == 1 and isinstance(body[0], ast.Return) and body[0].value is not None and len(mp) == 1:
                            return sym(body[0].value, {mp[0]: o}, case, recv, depth + 1)
            return ('opaque', unparse(e)) if not any(isinstance(n, ast.Name) and n.id in env for n in ast.walk(e)) else ('field', unparse(e))
        if isinstance(e, ast.Attribute):
            o = sym(e.value, env, case, recv, depth)
            return ('attr', o, e.attr)
        if isinstance(e, (ast.Compare, ast.BoolOp, ast.UnaryOp)):
            return ('val', truth(e, env, case, depth))
        return ('field', unparse(e))

    def definitely(op, l, r, case):
        l, r = canon(l, case), canon(r, case)
        ident = isinstance(op, (ast.Is, ast.IsNot))
        pos = isinstance(op, (ast.Is, ast.Eq))
        res = UNK
        if l == r and 'field' not in str(l) and 'opaque' not in str(l):
            res = True
        elif l == r and not ident:
            res = True if 'opaque' not in str(l) else UNK        # the same deterministic read on the same object
        elif {l, r} == {('obj', 'self'), ('obj', 'other')}:
            res = False if ident else UNK                         # `self == other` inside __eq__ would recurse: not decided here
        elif l[0] == 'id' and r[0] == 'id' and {l[1], r[1]} == {('obj', 'self'), ('obj', 'other')}:
            res = False
        elif l[0] == 'tuple' and r[0] == 'tuple' and not ident:
            if len(l) != len(r):
                res = False
            else:
                parts = [definitely(ast.Eq(), x, y, case) for x, y in zip(l[1:], r[1:])]
                res = False if any(p_ is False for p_ in parts) else True if all(p_ is True for p_ in parts) else UNK
        if res is UNK:
            return UNK
        return res if pos else not res

    def truth(e, env, case, depth=0):
        if isinstance(e, ast.UnaryOp) and isinstance(e.op, ast.Not):
            t = truth(e.operand, env, case, depth)
            return UNK if t is UNK else not t
        if isinstance(e, ast.BoolOp):
            ts = [truth(x, env, case, depth) for x in e.values]
            if isinstance(e.op, ast.And):
                return False if any(t is False for t in ts) else True if all(t is True for t in ts) else UNK
            return True if any(t is True for t in ts) else False if all(t is False for t in ts) else UNK
        if isinstance(e, ast.Compare) and len(e.ops) == 1 and isinstance(e.ops[0], (ast.Is, ast.IsNot, ast.Eq, ast.NotEq)):
            return definitely(e.ops[0], sym(e.left, env, case, None, depth), sym(e.comparators[0], env, case, None, depth), case)
        v = sym(e, env, case, None, depth)
        if v[0] == 'val' and v[1] in (True, False):
            return v[1]
        if v == ('val', None):
            return False
        return UNK

    def run(stmts, env, case, out):
        """-> True when control may fall off the end of `stmts`"""
        for st in stmts:
            if isinstance(st, ast.Expr) and isinstance(st.value, ast.Constant) or isinstance(st, ast.Pass):
                continue
            if isinstance(st, ast.Return):
                if st.value is None:
                    out.add(False)
                else:
                    v = sym(st.value, env, case)
                    out.add(v[1] if v[0] == 'val' else UNK)
                return False
            if isinstance(st, ast.If):
                t = truth(st.test, env, case)
                falls = []
                if t is not False:
                    falls.append(run(st.body, dict(env), case, out))
                if t is not True:
                    falls.append(run(st.orelse, dict(env), case, out))
                if not any(falls):
                    return False
                continue
            if isinstance(st, ast.Assign) and len(st.targets) == 1 and isinstance(st.targets[0], ast.Name):
                env[st.targets[0].id] = sym(st.value, env, case)
                continue
            if isinstance(st, ast.Raise):
                return False
            raise Stop(f'statement `{unparse(st)[:40]}` is outside the fragment')
        return True
    want = {'same': {True, NI}, 'different': {False, NI, None}, 'foreign': {False, NI, None}}
    for case, ok in want.items():
        out: set = set()
        try:
            if run(fn.node.body, {SELF: ('obj', 'self'), OTHER: ('obj', 'other')}, case, out):
                out.add(None)
        except Stop as ex:
            return str(ex)
        bad = out - ok
        if bad:
            what = {'same': 'compared with itself', 'different': 'compared with ANOTHER object of the class whose fields are all equal',
                    'foreign': 'compared with an object of another class'}[case]
            return f'{what} it may answer {sorted(map(str, bad))}'
    return None


IDENTITY_HASHES = ('object.__hash__', 'asyncio.Future.__hash__', 'asyncio.futures.Future.__hash__')


def hash_is_identity(c: ClassInfo) -> Optional[str]:
    """None when the class's `__hash__` is the identity hash under another spelling (`return object.__hash__(self)`, `return id(self)`,
    `return hash(id(self))`, `return super().__hash__()`, `__hash__ = object.__hash__`), else why not.  A hash over fields is legal next to an
    identity `__eq__` but moves when a field is assigned (PeerConnection.username is assigned after the handshake), which loses the
    object in every set / dict that holds it."""
    for st in c.node.body:
        if isinstance(st, ast.Assign) and any(unparse(t) == '__hash__' for t in st.targets):
            return None if unparse(st.value) in IDENTITY_HASHES else f'__hash__ = {unparse(st.value)}'
    m = c.methods.get('__hash__')
    if m is None:
        return None
    body = [s_ for s_ in m.node.body if not (isinstance(s_, ast.Expr) and isinstance(s_.value, ast.Constant))]
    if len(body) == 1 and isinstance(body[0], ast.Return) and body[0].value is not None:
        src = unparse(body[0].value)
        slf = m.params[0] if m.params else 'self'
        if src in (f'object.__hash__({slf})', f'id({slf})', f'hash(id({slf}))', 'super().__hash__()', f'asyncio.Future.__hash__({slf})'):
            return None
        return f'__hash__ returns {src[:60]}'
    return '__hash__ has a body the check does not read as the identity hash'


def identity_semantics(eng: Engine, ck: Check, rule: str, classes: list[tuple[str, str]], why: str):
    """`xs.remove(x)`, `x in xs`, `a == b` on these objects mean "this very object": none of the classes (nor a repository base class)
    defines a value-based __eq__ / __hash__ or is a dataclass with generated equality.  A value-based __eq__ makes list.remove() take out
    the FIRST EQUAL element -- another live object -- and leave the one that was meant.  A hand-written __eq__ / __hash__ is accepted when
    it provably IS the identity (eq_is_identity / hash_is_identity)."""
    for name, rel in classes:
        ci = eng.cls(name, rel)
        for c in eng.repo.mro(ci):
            problems = []
            if '__eq__' in c.methods:
                ck.visited(c.methods['__eq__'])
                r = eq_is_identity(eng, c, c.methods['__eq__'])
                if r:
                    problems.append(f'__eq__: {r}')
                elif '__hash__' not in c.methods and not any(isinstance(st, ast.Assign) and any(unparse(t) == '__hash__' for t in st.targets) for st in c.node.body):
                    problems.append('__eq__ without __hash__ sets __hash__ to None: the objects can no longer be put in a set or used as a key')
            if '__ne__' in c.methods:
                problems.append('__ne__ is defined')
            problems += [f'{unparse(t)} is bound to {unparse(st.value)}' for st in c.node.body if isinstance(st, ast.Assign) for t in st.targets if unparse(t) in ('__eq__', '__ne__')]
            h = hash_is_identity(c)
            if h:
                problems.append(h)
            dc = [d for d in c.node.decorator_list if 'dataclass' in unparse(d)]
            dc_eq = bool(dc) and not any(isinstance(d, ast.Call) and const(kw(d, 'eq')) is False for d in dc)
            if dc_eq:
                problems.append('a dataclass-generated __eq__')
            ck.ob(rule, c, c.node, f'{c.name} (base of {name}) compares by identity: {why}', not problems,
                  f'{c.name}: {"; ".join(problems)}: equal is no longer identical; `in` / `list.remove()` / `==` pick the first EQUAL object',
                  construct=f'{c.name} identity')


# --------------------------------------------------------------------------- cancellation is never swallowed by a coroutine
CANCEL_SWALLOW_OK = {
    'utils.py:cancel_task': 'awaits the task it has just cancelled itself: that task\'s CancelledError is the expected outcome, not a cancellation of the caller',
}


def cancellation_propagates(eng: Engine, ck: Check, rule: str, relies: str):
    """`task.cancel()` ends a library task: every coroutine of the package that catches CancelledError (or BaseException / bare except)
    re-raises it on every path out of the handler.  Synchronous functions (done-callbacks reading `task.result()`) are not coroutines
    and cannot be cancelled.  A swallowed cancellation consumes the request: the task goes on, and whoever cancelled it holds no
    handle any more."""
    import sa.cfg as cfgm

    def always_raises(stmts) -> bool:
        if not stmts:
            return False
        st = stmts[-1]
        if isinstance(st, ast.Raise):
            return True
        if isinstance(st, ast.If):
            return always_raises(st.body) and always_raises(st.orelse)
        if isinstance(st, ast.Try):
            if st.finalbody and always_raises(st.finalbody):
                return True
            return (always_raises(st.body) or always_raises(st.orelse)) and all(always_raises(h.body) for h in st.handlers)
        if isinstance(st, (ast.With, ast.AsyncWith)):
            return always_raises(st.body)
        return False
    n = 0
    for fn in eng.repo.all_funcs():
        if not fn.is_async:
            continue
        for t in [x for x in walk_local(fn.node) if isinstance(x, ast.Try)]:
            for h in t.handlers:
                if cfgm.handler_catches(h, 'cancel') != 'must':
                    continue
                n += 1
                ok = always_raises(h.body) or f'{fn.module.rel}:{fn.qualname}' in CANCEL_SWALLOW_OK
                ck.ob(rule, fn, h, f'{fn.qualname}: the handler that catches cancellation (`except {", ".join(handler_type_names(h)) or "<bare>"}`) re-raises it on every '
                      f'path ({relies})', ok, 'the CancelledError is consumed: the cancelled task continues as if nothing happened, and the canceller '
                      '(abort/pause, stop(), a watchdog stopping itself) has already dropped its handle', construct=f'{fn.qualname} cancellation re-raised at {alpha_key(h.type) if h.type is not None else "bare"}')
    ck.floor(rule + '.cancel_handlers', n, 5)


# --------------------------------------------------------------------------- objects tested for PRESENCE with `if x:` have no truth value of their own
def presence_truthiness(eng: Engine, ck: Check, rule: str, classes: list[tuple[str, str]], why: str):
    """`if request.timer:`, `if self._session and ..`, `if not peer.connection` mean "is there one": none of the classes (nor a repository base
    class) defines __bool__ or __len__.  With a truth value of its own (a timer that is falsy until started, an empty container
    class) the presence test silently takes the other branch."""
    def always_true(f_: FuncInfo) -> bool:
        """every exit of the method is `return True` (what object.__bool__ answers)"""
        rets = [n for n in walk_local(f_.node) if isinstance(n, ast.Return)]
        body = [s_ for s_ in f_.node.body if not (isinstance(s_, ast.Expr) and isinstance(s_.value, ast.Constant))]
        return bool(rets) and all(const(r.value) is True for r in rets) and bool(body) and isinstance(body[-1], ast.Return) and \
            not any(isinstance(n, (ast.Raise, ast.Call, ast.Await)) for n in walk_local(f_.node))
    for name, rel in classes:
        ci = eng.cls(name, rel)
        for c in eng.repo.mro(ci):
            defines = [m for m in ('__bool__', '__len__') if m in c.methods]
            # an explicit `__bool__` that answers True on every path IS the default truth value (and takes precedence over __len__)
            for b_ in eng.repo.mro(ci):
                if '__bool__' in b_.methods:
                    if always_true(b_.methods['__bool__']):
                        ck.visited(b_.methods['__bool__'])
                        defines = []
                    break
                if b_ is c:
                    break
            ck.ob(rule, c, c.node, f'{c.name} has no truth value of its own: {why}', not defines,
                  f'{c.name} defines {defines}: `if <{name.lower()}>:` no longer means "there is one"', construct=f'{c.name} truthiness')


# --------------------------------------------------------------------------- wire strings of legacy clients
def string_decoding_tolerant(eng: Engine, ck: Check, rule: str, relies: str):
    """string.deserialize decodes utf-8 and falls back to a single-byte code page for names written by legacy clients; without the
    fall-back every message that carries such a name is dropped by the reader as undecodable."""
    m = eng.func('protocol/primitives.py', 'string.deserialize')
    ck.visited(m)
    # the decoding may be written in place or in a helper of the repository that string.deserialize calls (utils.decode_string)
    where = [m] + [cal for x in calls_in(m.node) for cal in eng.res.callees(x, m) if cal.cls is None or cal.cls is m.cls]
    dec, ok = [], False
    for f_ in where:
        d_ = [x for x in calls_in(f_.node) if call_name(x) == 'decode' and x.args and isinstance(const(x.args[0]), str)]
        dec += d_
        utf = [x for x in d_ if const(x.args[0]).lower().replace('-', '') == 'utf8']
        for x in utf:
            t = protected_by_try_catching(eng, f_, x, 'UnicodeDecodeError', 'UnicodeError', 'ValueError')
            if t is not None:
                for h in t.handlers:
                    if any(call_name(y) == 'decode' and y.args and const(y.args[0]) in ('cp1252', 'latin-1', 'latin1', 'iso-8859-1') for y in calls_in(h)):
                        ok = True
        if any(kw(x, 'errors') is not None and const(kw(x, 'errors')) in ('replace', 'ignore', 'backslashreplace', 'surrogateescape') for x in utf):
            ok = True
        if f_ is not m:
            ck.visited(f_)
    ck.ob(rule, m, m.node, f'string.deserialize falls back to a single-byte code page when the bytes are not utf-8 ({relies})', ok,
          f'decode calls {[unparse(x) for x in dec]}: a name registered by a legacy client in a Windows code page makes the whole message undecodable', construct='string decode fallback')


# --------------------------------------------------------------------------- enum members that guards distinguish are distinct
def enum_members_distinct(eng: Engine, ck: Check, rule: str, enums: list[tuple[str, str]], why: str):
    """Two members of an Enum / Flag with the same value are ONE member under two names (Python accepts that silently): a guard on the
    one is a guard on the other.  Members written as a combination of other members (`IGNORE = A | B`) are meant as aliases."""
    for name, rel in enums:
        ci = eng.repo.find_cls(name, rel)
        if ci is None:
            raise AnalysisError(f'anchor class vanished: {rel}:{name}')
        is_flag = any('Flag' in b for b in ci.bases)
        vals: dict[str, object] = {}
        primary: list[str] = []
        last = None
        for st in ci.node.body:
            if not (isinstance(st, ast.Assign) and len(st.targets) == 1 and isinstance(st.targets[0], ast.Name)) or st.targets[0].id.startswith('_'):
                continue
            nm = st.targets[0].id
            v = st.value
            refs = [n.id for n in ast.walk(v) if isinstance(n, ast.Name) and n.id in vals]

            def ev(e):
                if isinstance(e, ast.Constant):
                    return e.value
                if isinstance(e, ast.Name) and e.id in vals:
                    return vals[e.id]
                if isinstance(e, ast.Call) and call_name(e) == 'auto':
                    if is_flag:
                        hi = max([x for x in vals.values() if isinstance(x, int)] + [0])
                        return 1 if hi == 0 else 1 << hi.bit_length()
                    return (last + 1) if isinstance(last, int) else 1
                if isinstance(e, ast.BinOp) and isinstance(e.op, (ast.LShift, ast.BitOr, ast.BitAnd, ast.Add, ast.Sub, ast.Mult, ast.BitXor)):
                    a, b = ev(e.left), ev(e.right)
                    if isinstance(a, int) and isinstance(b, int):
                        return {ast.LShift: a << b if b < 64 else None, ast.BitOr: a | b, ast.BitAnd: a & b, ast.Add: a + b, ast.Sub: a - b, ast.Mult: a * b,
                                ast.BitXor: a ^ b}[type(e.op)]
                if isinstance(e, ast.UnaryOp) and isinstance(e.op, (ast.Invert, ast.USub)):
                    a = ev(e.operand)
                    return (~a if isinstance(e.op, ast.Invert) else -a) if isinstance(a, int) else None
                if isinstance(e, ast.Tuple):
                    return tuple(ev(x) for x in e.elts)
                return ('?', unparse(e))
            val = ev(v)
            vals[nm] = val
            if isinstance(val, int):
                last = val
            if not refs:
                primary.append(nm)
        dup = {}
        for nm in primary:
            dup.setdefault(repr(vals[nm]), []).append(nm)
        clash = {k: v for k, v in dup.items() if len(v) > 1}
        ck.ob(rule, ci, ci.node, f'the members of {name} have distinct values ({why})', not clash and len(primary) >= 2,
              f'same value under several names: {clash} -- the second name is an alias of the first; every test for the one is a test for the other',
              construct=f'{name} members distinct')
        if is_flag:
            multi = [nm for nm in primary if isinstance(vals[nm], int) and vals[nm] != 0 and vals[nm] & (vals[nm] - 1)]
            ck.ob(rule, ci, ci.node, f'every primary member of the flag {name} is a single bit', not multi, f'{multi} span several bits: `x & MEMBER` is true for unrelated members',
                  construct=f'{name} single bits')


# --------------------------------------------------------------------------- a background job is not ended by an exception of the library
def job_raises_nothing_typed(eng: Engine, ck: Check, rule: str, rel: str, qualname: str, why: str):
    """BackgroundTask.runner has no exception handler: whatever leaves the job function ends the task for good (its handle stays set, a
    later start() does not revive it).  No exception class of the repository / no typed builtin can leave the job (the typed
    exception-escape analysis; '*' = an exception of unknown class from a call the analysis does not see into, is not counted)."""
    f = eng.func(rel, qualname)
    ck.visited(f)
    typed = sorted(t for t in eng.escape().of(f) if t not in ('*', '<cancel>'))
    ck.ob(rule, f, f.node, f'no typed exception can leave {qualname} ({why})', not typed,
          f'{typed} can propagate out of the job: BackgroundTask.runner does not catch it, the task ends and is never restarted', construct=f'{qualname} raises nothing typed')


# --------------------------------------------------------------------------- network: which connections may be re-used for sending
def active_connection_definition(eng: Engine, ck: Check, rule: str, relies: str):
    """get_active_peer_connections returns the connections of that user and type that are CONNECTED and ESTABLISHED -- nothing that is
    connecting, closing or closed (send_message on a closing connection logs and returns: the message is silently not sent)."""
    m = eng.func(NET, 'Network.get_active_peer_connections')
    ck.visited(m)
    keeps = collected_returns(eng, m)
    ok = bool(keeps)
    detail = []
    universe = {'state': ('ConnectionState', CONN), 'connection_state': ('PeerConnectionState', CONN)}

    def members(name, rel):
        ci = eng.repo.find_cls(name, rel)
        if ci is None:
            raise AnalysisError(f'anchor class vanished: {rel}:{name}')
        return {st.targets[0].id for st in ci.node.body if isinstance(st, ast.Assign) and len(st.targets) == 1 and isinstance(st.targets[0], ast.Name)
                and not st.targets[0].id.startswith('_')}
    for conds, elt in keeps:
        # the values of each field that pass ALL the tests on it: `== M`, `is M`, `in (M..)` keep the named members, their negations
        # (`!= M`, `not in (M..)`) keep the rest of the enum
        admitted = {f_: members(*u) for f_, u in universe.items()}
        for e, pol in conds:
            a = cmp_atom(e)
            if not a or a[0] not in ('eq', 'is', 'in'):
                continue
            fld = unparse(a[1]).split('.')[-1]
            if fld not in admitted:
                continue
            named = enum_members_in(a[2])
            admitted[fld] &= named if pol else (members(*universe[fld]) - named)
        ok = ok and admitted['state'] == {'CONNECTED'} and admitted['connection_state'] == {'ESTABLISHED'}
        detail.append({k: sorted(v) for k, v in admitted.items()})
    ck.ob(rule, m, m.node, f'an active peer connection is one whose state is CONNECTED and whose connection_state is ESTABLISHED ({relies})', ok,
          f'kept: {detail}: a connection that is CLOSING (or not yet connected) is handed out; send_message() on it logs and returns without sending',
          construct='active connection definition')


def collected_returns(eng: Engine, fn: FuncInfo) -> list:
    """[(conditions, element)] for a function that returns a filtered selection: `return [x for x in XS if C]` or an append loop."""
    out = []
    for r in [n for n in walk_local(fn.node) if isinstance(n, ast.Return) and n.value is not None]:
        v = expand_aliases(fn, r.value)
        if isinstance(v, (ast.ListComp, ast.GeneratorExp, ast.SetComp)) and len(v.generators) == 1:
            out.append(([a for i_ in v.generators[0].ifs for a in split_conj(i_, True)], v.elt))
        elif isinstance(r.value, ast.Name):
            for c in collected(eng, fn, r.value.id):
                out.append((c['conds'], c['elt']))
    return out


# --------------------------------------------------------------------------- transfer states: what an operation of a state really runs
def state_operation(eng: Engine, ci: ClassInfo, op: str) -> Optional[FuncInfo]:
    """The function that runs for `<state object>.op()`: the class's own method, a class-level alias (`queue = FailedState.queue`),
    or the inherited one."""
    repo = eng.repo
    for c in repo.mro(ci):
        for st in c.node.body:
            if isinstance(st, ast.Assign) and len(st.targets) == 1 and isinstance(st.targets[0], ast.Name) and st.targets[0].id == op and \
                    isinstance(st.value, (ast.Attribute, ast.Name)):
                ref = st.value.attr if isinstance(st.value, ast.Attribute) else st.value.id
                if isinstance(st.value, ast.Attribute) and isinstance(st.value.value, ast.Name):
                    oc = repo.find_cls(st.value.value.id, TSTATE)
                    if oc is not None:
                        t = next((x.methods[ref] for x in repo.mro(oc) if ref in x.methods), None)
                        if t is not None:
                            return t
                t = next((x.methods[ref] for x in repo.mro(c) if ref in x.methods), None)
                if t is not None:
                    return t
        if op in c.methods:
            return c.methods[op]
    return None


def class_flag(eng: Engine, ci: ClassInfo, src: str) -> Optional[bool]:
    """The truth of `self.<NAME>` / `type(self).<NAME>` / `self.__class__.<NAME>` for objects of class `ci` when NAME is bound once, to a
    constant, in the body of the first class of ci's MRO that binds it (and no method assigns `self.<NAME>`); None otherwise."""
    m_ = re.fullmatch(r'(?:self|type\(self\)|self\.__class__)\.([A-Za-z_][A-Za-z_0-9]*)', src)
    if not m_:
        return None
    name = m_.group(1)
    for c in eng.repo.mro(ci):
        if any(isinstance(n, (ast.Assign, ast.AugAssign, ast.AnnAssign)) and any(
                isinstance(t, ast.Attribute) and t.attr == name for t in (n.targets if isinstance(n, ast.Assign) else [n.target]))
                for f_ in c.methods.values() for n in ast.walk(f_.node)):
            return None
        binds = [st for st in c.node.body if isinstance(st, (ast.Assign, ast.AnnAssign)) and any(
            isinstance(t, ast.Name) and t.id == name for t in (st.targets if isinstance(st, ast.Assign) else [st.target]))]
        if not binds:
            continue
        if len(binds) == 1 and isinstance(binds[0].value, ast.Constant):
            return bool(binds[0].value.value)
        return None
    return None


def requeue_forgets_local_file(eng: Engine, ck: Check, rule: str):
    """A download that is queued again from ABORTED or COMPLETE starts over: its progress and its local path are forgotten
    (`reset_progress_vars()`, `reset_local_vars()` for downloads) before the transition.  Every abort removes the local file, but the
    path is cleared only once the (suspending) removal has finished; a re-queue must not rely on that -- a stale path is used as it
    is by the next attempt (offset = size of whatever file has that name now, opened in append mode)."""
    from .c03 import state_classes
    states = state_classes(eng)
    for val in ('ABORTED', 'COMPLETE'):
        ci = states[val]
        m = state_operation(eng, ci, 'queue')
        if m is None:
            raise AnalysisError(f'{ci.name}.queue not found')
        ck.visited(m)
        got = {}
        for nm in ('reset_local_vars', 'reset_progress_vars'):
            calls = [x for x in calls_on(m.node, nm) if unparse(x.func.value) == 'self.transfer']
            ok = False
            for x in calls:
                gs = [(unparse(e2), p2) for e, pol, _ in eng.guards_at(m, x) for e2, p2 in split_conj(expand_aliases(m, e), pol)]
                # a guard on a constant of the state class (`self.<FLAG>`) is decided for THIS state's class: the function may be shared
                # between states (class-level alias, inheritance) and switched per class
                gs = [(g, pol) for g, pol in gs if class_flag(eng, ci, g) is not pol or class_flag(eng, ci, g) is None]
                if all((g == 'self.transfer.is_download()' and pol) or (g == 'self.transfer.is_upload()' and not pol) for g, pol in gs):
                    ok = True
            got[nm] = ok
        c = eng.cfg(m)
        trs = [n for x in calls_on(m.node, 'transition') for n in c.nodes_for(x)]
        before = all(any(n2.id < t.id for x in calls_on(m.node, nm) for n2 in c.nodes_for(x)) for nm in got for t in trs) if trs and all(got.values()) else False
        ck.ob(rule, m, m.node, f'{ci.name}.queue() (the function that runs for it: {m.qualname}) forgets the local path and the progress of a download before it '
              'queues it again', all(got.values()) and before,
              f'{ {k: v for k, v in got.items()} }: the re-queued download keeps its old local_path; if the file behind it was removed (abort) or replaced meanwhile, '
              'the next attempt resumes into / appends to a file that is not its own', construct=f'{val}.queue forgets local file')
