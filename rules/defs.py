"""Definitions the property rules take for granted.

Round 3 of the seeds (DESIGN.md 13.4) changed what a small helper MEANS and left the functions that use it untouched.  Each function
below pins the meaning of one such helper as an obligation of the calling property (rule id passed in), so that the same definition
can be shared by every property that relies on it.  They are deliberately small and structural (patterns, enum-member sets), and
they accept the equivalent spellings the refactoring controls produced.
"""
from __future__ import annotations
from .common import *


def _single_return(fn: FuncInfo) -> Optional[ast.AST]:
    rets = [n for n in walk_local(fn.node) if isinstance(n, ast.Return) and n.value is not None]
    return expand_aliases(fn, rets[0].value) if len(rets) == 1 else None


def _method(eng: Engine, rel: str, cls: str, name: str) -> FuncInfo:
    ci = eng.cls(cls, rel)
    m = ci.methods.get(name)
    if m is None:
        raise AnalysisError(f'anchor function vanished: {rel}:{cls}.{name}')
    return m


# --------------------------------------------------------------------------- Transfer predicates
def transfer_direction_predicates(eng: Engine, ck: Check, rule: str):
    for name, member in (('is_upload', 'UPLOAD'), ('is_download', 'DOWNLOAD')):
        m = _method(eng, TMODEL, 'Transfer', name)
        ck.visited(m)
        v = _single_return(m)
        a = cmp_atom(v) if v is not None else None
        ok = bool(a and a[0] in ('eq', 'is') and {chain_str(a[1]), chain_str(a[2])} == {'self.direction', f'TransferDirection.{member}'})
        ck.ob(rule, m, m.node, f'Transfer.{name}() is `direction == {member}`', ok, f'returns `{unparse(v) if v is not None else "?"}`',
              construct=f'Transfer.{name} definition')


def transfer_state_sets(eng: Engine, ck: Check, rule: str, which=('is_processing', 'is_transferring', 'is_finalized')):
    want = {'is_processing': {'DOWNLOADING', 'UPLOADING', 'INITIALIZING'}, 'is_transferring': {'DOWNLOADING', 'UPLOADING'},
            'is_finalized': {'COMPLETE', 'ABORTED', 'FAILED'}}
    for name in which:
        m = _method(eng, TMODEL, 'Transfer', name)
        ck.visited(m)
        v = _single_return(m)
        a = cmp_atom(v) if v is not None else None
        ok = bool(a and a[0] == 'in' and chain_str(a[1]) == 'self.state.VALUE' and enum_members_in(a[2]) == want[name])
        ck.ob(rule, m, m.node, f'Transfer.{name}() is `state in {sorted(want[name])}`', ok, f'returns `{unparse(v) if v is not None else "?"}`',
              construct=f'Transfer.{name} definition')


def transfer_identity(eng: Engine, ck: Check, rule: str):
    """Two Transfer objects are equal iff (remote_path, username, direction) agree -- add() de-duplicates with it, the cache drops
    stored records that equal no current transfer."""
    m = _method(eng, TMODEL, 'Transfer', '__eq__')
    ck.visited(m)
    op = [p_ for p_ in m.params if p_ != 'self'][0]
    rets = [n for n in walk_local(m.node) if isinstance(n, ast.Return) and n.value is not None and unparse(n.value) != 'NotImplemented']
    fields_self, fields_other = set(), set()
    ok = len(rets) == 1
    if ok:
        v = expand_aliases(m, rets[0].value)
        ok = isinstance(v, ast.Compare) and len(v.ops) == 1 and isinstance(v.ops[0], ast.Eq)
        if ok:
            for side in (v.left, v.comparators[0]):
                for n in ast.walk(side):
                    if isinstance(n, ast.Attribute) and isinstance(n.value, ast.Name):
                        (fields_self if n.value.id == 'self' else fields_other if n.value.id == op else set()).add(n.attr)
    want = {'remote_path', 'username', 'direction'}
    ck.ob(rule, m, m.node, 'Transfer.__eq__ compares exactly (remote_path, username, direction) of both objects', ok and fields_self == want and fields_other == want,
          f'self fields {sorted(fields_self)}, other fields {sorted(fields_other)}', construct='Transfer identity')


def enumerated_slots(eng: Engine, slots: list, fn, e, depth=0) -> set:
    """Slots that the expression `e` (in function fn) enumerates in full: `self.S`, a tuple/list of those, a local list
    they are appended to, `self.get_tasks()`-like helpers (one level).  `a or b` enumerates nothing (first non-None only)."""
    sa = single_assignments(fn)
    tcls = eng.cls('Transfer', TMODEL)
    if isinstance(e, ast.Attribute) and isinstance(e.value, ast.Name) and e.value.id == 'self' and e.attr in slots:
        return {e.attr}
    if isinstance(e, (ast.Tuple, ast.List, ast.Set)):
        return set().union(*[enumerated_slots(eng, slots, fn, x, depth) for x in e.elts]) if e.elts else set()
    if isinstance(e, ast.Starred):
        return enumerated_slots(eng, slots, fn, e.value, depth)
    if isinstance(e, ast.Name):
        out = set()
        if e.id in sa and sa[e.id] is not None and depth < 3:
            out |= enumerated_slots(eng, slots, fn, sa[e.id], depth + 1)
        for c in calls_on(fn.node, 'append') + calls_on(fn.node, 'extend') + calls_on(fn.node, 'add'):
            if isinstance(c.func.value, ast.Name) and c.func.value.id == e.id and c.args:
                gs = [g for g, pol, _ in eng.guards_at(fn, c)]
                arg_slots = enumerated_slots(eng, slots, fn, c.args[0], depth + 1)
                # an append guarded by anything but the slot's own None-test does not count
                if all(any(mentions_attr(g, sl) for sl in arg_slots) or (isinstance(c.args[0], ast.Name) and mentions_name(g, c.args[0].id))
                       for g in gs):
                    out |= arg_slots
        return out
    if isinstance(e, ast.Call) and isinstance(e.func, ast.Attribute) and isinstance(e.func.value, ast.Name) and \
            e.func.value.id == 'self' and e.func.attr in tcls.methods and depth < 2:
        m = tcls.methods[e.func.attr]
        out = set()
        rets = [r.value for r in walk_local(m.node) if isinstance(r, ast.Return) and r.value is not None]
        if len(rets) == 1:
            out = enumerated_slots(eng, slots, m, rets[0], depth + 1)
        return out
    if isinstance(e, ast.Call) and call_name(e) in ('list', 'tuple', 'set', 'sorted') and e.args:
        return enumerated_slots(eng, slots, fn, e.args[0], depth)
    if isinstance(e, (ast.IfExp, ast.BinOp)):
        # `([a] if a is not None else []) + ([b] if b is not None else [])`: evaluated for every combination of set / empty slots;
        # a slot is enumerated iff it is in the value whenever it is set (operator precedence included: the AST is what runs)
        import itertools as _it
        tup_alias = {}
        for n_ in walk_local(fn.node):
            if isinstance(n_, ast.Assign) and isinstance(n_.targets[0], ast.Tuple) and isinstance(n_.value, ast.Tuple) and len(n_.targets[0].elts) == len(n_.value.elts):
                for t_, v_ in zip(n_.targets[0].elts, n_.value.elts):
                    if isinstance(t_, ast.Name):
                        tup_alias[t_.id] = v_

        def slot_of(x):
            if isinstance(x, ast.Name) and x.id in tup_alias:
                x = tup_alias[x.id]
            elif isinstance(x, ast.Name) and x.id in sa and sa[x.id] is not None:
                x = sa[x.id]
            if isinstance(x, ast.Attribute) and isinstance(x.value, ast.Name) and x.value.id == 'self' and x.attr in slots:
                return x.attr
            return None

        def ev(x, env):
            if isinstance(x, (ast.List, ast.Tuple)):
                out_ = set()
                for el in x.elts:
                    s_ = slot_of(el)
                    if s_ is None or not env[s_]:
                        return None          # an unknown element, or an empty slot put into the result
                    out_.add(s_)
                return out_
            if isinstance(x, ast.BinOp) and isinstance(x.op, ast.Add):
                l_, r_ = ev(x.left, env), ev(x.right, env)
                return None if l_ is None or r_ is None else l_ | r_
            if isinstance(x, ast.IfExp):
                t_ = x.test
                pol_ = True
                while isinstance(t_, ast.UnaryOp) and isinstance(t_.op, ast.Not):
                    t_, pol_ = t_.operand, not pol_
                a_ = cmp_atom(t_)
                if a_ and a_[0] == 'is' and is_none_const(a_[2]) and slot_of(a_[1]):
                    truth = not env[slot_of(a_[1])]
                elif isinstance(t_, ast.Compare) and isinstance(t_.ops[0], ast.IsNot) and is_none_const(t_.comparators[0]) and slot_of(t_.left):
                    truth = env[slot_of(t_.left)]
                elif slot_of(t_):
                    truth = env[slot_of(t_)]
                else:
                    return None
                return ev(x.body if truth == pol_ else x.orelse, env)
            return None
        full = set(slots)
        for combo in _it.product((False, True), repeat=len(slots)):
            env_ = dict(zip(slots, combo))
            v_ = ev(e, env_)
            if v_ is None:
                return set()
            full &= {s_ for s_ in slots if not env_[s_]} | v_      # s stays only if (set => contained)
        return full
    if isinstance(e, (ast.ListComp, ast.GeneratorExp, ast.SetComp)) and len(e.generators) == 1 and \
            isinstance(e.elt, ast.Name) and isinstance(e.generators[0].target, ast.Name) and e.elt.id == e.generators[0].target.id:
        g = e.generators[0]
        # a filter may only drop empty (None) or finished entries
        if all(mentions_name(i, e.elt.id) and ('None' in unparse(i) or 'done()' in unparse(i) or unparse(i) == e.elt.id) for i in g.ifs):
            return enumerated_slots(eng, slots, fn, g.iter, depth)
    return set()



def transfer_get_tasks(eng: Engine, ck: Check, rule: str, slots: list[str]):
    """get_tasks() returns every task slot that is set (the scheduler's "an attempt is in flight" test and cancel_tasks build on it)."""
    m = _method(eng, TMODEL, 'Transfer', 'get_tasks')
    ck.visited(m)
    rets = [n for n in walk_local(m.node) if isinstance(n, ast.Return) and n.value is not None]
    ok = len(rets) == 1
    got = enumerated_slots(eng, slots, m, rets[0].value) if ok else set()
    ck.ob(rule, m, m.node, f'Transfer.get_tasks() returns every task slot that is set ({slots})', ok and set(slots) <= got,
          f'slots returned: {sorted(got)}', construct='get_tasks covers slots')


# --------------------------------------------------------------------------- connection: queueing
def queue_messages_definition(eng: Engine, ck: Check, rule: str):
    """queue_messages(*m) = one queue_message per message, in order; queue_message creates the send task for that message and keeps it in
    the connection's own queue."""
    qm = _method(eng, CONN, 'DataConnection', 'queue_messages')
    q1 = _method(eng, CONN, 'DataConnection', 'queue_message')
    ck.visited(qm)
    ck.visited(q1)
    vp = qm.node.args.vararg.arg if qm.node.args.vararg else qm.params[-1]
    calls = [x for x in calls_in(qm.node) if call_name(x) == 'queue_message' and unparse(x.func.value) == 'self']
    ok = len(calls) == 1 and len(calls[0].args) == 1 and isinstance(calls[0].args[0], ast.Name)
    if ok:
        var = calls[0].args[0].id
        binder = next((a for a in ancestors(calls[0]) if isinstance(a, (ast.For, ast.ListComp, ast.GeneratorExp))), None)
        if isinstance(binder, ast.For):
            ok = unparse(binder.iter) == vp and unparse(binder.target) == var and not eng.guards_at(qm, calls[0])
        elif binder is not None:
            g = binder.generators[0]
            ok = len(binder.generators) == 1 and unparse(g.iter) == vp and unparse(g.target) == var and not g.ifs
        else:
            ok = False
    ck.ob(rule, qm, qm.node, 'queue_messages queues every message it is given, once, in order', ok, '', construct='queue_messages definition')
    mp = [p_ for p_ in q1.params if p_ != 'self'][0]
    tasks = [x for x in calls_in(q1.node) if call_name(x) == 'create_task' and x.args and phas(x.args[0], f'self.send_message({mp})')]
    kept = [x for x in calls_in(q1.node) if isinstance(x.func, ast.Attribute) and x.func.attr == 'append' and unparse(x.func.value) == 'self._queued_messages']
    ok = len(tasks) == 1 and len(kept) == 1 and not eng.guards_at(q1, tasks[0])
    ck.ob(rule, q1, q1.node, 'queue_message starts one task sending exactly that message on this connection and keeps it in the connection\'s own queue', ok, '',
          construct='queue_message definition')


def network_send_helpers(eng: Engine, ck: Check, rule: str):
    """send_server_messages / queue_server_messages pass every message to the server connection."""
    for name, via in (('send_server_messages', 'send_message'), ('queue_server_messages', 'queue_messages')):
        m = eng.repo.find_func(NET, f'Network.{name}')
        if m is None:
            raise AnalysisError(f'anchor function vanished: {NET}:Network.{name}')
        ck.visited(m)
        vp = m.node.args.vararg.arg if m.node.args.vararg else [p_ for p_ in m.params if p_ != 'self'][0]
        xs = [x for x in calls_in(m.node) if call_name(x) == via and mentions_attr(x.func, 'server_connection')]
        ok = len(xs) == 1
        if ok:
            x = xs[0]
            star = any(isinstance(a, ast.Starred) and unparse(a.value) == vp for a in x.args)
            loop = next((a for a in ancestors(x) if isinstance(a, (ast.For, ast.ListComp, ast.GeneratorExp))), None)
            if star:
                ok = True
            elif isinstance(loop, ast.For):
                ok = unparse(loop.iter) == vp and x.args and unparse(x.args[0]) == unparse(loop.target)
            elif loop is not None:
                g = loop.generators[0]
                ok = unparse(g.iter) == vp and not g.ifs and x.args and unparse(x.args[0]) == unparse(g.target)
            else:
                ok = False
        ck.ob(rule, m, m.node, f'Network.{name} hands every message it is given to the server connection ({via})', ok, '', construct=f'{name} definition')


# --------------------------------------------------------------------------- shares: lookups go through the lock test
def shared_item_lookups(eng: Engine, ck: Check, rule: str):
    """get_shared_item / find_shared_item / find_shared_item_cache pass the requesting user on to get_shared_item_cache (where the lock
    test raises FileNotSharedError)."""
    for name in ('get_shared_item', 'find_shared_item', 'find_shared_item_cache'):
        m = eng.repo.find_func(SHARES, f'SharesManager.{name}')
        if m is None:
            continue
        ck.visited(m)
        if 'username' not in m.params:
            ck.ob(rule, m, m.node, f'{name} takes the requesting user', False, f'params {m.params}', construct=f'{name} takes user')
            continue
        inner = [x for x in calls_in(m.node) if call_name(x) in ('get_shared_item_cache', 'get_shared_item', 'find_shared_item_cache') and call_name(x) != name]
        passes = [x for x in inner if any(unparse(a) == 'username' for a in x.args) or any(k.arg == 'username' and unparse(k.value) == 'username' for k in x.keywords)]
        ck.ob(rule, m, m.node, f'{name}: every delegated lookup is made for the same requesting user', bool(inner) and len(passes) == len(inner),
              f'lookups {[unparse(x)[:60] for x in inner]}', construct=f'{name} passes user')


# --------------------------------------------------------------------------- utils.cancel_task
def cancel_task_definition(eng: Engine, ck: Check, rule: str):
    m = eng.func('utils.py', 'cancel_task')
    ck.visited(m)
    tp = m.params[0]
    canc = [x for x in calls_in(m.node) if call_name(x) == 'cancel' and unparse(x.func.value) == tp]
    aw = [n for n in walk_local(m.node) if isinstance(n, ast.Await) and mentions_name(n.value, tp)]
    ok = len(canc) == 1 and len(aw) >= 1
    if ok:
        c = eng.cfg(m)
        ok = c.nodes_for(canc[0])[0].id < c.nodes_for(aw[0])[0].id
    ck.ob(rule, m, m.node, 'cancel_task(t) cancels t and then awaits it (the cancelled task has finished its clean-up when cancel_task returns)', ok, '',
          construct='cancel_task definition')


# --------------------------------------------------------------------------- transfer states: public methods run under the state lock
def state_lock_wrapping(eng: Engine, ck: Check, rule: str, only=('__init__', '__setstate__')) -> dict[str, bool]:
    """Every TransferState object re-binds its public methods to the locked wrapper when it is created and when it is un-pickled: by a
    loop over inspect.getmembers(.., ismethod) written in a helper (`_wrap_lock` today) or in place.  -> {method name: wraps}"""
    base = eng.cls('TransferState', TSTATE)
    sites: dict[str, list] = {}
    for m in base.methods.values():
        for c in calls_in(m.node):
            if call_name(c) == 'setattr' and any(call_name(x) == '_with_state_lock' for x in ast.walk(c)):
                sites.setdefault(m.name, []).append(c)
    n_sites = sum(len(v) for v in sites.values())
    ck.floor(rule + '.setattr', n_sites, 1)
    good_loops: dict[str, list] = {}
    for mn, cs in sites.items():
        m = base.methods[mn]
        ck.visited(m)
        for c in cs:
            gs = eng.guards_at(m, c)
            loops = [a for a in ancestors(c) if isinstance(a, ast.For)]
            own = [g for g in gs if loops and any(x is g[2].ast or any(y is g[2].ast for y in ast.walk(x)) for x in ast.walk(loops[0]))] if loops else gs
            ok = len(own) == 1 and (not own[0][1]) and call_name(own[0][0]) == 'startswith' and const(own[0][0].args[0]) == '_'
            it_ok = bool(loops) and 'getmembers' in unparse(loops[0].iter) and 'ismethod' in unparse(loops[0].iter)
            outer = [g for g in gs if g not in own]
            why = f'guards: {[unparse(g[0]) for g in gs]}, iterates inspect.getmembers(ismethod): {it_ok}'
            if loops and not it_ok:
                # an explicit table of operation names instead of reflection: it must name every state operation of the base class
                tbl = resolve_named_constant(loops[0].iter) if not isinstance(loops[0].iter, (ast.Tuple, ast.List)) else loops[0].iter
                if isinstance(tbl, (ast.Tuple, ast.List, ast.Set)) and all(isinstance(const(e_), str) for e_ in tbl.elts):
                    names = {const(e_) for e_ in tbl.elts}
                    ops = {n_ for n_, f_ in base.methods.items() if not n_.startswith('_') and f_.is_async}
                    it_ok = ops <= names
                    ok = not own
                    why = f'the table {sorted(names)} misses the state operation(s) {sorted(ops - names)}: they run without the state lock and without the re-dispatch on the current state'
            ck.ob(rule, m, c, 'every public method (name not starting with "_") is re-bound to the locked wrapper',
                  ok and it_ok, why, construct=f'wrap loop in {mn}')
            if ok and it_ok and not outer and len(loops) == 1:
                good_loops.setdefault(mn, []).append(loops[0])
    helpers = {mn for mn in good_loops if mn not in only}
    out = {}
    for nm in only:
        m = base.methods.get(nm)
        ok = m is not None and (nm in good_loops or any(not eng.guards_at(m, c) for h in helpers for c in calls_on(m.node, h)))
        out[nm] = bool(ok)
    return out


# --------------------------------------------------------------------------- network: finalisation of a peer connection
def connection_finalisation(eng: Engine):
    """A peer connection is finalised by `c.set_connection_state(ESTABLISHED)` or, for file connections,
    `c.set_connection_state(NEGOTIATING_TRANSFER)`; written in place or in a helper of the network that does it on every path
    (`_finalize_peer_connection` today).  -> (names of such helpers, function giving the finalisation calls written in a function)"""
    net = eng.cls('Network', NET)

    def direct(fn: FuncInfo) -> list[ast.Call]:
        return [c for c in calls_on(fn.node, 'set_connection_state') if c.args and enum_member(c.args[0]) in ('ESTABLISHED', 'NEGOTIATING_TRANSFER')
                and unparse(c.func.value) != 'self']
    helpers = set()
    for m in net.methods.values():
        d = direct(m)
        if not d:
            continue
        cf = eng.cfg(m)
        dn = [n for c in d for n in cf.nodes_for(c)]
        p = cf.find_path([cf.entry], lambda n: n.kind == 'exit_return', avoid=lambda n: n in dn, edge_ok=lambda a, b, lab: lab == 'next')
        if p is None:
            helpers.add(m.name)
    return helpers, direct


# --------------------------------------------------------------------------- distributed network: peer lookup by connection
def distributed_peer_lookup(eng: Engine, ck: Check, rule: str):
    """get_distributed_peer(connection) answers with THE peer registered for that connection object, whichever other peers carry the
    same username: the connection test is part of the search itself (a search that stops at the first peer with the right name and
    compares the connection afterwards misses the second connection of a user).  The CLOSED handler, the branch-value handlers and
    the child admission all find their peer through it."""
    m = eng.func(DIST, 'DistributedNetwork.get_distributed_peer')
    ck.visited(m)
    cp = [p_ for p_ in m.params if p_ != 'self'][0]
    rets = [n for n in walk_local(m.node) if isinstance(n, ast.Return) and n.value is not None and not is_none_const(n.value)]

    def conn_test(e: ast.AST, pol: bool, var: str) -> bool:
        a = cmp_atom(e)
        return bool(a and a[0] in ('eq', 'is') and pol and {unparse(a[1]), unparse(a[2])} == {f'{var}.connection', cp})
    ok = bool(rets)
    why = []
    for r in rets:
        v = r.value
        good = False
        if isinstance(v, ast.Name):
            lp = next((a for a in ancestors(r) if isinstance(a, (ast.For, ast.AsyncFor))), None)
            if lp is not None and isinstance(lp.target, ast.Name) and lp.target.id == v.id and chain_str(lp.iter) == 'self.distributed_peers':
                good = any(conn_test(e, pol, v.id) for e, pol, _ in eng.guards_at(m, r))
            else:
                # `peer = <loop variable>` assigned in the hit branch of the search loop (the desugared next(..) form)
                for n in walk_local(m.node):
                    if isinstance(n, ast.Assign) and unparse(n.targets[0]) == v.id and isinstance(n.value, ast.Name):
                        lp2 = next((a for a in ancestors(n) if isinstance(a, (ast.For, ast.AsyncFor))), None)
                        if lp2 is not None and isinstance(lp2.target, ast.Name) and lp2.target.id == n.value.id and chain_str(lp2.iter) == 'self.distributed_peers' and \
                                lp2 in list(ancestors(r)) and any(conn_test(e, pol, n.value.id) for e, pol, _ in eng.guards_at(m, n)):
                            good = True
        vx = expand_aliases(m, v)
        if not good and isinstance(vx, ast.Call) and call_name(vx) == 'next' and vx.args and isinstance(vx.args[0], ast.GeneratorExp) and len(vx.args[0].generators) == 1:
            v = vx
            g = v.args[0].generators[0]
            if isinstance(g.target, ast.Name) and unparse(v.args[0].elt) == g.target.id and chain_str(g.iter) == 'self.distributed_peers':
                good = any(conn_test(e, pol, g.target.id) for i_ in g.ifs for e, pol in split_conj(i_, True))
        if not good:
            why.append(unparse(r)[:80])
        ok = ok and good
    ck.ob(rule, m, m.node, 'get_distributed_peer(connection) searches the registered peers FOR that connection (the connection test is part of the search, not a '
          'check of the first peer with the right name)', ok, f'returns not established as "the peer of this connection": {why}' if why else 'no peer is ever returned',
          construct='peer lookup by connection')
