"""Python pitfalls that change what a function MEANS without changing its shape (round 7 of the seeds, DESIGN.md 13.16).

Every rule of the other modules reads guards, paths, calls and tables.  The changes of round 7 were chosen to leave all of those alone
and to move the behaviour into something the shape does not show: an iterator object that is empty the second time, a closure that
reads its variable late, a cache that keeps an object alive, a reference to a settings section taken once, a container shared through
the class.  Each of these is a small, exact, syntactic fact, and each is decided here for the files a property is anchored in; the
finding is reported under that property's rule id.  They are contracts of the code base as it stands (zero instances today, a positive
example per rule in the self-test), not style advice: each one names the behaviour that is lost.
"""
from __future__ import annotations
import re
from .common import *

ONE_SHOT = {'chain', 'map', 'filter', 'zip', 'iter', 'reversed', 'enumerate', 'islice', 'starmap', 'zip_longest', 'takewhile', 'dropwhile', 'from_iterable',
            'groupby', 'accumulate', 'pairwise', 'batched'}
IMMEDIATE_CONSUMERS = {'sorted', 'min', 'max', 'map', 'filter', 'any', 'all', 'sum', 'next', 'list', 'tuple', 'set', 'dict', 'sort', 'groupby', 'reduce'}
MUTATORS = {'append', 'extend', 'insert', 'add', 'update', 'clear', 'pop', 'popitem', 'remove', 'discard', 'setdefault', 'sort', 'reverse', 'appendleft', 'extendleft'}


def _is_one_shot(e: ast.AST) -> bool:
    if isinstance(e, ast.GeneratorExp):
        return True
    return isinstance(e, ast.Call) and call_name(e) in ONE_SHOT and not (isinstance(e.func, ast.Attribute) and unparse(e.func.value) in ('self', 'cls'))


def _repeated_context(fn_node: ast.AST, use: ast.AST, binding: Optional[ast.AST]) -> Optional[str]:
    """why `use` may be evaluated more than once after `binding` (a loop / comprehension that contains the use but not the binding)"""
    prev = use
    for a in ancestors(use):
        if a is fn_node:
            break
        inside_binding = binding is not None and any(x is binding for x in ast.walk(a))
        if isinstance(a, (ast.For, ast.AsyncFor, ast.While)) and not inside_binding:
            if prev is not getattr(a, 'iter', None):          # the header's iterable is evaluated once; the body / test every time
                return f'inside the loop at line {a.lineno}'
        if isinstance(a, (ast.ListComp, ast.SetComp, ast.DictComp, ast.GeneratorExp)) and not inside_binding:
            if prev is not a.generators[0] or (isinstance(prev, ast.comprehension) and not any(x is use for x in ast.walk(prev.iter))):
                return f'inside the comprehension at line {a.lineno}'
        prev = a
    return None


def one_shot_iterators(eng: Engine, ck: Check, rule: str, funcs: list[FuncInfo], relies: str):
    """An iterator (itertools.chain, map, filter, zip, a generator expression ..) is spent by its first traversal -- and a membership test
    `x in it` IS a traversal, up to the match.  Bound to a local it may be traversed once, outside any loop; stored in an attribute it
    may not be traversed by a method at all (methods are called again)."""
    n = 0
    for f in funcs:
        sa = single_assignments(f)
        for name, v in sa.items():
            if not _is_one_shot(v):
                continue
            n += 1
            binding = next((s for s in walk_local(f.node) if isinstance(s, (ast.Assign, ast.AnnAssign)) and getattr(s, 'value', None) is v), None)
            uses = [x for x in walk_with_lambdas(f.node) if isinstance(x, ast.Name) and x.id == name and isinstance(x.ctx, ast.Load)]
            trav = []
            for u in uses:
                p = parent(u)
                is_iter = (isinstance(p, (ast.For, ast.AsyncFor)) and p.iter is u) or (isinstance(p, ast.comprehension) and p.iter is u) or \
                    (isinstance(p, ast.Compare) and any(isinstance(o, (ast.In, ast.NotIn)) for o in p.ops) and any(c is u for c in p.comparators)) or \
                    (isinstance(p, ast.Call) and u in p.args and call_name(p) not in ('next', 'isinstance', 'id', 'type')) or isinstance(p, ast.Starred)
                if is_iter:
                    trav.append(u)
            why = ''
            for u in trav:
                r = _repeated_context(f.node, u, binding)
                if r:
                    why = f'`{name} = {unparse(v)[:60]}` is traversed at line {u.lineno} {r}: the second time it is already spent (a membership test stops at the match, ' \
                          'a miss drains it), what follows sees an empty sequence'
            if not why and len(trav) > 1:
                why = f'`{name} = {unparse(v)[:60]}` is traversed {len(trav)} times (lines {[u.lineno for u in trav]}): every traversal after the first sees nothing'
            ck.ob(rule, f, v, f'the one-shot iterator `{name}` of {f.qualname} is traversed at most once ({relies})', not why, why, construct=f'{f.qualname} iterator {name} once')
        # attribute form
        for s in walk_local(f.node):
            if isinstance(s, (ast.Assign, ast.AnnAssign)) and getattr(s, 'value', None) is not None and _is_one_shot(s.value):
                for t in (s.targets if isinstance(s, ast.Assign) else [s.target]):
                    if isinstance(t, ast.Attribute) and isinstance(t.value, ast.Name) and t.value.id in ('self', 'cls') and f.cls is not None:
                        n += 1
                        bad = []
                        for m in f.cls.methods.values():
                            for x in walk_with_lambdas(m.node):
                                if isinstance(x, ast.Attribute) and x.attr == t.attr and isinstance(x.value, ast.Name) and x.value.id in ('self', 'cls') and isinstance(x.ctx, ast.Load):
                                    p = parent(x)
                                    if (isinstance(p, (ast.For, ast.AsyncFor, ast.comprehension)) and p.iter is x) or \
                                            (isinstance(p, ast.Compare) and any(isinstance(o, (ast.In, ast.NotIn)) for o in p.ops) and any(c is x for c in p.comparators)) or \
                                            (isinstance(p, ast.Call) and x in p.args and call_name(p) in ('list', 'tuple', 'set', 'sorted', 'any', 'all', 'sum', 'dict')):
                                        bad.append((m, x))
                        ck.ob(rule, f, s, f'`self.{t.attr}` (a one-shot iterator created in {f.qualname}) is not traversed by a method ({relies})', not bad,
                              f'{bad[0][0].qualname} traverses it at line {bad[0][1].lineno}: the first call spends it (partly, up to where it stopped), every later call '
                              'continues from there and finally sees nothing -- a loop over it that never runs decides nothing' if bad else '',
                              construct=f'{f.qualname} attribute iterator {t.attr}')
    return n


def late_binding_closures(eng: Engine, ck: Check, rule: str, funcs: list[FuncInfo], relies: str):
    """A lambda / nested function reads its free variables when it RUNS.  Created in a loop and kept for later (a callback, a task, a
    stored handler) it sees the value of the LAST iteration, whichever iteration created it; functools.partial binds at creation."""
    n = 0
    for f in funcs:
        for lam in [x for x in walk_with_lambdas(f.node) if isinstance(x, ast.Lambda) or (isinstance(x, FUNC_NODES) and x is not f.node)]:
            loops = [a for a in ancestors(lam) if isinstance(a, (ast.For, ast.AsyncFor, ast.While)) and any(x is a for x in ast.walk(f.node))]
            loops = [a for a in loops if not any(isinstance(b, FUNC_NODES + (ast.Lambda,)) and b is not f.node and any(x is a for x in ast.walk(b)) and
                                                 any(x is lam for x in ast.walk(b)) and b is not lam for b in ancestors(lam))]
            if not loops:
                continue
            own = {a.arg for a in lam.args.posonlyargs + lam.args.args + lam.args.kwonlyargs} | ({lam.args.vararg.arg} if lam.args.vararg else set()) | \
                ({lam.args.kwarg.arg} if lam.args.kwarg else set())
            # default values are evaluated at creation: `lambda r=request: ..` is the eager idiom
            body_nodes = list(ast.walk(lam.body)) if isinstance(lam, ast.Lambda) else [y for s in lam.body for y in ast.walk(s)]
            free = {x.id for x in body_nodes if isinstance(x, ast.Name) and isinstance(x.ctx, ast.Load)} - own
            rebound = set()
            for lp in loops:
                if isinstance(lp, (ast.For, ast.AsyncFor)):
                    rebound |= {x.id for x in ast.walk(lp.target) if isinstance(x, ast.Name)}
                for s in ast.walk(lp):
                    if isinstance(s, ast.Name) and isinstance(s.ctx, ast.Store) and not any(x is s for x in ast.walk(lam)):
                        rebound.add(s.id)
            late = sorted(free & rebound)
            if not late:
                continue
            p = parent(lam)
            if isinstance(p, ast.Yield):
                # handed to the consumer of a generator, which runs it before asking for the next one or not: that discipline is a rule of its own
                # where it matters (R-C07-SPLIT "matchers consumed lazily by all()": the matchers of a search query are consumed one at a time)
                continue
            immediate = (isinstance(p, ast.keyword) and p.arg == 'key') or (isinstance(p, ast.Call) and (p.func is lam or call_name(p) in IMMEDIATE_CONSUMERS)) or \
                (isinstance(p, ast.keyword) and isinstance(parent(p), ast.Call) and call_name(parent(p)) in IMMEDIATE_CONSUMERS)
            if isinstance(lam, FUNC_NODES):
                # a nested def: immediate iff every reference to its name inside the loop is a direct call
                refs = [x for lp in loops for x in ast.walk(lp) if isinstance(x, ast.Name) and x.id == lam.name and isinstance(x.ctx, ast.Load)]
                immediate = bool(refs) and all(isinstance(parent(x), ast.Call) and parent(x).func is x for x in refs)
            n += 1
            ck.ob(rule, f, lam, f'a closure created in a loop of {f.qualname} and kept for later does not read variables the loop re-binds ({relies})', immediate,
                  f'the closure at line {lam.lineno} reads {late} when it RUNS: every closure of the round then sees the value of the last iteration '
                  '(functools.partial, or a default argument, binds the value at creation)', construct=f'{f.qualname} closure over {",".join(late)}')
    return n


def weakly_held_not_pinned(eng: Engine, ck: Check, rule: str, relies: str):
    """Objects kept in a WeakSet / WeakValueDictionary leave the index by DYING.  A memoising decorator on one of their methods
    (functools.lru_cache / cache) keys on `self` and keeps every instance it has seen alive in a class-level table."""
    weak: dict[str, str] = {}
    for f in eng.repo.all_funcs():
        for x in walk_with_lambdas(f.node):
            if isinstance(x, ast.AnnAssign) and x.annotation is not None:
                s_ = unparse(x.annotation)
                for m_ in re.finditer(r'Weak(?:Set|ValueDictionary)\[(?:[^\],]*,\s*)?([A-Za-z_][A-Za-z_0-9]*)\]', s_):
                    weak.setdefault(m_.group(1), f'{f.qualname}: {unparse(x.target)}: {s_}')
    for mod in eng.repo.modules.values():
        for x in ast.walk(mod.tree):
            if isinstance(x, ast.AnnAssign) and x.annotation is not None:
                for m_ in re.finditer(r'Weak(?:Set|ValueDictionary)\[(?:[^\],]*,\s*)?([A-Za-z_][A-Za-z_0-9]*)\]', unparse(x.annotation)):
                    weak.setdefault(m_.group(1), f'{mod.rel}: {unparse(x.target)}')
    n = 0
    for cname, where in sorted(weak.items()):
        for ci in eng.repo.classes.get(cname, []):
            for c in eng.repo.mro(ci):
                n += 1
                bad = [(m.name, unparse(d)) for m in c.methods.values() for d in m.node.decorator_list
                       if unparse(d).split('(')[0].split('.')[-1] in ('lru_cache', 'cache', 'cached', 'memoize') and m.params and m.params[0] == 'self']
                ck.ob(rule, c, c.node, f'{c.name} objects are held weakly ({where}) and leave that index by dying: no method memoises on `self` ({relies})', not bad,
                      f'{bad[0][0]} is decorated with {bad[0][1]}: the cache table keeps every instance it was called on alive, an item dropped by a rescan stays in the '
                      'weak index and keeps being found' if bad else '', construct=f'{c.name} not pinned by a cache')
    return n


SETTINGS_CACHE_OK = {
    'Network._ip_overrides': 'debug.ip_overrides: a debugging aid (redirect a peer address), read by no rule and named in no property',
}


def settings_read_live(eng: Engine, ck: Check, rule: str, classes: list[ClassInfo], relies: str):
    """Settings are pydantic models with validate_assignment: the application changes them while the client runs, by assigning a field OR
    by assigning a whole section (`settings.transfers.limits = TransferLimitSettings(..)`, a dict, a reloaded tree).  A reference to a
    section (or a value) taken in __init__ keeps pointing at the replaced object."""
    n = 0
    for ci in classes:
        init = ci.methods.get('__init__')
        if init is None:
            continue
        sp = [a.arg for a in init.node.args.args if a.annotation is not None and unparse(a.annotation).split('.')[-1] == 'Settings'] + ['settings']
        for s in walk_local(init.node):
            if not isinstance(s, (ast.Assign, ast.AnnAssign)) or getattr(s, 'value', None) is None:
                continue
            tg = s.targets if isinstance(s, ast.Assign) else [s.target]
            if not any(isinstance(t, ast.Attribute) and isinstance(t.value, ast.Name) and t.value.id == 'self' for t in tg):
                continue
            ch = attr_chain(s.value)
            if not ch or len(ch) < 2:
                continue
            rooted = ch[0] in sp or (ch[0] == 'self' and len(ch) >= 3 and ch[1] == '_settings')
            if not rooted:
                continue
            tname = next((t.attr for t in tg if isinstance(t, ast.Attribute)), '?')
            if f'{ci.name}.{tname}' in SETTINGS_CACHE_OK:
                ck.note(f'{rule}: {ci.name}.{tname} caches {".".join(ch)} -- accepted: {SETTINGS_CACHE_OK[f"{ci.name}.{tname}"]}')
                continue
            n += 1
            ck.ob(rule, init, s, f'{ci.name} reads its settings through the settings object each time ({relies})', False,
                  f'`{unparse(s)[:80]}` keeps a reference taken at construction: after the application assigns a new section (or value) the manager goes on '
                  'using the old one', construct=f'{ci.name} caches {".".join(ch)}')
    if n == 0:
        ck.note(f'{rule}: no settings section is cached in a constructor ({len(classes)} classes examined)')
    return n


def class_level_mutables(eng: Engine, ck: Check, rule: str, classes: list[ClassInfo], relies: str, allow: dict[str, str] = {}):
    """A list / dict / set / bytearray bound in the class body is ONE object for all instances (and subclasses).  Mutated through
    `self` / `cls` it carries state from one instance, message or connection to the next."""
    n = 0
    for ci in classes:
        for st in ci.node.body:
            if not isinstance(st, (ast.Assign, ast.AnnAssign)) or getattr(st, 'value', None) is None:
                continue
            v = st.value
            mutable = isinstance(v, (ast.List, ast.Dict, ast.Set, ast.ListComp, ast.DictComp, ast.SetComp)) or \
                (isinstance(v, ast.Call) and call_name(v) in ('list', 'dict', 'set', 'bytearray', 'deque', 'defaultdict', 'OrderedDict', 'WeakSet', 'WeakValueDictionary'))
            if not mutable:
                continue
            for t in (st.targets if isinstance(st, ast.Assign) else [st.target]):
                if not isinstance(t, ast.Name):
                    continue
                key = f'{ci.name}.{t.id}'
                muts = []
                for c in [ci] + eng.repo.subclasses(ci):
                    for m in c.methods.values():
                        rebinds = any(isinstance(x, ast.Attribute) and x.attr == t.id and isinstance(x.ctx, ast.Store) and unparse(x.value) == 'self' for x in ast.walk(m.node))
                        if rebinds and m.name == '__init__':
                            continue
                        for x in walk_with_lambdas(m.node):
                            if isinstance(x, ast.Attribute) and x.attr == t.id and isinstance(x.value, ast.Name) and x.value.id in ('self', 'cls'):
                                p = parent(x)
                                if (isinstance(p, ast.Attribute) and p.attr in MUTATORS and isinstance(parent(p), ast.Call)) or \
                                        (isinstance(p, ast.Subscript) and isinstance(p.ctx, (ast.Store, ast.Del))) or (isinstance(p, ast.AugAssign) and p.target is x):
                                    muts.append((m, x))
                                # handed to something that fills it (`super().serialize_into(message)` with message = self.BUF)
                                if isinstance(p, (ast.IfExp, ast.Assign)) and isinstance(enclosing_stmt(x), ast.Assign):
                                    nm = enclosing_stmt(x).targets[0]
                                    if isinstance(nm, ast.Name):
                                        for y in walk_local(m.node):
                                            if isinstance(y, ast.Name) and y.id == nm.id and isinstance(y.ctx, ast.Load):
                                                py = parent(y)
                                                if (isinstance(py, ast.Attribute) and py.attr in MUTATORS - {'clear'}) or (isinstance(py, ast.Call) and y in py.args and
                                                                                                           call_name(py) in ('serialize_into', 'readinto', 'readinto1', 'recv_into')):
                                                    muts.append((m, y))
                # a per-instance re-binding in __init__ makes the class-level value a mere default
                per_instance = any(isinstance(x, ast.Attribute) and x.attr == t.id and isinstance(x.ctx, ast.Store) and unparse(x.value) == 'self'
                                   for c in eng.repo.mro(ci) + eng.repo.subclasses(ci) if '__init__' in c.methods for x in ast.walk(c.methods['__init__'].node))
                if not muts:
                    continue
                n += 1
                # used as a scratch area that is handed back EMPTY whatever happens: every mutation sits in a try whose finally clears the object
                # (directly, or through the local alias it was given)
                def cleared_in_finally(m_, x_) -> bool:
                    names_ = {unparse(x_)} | ({x_.id} if isinstance(x_, ast.Name) else set())
                    for a_ in ancestors(x_):
                        if isinstance(a_, ast.Try) and a_.finalbody and not any(x_ is y_ for fb_ in a_.finalbody for y_ in ast.walk(fb_)):
                            for y_ in [z_ for fb_ in a_.finalbody for z_ in ast.walk(fb_)]:
                                if isinstance(y_, ast.Call) and call_name(y_) == 'clear' and isinstance(y_.func, ast.Attribute) and \
                                        (unparse(y_.func.value) in names_ or unparse(y_.func.value) in (f'self.{t.id}', f'cls.{t.id}')):
                                    return True
                    return False
                direct = [(m_, x_) for m_, x_ in muts if not isinstance(x_, ast.Name)]
                via_alias = [(m_, x_) for m_, x_ in muts if isinstance(x_, ast.Name)]
                scratch = bool(via_alias) and all(cleared_in_finally(m_, x_) for m_, x_ in via_alias) and \
                    all(call_name(parent(parent(x_))) == 'clear' if isinstance(parent(x_), ast.Attribute) and isinstance(parent(parent(x_)), ast.Call) else False for m_, x_ in direct)
                ok = per_instance or key in allow or scratch
                ck.ob(rule, ci, st, f'`{key}` (a mutable object bound in the class body) is not used as per-instance / per-message state ({relies})', ok,
                      f'{muts[0][0].qualname} mutates it at line {muts[0][1].lineno}: what one instance (message, connection) leaves in it is seen by the next'
                      + (f' [{allow[key]}]' if key in allow else ''), construct=f'{key} shared mutable')
    return n


EXTRA_FILES = {
    'C02': ['log_utils.py', 'events.py'], 'C10': ['log_utils.py', 'events.py'], 'C12': ['events.py'], 'C16': ['events.py', 'tasks.py', 'session.py'],
    'C15': ['user/model.py', 'tasks.py'], 'C05': ['user/manager.py', 'user/model.py'], 'C13': ['network/connection.py', 'network/network.py'],
    'C20': ['transfer/manager.py'], 'C06': ['network/network.py', 'tasks.py'], 'C03': [], 'C18': ['commands.py'],
}


def for_property(eng: Engine, ck: Check, pid: str):
    """The five pitfall rules on the files the property is anchored in (properties.jsonl) plus the shared modules its rules read."""
    import json
    import os
    here = os.path.dirname(os.path.dirname(os.path.abspath(__file__)))
    prop = next(json.loads(l) for l in open(os.path.join(here, 'properties.jsonl')) if json.loads(l)['id'] == pid)
    files = [f.replace('src/aioslsk/', '') for f in prop['anchors']['files'] if f.startswith('src/aioslsk/')] + EXTRA_FILES.get(pid, [])
    rule = f'R-{pid}-PITFALLS'
    funcs = [f for f in eng.repo.all_funcs() if f.module.rel in files]
    classes = [c for c in eng.repo.all_classes() if c.module.rel in files]
    relies = f'files of {pid}'
    n = one_shot_iterators(eng, ck, rule, funcs, relies)
    n += late_binding_closures(eng, ck, rule, funcs, relies)
    n += weakly_held_not_pinned(eng, ck, rule, relies) if pid in ('C07', 'C08', 'C05', 'C19') else 0
    n += settings_read_live(eng, ck, rule, classes, relies)
    n += class_level_mutables(eng, ck, rule, classes, relies)
    n += decorators_known(eng, ck, rule, funcs, relies)
    n += frozen_not_assigned(eng, ck, rule, funcs, relies)
    ck.note(f'{rule}: {len(funcs)} functions / {len(classes)} classes of {files} examined, {n} instances')


KNOWN_DECORATORS = {'on_message', 'classmethod', 'staticmethod', 'property', 'abstractmethod', 'abc.abstractmethod', 'model_validator', 'field_validator',
                    'functools.cached_property', 'cached_property', 'overload', 'typing.overload', 'override'}


def _forwards_only(w: FuncInfo, fp: str) -> bool:
    """`[async] def w(<params>): [if <test without call or await>: raise ..]* ; return [await] fp(<the same params>)`"""
    body = [s_ for s_ in w.node.body if not (isinstance(s_, ast.Expr) and isinstance(s_.value, ast.Constant))]
    while len(body) > 1 and isinstance(body[0], ast.If) and not body[0].orelse and len(body[0].body) == 1 and isinstance(body[0].body[0], ast.Raise) and \
            not any(isinstance(x, (ast.Await, ast.Call, ast.NamedExpr, ast.Yield)) for x in ast.walk(body[0].test)):
        body = body[1:]         # a refusal in front of the call: raises before anything has happened, or changes nothing
    if len(body) != 1 or not isinstance(body[0], ast.Return) or body[0].value is None:
        return False
    c = body[0].value.value if isinstance(body[0].value, ast.Await) else body[0].value
    a = w.node.args
    fwd = [x.arg for x in a.posonlyargs + a.args]
    want_args = fwd + ([f'*{a.vararg.arg}'] if a.vararg else [])
    return bool(isinstance(c, ast.Call) and unparse(c.func) == fp and [unparse(x) for x in c.args] == want_args and
                (not a.kwarg or any(k.arg is None and unparse(k.value) == a.kwarg.arg for k in c.keywords)) and
                not [k for k in c.keywords if k.arg is not None] and not a.kwonlyargs and isinstance(body[0].value, ast.Await) == w.is_async)


def _decorator_forwards(eng: Engine, d: FuncInfo) -> bool:
    fp = d.params[0] if d.params else None
    inner = [g for g in eng.repo.all_funcs() if g.outer is d]
    rets = [r for r in walk_local(d.node) if isinstance(r, ast.Return) and r.value is not None]
    if not rets or fp is None:
        return False
    for r in rets:
        v = unparse(r.value)
        if v == fp:
            continue
        w = next((g for g in inner if g.name == v), None)
        if w is None or not _forwards_only(w, fp):
            return False
    return True


def _transparent_decorator(eng: Engine, name: str, factory: bool = False) -> bool:
    """a decorator defined in the repository whose wrapper only forwards: `async def wrapper(self, *a, **k): return await f(self, *a, **k)` (or the
    synchronous form), nothing after the call and in front of it at most refusals (`if <plain test>: raise ..`); or one that returns the
    function it was given.  `@name(..)`: the same for the decorator that the factory `name` returns."""
    cands = [f for f in eng.repo.all_funcs() if f.cls is None and f.name == name.split('.')[-1] and f.outer is None]
    if len(cands) != 1:
        return False
    d = cands[0]
    if not factory:
        return _decorator_forwards(eng, d)
    inner = [g for g in eng.repo.all_funcs() if g.outer is d]
    rets = [r for r in walk_local(d.node) if isinstance(r, ast.Return) and r.value is not None]
    if len(rets) != 1 or not isinstance(rets[0].value, ast.Name):
        return False
    g = next((x for x in inner if x.name == rets[0].value.id), None)
    return g is not None and _decorator_forwards(eng, g)


def decorators_known(eng: Engine, ck: Check, rule: str, funcs: list[FuncInfo], relies: str):
    """What runs for a decorated function is whatever the decorator RETURNED.  The rules read the bodies of the functions; they have read
    the decorators of today's tree (the marker `on_message`, the descriptors, pydantic validators).  A function that gains another decorator
    -- a lock, a retry, a cache, a logging wrapper -- no longer runs the body the rules have analysed as such: a suspension point in front
    of it, a swallowed exception, a replaced return value are all outside what was decided.  Accepted beyond the list: functools.wraps
    (copies metadata onto a wrapper), a repository decorator whose wrapper provably only forwards the call, and lru_cache / cache on a
    synchronous module-level function (no instance to pin, same value for the same arguments)."""
    n = 0
    for f in funcs:
        for d in f.node.decorator_list:
            nm = unparse(d).split('(')[0]
            if nm.endswith('.setter') or nm.endswith('.getter') or nm.endswith('.deleter'):
                continue
            n += 1
            ok = nm in KNOWN_DECORATORS or nm in ('functools.wraps', 'wraps') or _transparent_decorator(eng, nm, factory=isinstance(d, ast.Call)) or \
                (nm.split('.')[-1] in ('lru_cache', 'cache') and f.outer is None and not f.is_async and not (f.params and f.params[0] in ('self', 'cls')) and
                 (f.cls is None or any(unparse(d2) == 'staticmethod' for d2 in f.node.decorator_list)))     # a static helper keyed on its arguments pins no instance
            ck.ob(rule, f, d, f'{f.qualname} carries only decorators whose effect the rules know ({relies})', ok,
                  f'`@{unparse(d)[:50]}`: callers of {f.name} run the wrapper this returns, not the body that the rules analysed (e.g. Connection.set_state assigns the state before '
                  'its first suspension point -- a wrapper that takes a lock first suspends before it)', construct=f'{f.qualname} decorator {nm}')
    return n


def frozen_not_assigned(eng: Engine, ck: Check, rule: str, funcs: list[FuncInfo], relies: str):
    """Assigning a field of a `@dataclass(frozen=True)` instance raises FrozenInstanceError at run time -- in whichever task does it."""
    frozen = {}
    for ci in eng.repo.all_classes():
        for d in ci.node.decorator_list:
            if isinstance(d, ast.Call) and 'dataclass' in unparse(d.func) and const(kw(d, 'frozen')) is True:
                frozen[ci.name] = ci
    n = 0
    for f in funcs:
        if f.name in ('__init__', '__post_init__', 'deserialize'):
            continue
        for s in walk_local(f.node):
            tgts = s.targets if isinstance(s, ast.Assign) else [s.target] if isinstance(s, (ast.AugAssign, ast.AnnAssign)) else []
            for t in tgts:
                if not isinstance(t, ast.Attribute):
                    continue
                try:
                    ts = eng.res.expr_types(t.value, f)
                except Exception:
                    ts = []
                hit = [c for c in ts if c.name in frozen and (t.attr in {x.target.id for x in frozen[c.name].node.body if isinstance(x, ast.AnnAssign) and isinstance(x.target, ast.Name)})]
                if hit:
                    n += 1
                    ck.ob(rule, f, s, f'no field of a frozen dataclass is assigned ({relies})', False,
                          f'`{unparse(s)[:60]}`: {hit[0].name} is declared frozen=True, the assignment raises FrozenInstanceError and ends the task that runs {f.qualname}',
                          construct=f'{f.qualname} assigns frozen {hit[0].name}.{t.attr}')
    return n
