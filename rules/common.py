"""Helpers shared by rule modules."""
from __future__ import annotations
import ast
from typing import Callable, Iterable, Optional

from sa.astx import (walk_local, walk_with_lambdas, unparse, attr_chain, chain_str, call_name, call_receiver,
                     mentions, mentions_attr, mentions_name, calls_in, calls_named, alpha_key, enclosing_stmt,
                     parent, ancestors, kw, arg, const, has_await, is_terminating, FUNC_NODES, names_in, attrs_in)
from sa.engine import Engine, split_conj, cmp_atom, is_none_const
from sa.loader import FuncInfo, ClassInfo, AnalysisError
from sa.report import Check
from sa.cfg import Node, handler_type_names
from sa import pattern as pat
from sa.pattern import find as pfind, has as phas, first as pfirst

CONN = 'network/connection.py'
NET = 'network/network.py'
TM = 'transfer/manager.py'
TMODEL = 'transfer/model.py'
TSTATE = 'transfer/state.py'
DIST = 'distributed.py'
SEARCH = 'search/manager.py'
SHARES = 'shares/manager.py'
USERM = 'user/manager.py'
ROOMM = 'room/manager.py'


def enum_member(e: ast.AST, *members: str) -> Optional[str]:
    """`ConnectionState.CLOSED` / `TransferState.COMPLETE` -> 'CLOSED'."""
    ch = attr_chain(e)
    if ch and len(ch) >= 2 and (not members or ch[-1] in members):
        return ch[-1]
    return None


def resolve_named_constant(n: ast.AST) -> Optional[ast.AST]:
    """`self.X` / `cls.X` / `ClassName.X` / module-level `X` (upper-case by convention) -> the expression it is bound to at class or
    module level, following the MRO inside the repository.  Lets guards written against a named constant
    (`state in self._CLOSING_STATES`) be read like the literal they stand for."""
    mod = getattr(n, '_module', None)
    if mod is None:
        return None
    if isinstance(n, ast.Name):
        return const_value(None, mod, n.id)
    if isinstance(n, ast.Attribute) and isinstance(n.value, ast.Name):
        cls_node = None
        if n.value.id in ('self', 'cls'):
            cls_node = next((a for a in ancestors(n) if isinstance(a, ast.ClassDef)), None)
        else:
            for st in mod.tree.body:
                if isinstance(st, ast.ClassDef) and st.name == n.value.id:
                    cls_node = st
        seen = 0
        while cls_node is not None and seen < 6:
            seen += 1
            for st in cls_node.body:
                if isinstance(st, (ast.Assign, ast.AnnAssign)):
                    tg = st.targets if isinstance(st, ast.Assign) else [st.target]
                    if any(isinstance(t, ast.Name) and t.id == n.attr for t in tg) and st.value is not None:
                        return st.value
            info = getattr(cls_node, '_info', None)
            nxt = None
            if info is not None and _REPO[0] is not None:
                bases = _REPO[0].base_infos(info)
                nxt = bases[0].node if bases else None
            cls_node = nxt
    return None


from sa.astx import CURRENT_REPO as _REPO


def enum_members_in(e: ast.AST) -> set[str]:
    out = set()
    for n in ast.walk(e):
        if isinstance(n, ast.Attribute) and n.attr.isupper() and n.attr not in ('VALUE', 'MESSAGE_ID'):
            d = resolve_named_constant(n) if n.attr.replace('_', '').isupper() and isinstance(n.value, ast.Name) and n.value.id in ('self', 'cls') else None
            if d is not None:
                out |= enum_members_in(d)
            else:
                out.add(n.attr)
        elif isinstance(n, ast.Name) and n.id.isupper() and len(n.id) > 3 and isinstance(n.ctx, ast.Load):
            d = resolve_named_constant(n)
            if d is not None and not isinstance(d, ast.Constant):
                out |= enum_members_in(d)
    return out


def state_guard(expr: ast.AST, pol: bool, attr: str, members: set[str]) -> Optional[bool]:
    """If (expr, pol) is a test of `<x>.attr` against enum members (==, in, is),
    return True when the guard establishes membership in `members`, False when
    it establishes non-membership, None if it is not such a test."""
    a = cmp_atom(expr)
    if a is None:
        return None
    op, l, r = a
    if op not in ('eq', 'is', 'in'):
        return None
    if mentions_attr(l, attr) and not mentions_attr(r, attr):
        tested = enum_members_in(r)
    elif mentions_attr(r, attr) and op != 'in':
        tested = enum_members_in(l)
    else:
        return None
    if not tested:
        return None
    if pol and tested <= members:
        return True
    if not pol and members <= tested:
        return False
    return None


def first_arg_member(call: ast.Call) -> Optional[str]:
    if call.args:
        return enum_member(call.args[0])
    return None


def receiver_str(call: ast.Call) -> str:
    r = call_receiver(call)
    return chain_str(r) or unparse(r) if r is not None else ''


def stmt_of(node: ast.AST) -> ast.stmt:
    return enclosing_stmt(node)


def calls_on(fn_node: ast.AST, method: str, recv_pred: Callable[[str], bool] = lambda r: True) -> list[ast.Call]:
    return [c for c in calls_in(fn_node) if call_name(c) == method and isinstance(c.func, ast.Attribute)
            and recv_pred(chain_str(c.func.value) or unparse(c.func.value))]


def in_handler_catching(eng: Engine, fn: FuncInfo, node: ast.AST, *names: str) -> bool:
    for h in eng.handler_context(fn, node):
        hn = handler_type_names(h)
        if not hn or any(n in hn for n in names):
            return True
    return False


def protected_by_try_catching(eng: Engine, fn: FuncInfo, node: ast.AST, *names: str) -> Optional[ast.Try]:
    """Innermost try whose *body* contains node and which has a handler for one
    of the names (or a bare except)."""
    for t, part in eng.enclosing_trys(fn, node):
        if part != 'body':
            continue
        for h in t.handlers:
            hn = handler_type_names(h)
            if not hn or any(n in hn for n in names):
                return t
    return None


def const_value(repo, mod, name: str):
    """Module-level constant `NAME = <literal>`."""
    for st in mod.tree.body:
        if isinstance(st, (ast.Assign, ast.AnnAssign)):
            tgts = st.targets if isinstance(st, ast.Assign) else [st.target]
            if any(isinstance(t, ast.Name) and t.id == name for t in tgts):
                return st.value
    return None


def cval(repo, fn: FuncInfo, e: Optional[ast.AST]):
    """Python constant denoted by `e`: a literal, or a module-level NAME = literal of fn's module (or imported from a repo module)."""
    v = const(e)
    if v is not None or e is None:
        return v
    if isinstance(e, ast.Name):
        d = const_value(repo, fn.module, e.id)
        if d is not None:
            return const(d)
        imp = fn.module.imports.get(e.id)
        if imp and ':' in imp:
            dotted, orig = imp.split(':')
            for m in repo.modules.values():
                if m.dotted == dotted:
                    d = const_value(repo, m, orig)
                    return const(d) if d is not None else None
    return None


def single_assignments(fn: FuncInfo) -> dict[str, ast.AST]:
    """local name -> value for names assigned exactly once by a plain `x = value`
    (or walrus) in the function and never re-bound otherwise."""
    cache = getattr(fn, '_single_assign', None)
    if cache is not None:
        return cache
    counts: dict[str, int] = {}
    vals: dict[str, ast.AST] = {}
    for n in walk_local(fn.node):
        if isinstance(n, ast.Assign):
            for t in n.targets:
                for nm in ([t] if isinstance(t, ast.Name) else [x for x in ast.walk(t) if isinstance(x, ast.Name)
                                                                 and isinstance(x.ctx, ast.Store)]):
                    counts[nm.id] = counts.get(nm.id, 0) + 1
                    if isinstance(t, ast.Name):
                        vals[nm.id] = n.value
                    else:
                        counts[nm.id] += 1      # tuple target: not a simple alias
        elif isinstance(n, ast.NamedExpr):
            counts[n.target.id] = counts.get(n.target.id, 0) + 1
            vals[n.target.id] = n.value
        elif isinstance(n, (ast.AugAssign, ast.AnnAssign)) and isinstance(n.target, ast.Name):
            counts[n.target.id] = counts.get(n.target.id, 0) + (1 if getattr(n, 'value', None) is not None else 0)
            if isinstance(n, ast.AnnAssign) and n.value is not None:
                vals[n.target.id] = n.value
            if isinstance(n, ast.AugAssign):
                counts[n.target.id] += 1
        elif isinstance(n, (ast.For, ast.AsyncFor, ast.comprehension)):
            for x in ast.walk(n.target):
                if isinstance(x, ast.Name):
                    counts[x.id] = counts.get(x.id, 0) + 2
        elif isinstance(n, (ast.With, ast.AsyncWith)):
            for it in n.items:
                if it.optional_vars is not None:
                    for x in ast.walk(it.optional_vars):
                        if isinstance(x, ast.Name):
                            counts[x.id] = counts.get(x.id, 0) + 2
        elif isinstance(n, ast.ExceptHandler) and n.name:
            counts[n.name] = counts.get(n.name, 0) + 2
    for p in fn.params:
        counts[p] = counts.get(p, 0) + 2
    # a local that is mutated in place (xs = []; xs.append(..)) is not an alias of its initial value
    MUT = {'append', 'extend', 'add', 'update', 'insert', 'remove', 'pop', 'clear', 'discard', 'setdefault', 'sort', 'reverse', 'popitem', 'appendleft'}
    for n in walk_local(fn.node):
        if isinstance(n, ast.Call) and isinstance(n.func, ast.Attribute) and n.func.attr in MUT and isinstance(n.func.value, ast.Name):
            counts[n.func.value.id] = counts.get(n.func.value.id, 0) + 2
        elif isinstance(n, (ast.Subscript,)) and isinstance(n.ctx, (ast.Store, ast.Del)) and isinstance(n.value, ast.Name):
            counts[n.value.id] = counts.get(n.value.id, 0) + 2
        elif isinstance(n, ast.AugAssign) and isinstance(n.target, (ast.Subscript, ast.Attribute)) and isinstance(n.target.value, ast.Name) and \
                isinstance(n.target, ast.Subscript):
            counts[n.target.value.id] = counts.get(n.target.value.id, 0) + 2
    res = {k: v for k, v in vals.items() if counts.get(k) == 1}
    fn._single_assign = res  # type: ignore[attr-defined]
    return res


def expand_aliases(fn: FuncInfo, e: ast.AST, depth: int = 3) -> ast.AST:
    """Replace single-assignment local names in `e` by the expression they were
    assigned (up to `depth` levels), so that guards written through a local alias
    (`username = self._session.user.name`) compare equal to the direct form."""
    sa = single_assignments(fn)

    class T(ast.NodeTransformer):
        def visit_Name(self, n: ast.Name):
            if isinstance(n.ctx, ast.Load) and n.id in sa:
                return ast.parse(unparse(sa[n.id]), mode='eval').body
            return n
    cur = ast.parse(unparse(e), mode='eval').body
    for _ in range(depth):
        before = unparse(cur)
        nxt = T().visit(cur)
        cur = ast.parse(unparse(nxt), mode='eval').body
        if unparse(cur) == before:
            break
    return cur


def expanded_guards(eng: Engine, fn: FuncInfo, node: ast.AST) -> list[tuple[ast.AST, bool, Node]]:
    out = []
    for e, pol, a in eng.guards_at(fn, node):
        ex = expand_aliases(fn, e)
        for e2, p2 in split_conj(ex, pol):
            out.append((e2, p2, a))
    return out


MUTATORS = {'append', 'extend', 'add', 'update', 'insert', 'remove', 'pop', 'clear', 'discard', 'setdefault', 'popitem', 'appendleft'}


def per_instance_state_rule(eng: Engine, ck: Check, rule: str, classes: list[ClassInfo], why: str):
    """Every container that methods of these classes mutate in place through `self.X` is created per instance (assigned in an
    `__init__` of the class or of a repo base class).  A mutable value bound at CLASS level and never re-bound per instance is one
    object shared by all instances: what one instance queues / registers, every other instance sees and cancels."""
    n = 0
    for ci in classes:
        mro = eng.repo.mro(ci)
        inits = [c.methods['__init__'] for c in mro if '__init__' in c.methods] + [c.methods['__post_init__'] for c in mro if '__post_init__' in c.methods]
        per_instance = {t.attr for f in inits for nd in walk_local(f.node) if isinstance(nd, (ast.Assign, ast.AnnAssign))
                        for t in (nd.targets if isinstance(nd, ast.Assign) else [nd.target])
                        if isinstance(t, ast.Attribute) and isinstance(t.value, ast.Name) and t.value.id == 'self' and getattr(nd, 'value', None) is not None}
        # dataclass fields with default_factory are per instance as well
        for c in mro:
            for st in c.node.body:
                if isinstance(st, ast.AnnAssign) and isinstance(st.target, ast.Name) and st.value is not None and isinstance(st.value, ast.Call) and \
                        call_name(st.value) == 'field' and kw(st.value, 'default_factory') is not None:
                    per_instance.add(st.target.id)
        mutated: dict[str, tuple[FuncInfo, ast.AST]] = {}
        for c in mro:
            for m in c.methods.values():
                for x in calls_in(m.node):
                    if isinstance(x.func, ast.Attribute) and x.func.attr in MUTATORS and isinstance(x.func.value, ast.Attribute) and \
                            isinstance(x.func.value.value, ast.Name) and x.func.value.value.id == 'self':
                        mutated.setdefault(x.func.value.attr, (m, x))
        for attr, (m, x) in sorted(mutated.items()):
            class_level = None
            for c in mro:
                for st in c.node.body:
                    tg = st.targets if isinstance(st, ast.Assign) else [st.target] if isinstance(st, ast.AnnAssign) else []
                    if any(isinstance(t, ast.Name) and t.id == attr for t in tg) and getattr(st, 'value', None) is not None and \
                            not (isinstance(st.value, ast.Call) and call_name(st.value) == 'field'):
                        class_level = (c, st)
            if class_level is None and attr not in per_instance:
                continue          # set elsewhere (e.g. by the owner after construction): not this rule's business
            n += 1
            ok = attr in per_instance
            ck.ob(rule, m, x, f'{ci.name}.{attr} (mutated in place by {m.name}) is a per-instance container, created in __init__: {why}', ok,
                  (f'`{unparse(class_level[1])[:60]}` at class level in {class_level[0].name} and no `self.{attr} = ...` in any __init__: one object shared by every '
                   f'{ci.name} in the process') if class_level else '', construct=f'{ci.name}.{attr} per instance')
    return n
