"""Helpers shared by rule modules."""
from __future__ import annotations
import ast
from typing import Callable, Iterable, Optional

from sa.astx import (walk_local, walk_with_lambdas, unparse, attr_chain, chain_str, call_name, call_receiver,
                     mentions, mentions_attr, mentions_name, calls_in, calls_named, alpha_key, enclosing_stmt,
                     parent, ancestors, kw, arg, const, has_await, is_terminating, FUNC_NODES, names_in, attrs_in)
from sa.engine import Engine, split_conj, cmp_atom, is_none_const
from sa.loader import FuncInfo, ClassInfo, AnalysisError
from sa.report import Check
from sa.cfg import Node, handler_type_names
from sa import pattern as pat
from sa.pattern import find as pfind, has as phas, first as pfirst

CONN = 'network/connection.py'
NET = 'network/network.py'
TM = 'transfer/manager.py'
TMODEL = 'transfer/model.py'
TSTATE = 'transfer/state.py'
DIST = 'distributed.py'
SEARCH = 'search/manager.py'
SHARES = 'shares/manager.py'
USERM = 'user/manager.py'
ROOMM = 'room/manager.py'


def enum_member(e: ast.AST, *members: str) -> Optional[str]:
    """`ConnectionState.CLOSED` / `TransferState.COMPLETE` -> 'CLOSED'."""
    ch = attr_chain(e)
    if ch and len(ch) >= 2 and (not members or ch[-1] in members):
        return ch[-1]
    return None


def resolve_named_constant(n: ast.AST) -> Optional[ast.AST]:
    """`self.X` / `cls.X` / `ClassName.X` / module-level `X` (upper-case by convention) -> the expression it is bound to at class or
    module level, following the MRO inside the repository.  Lets guards written against a named constant
    (`state in self._CLOSING_STATES`) be read like the literal they stand for."""
    mod = getattr(n, '_module', None)
    if mod is None:
        return None
    if isinstance(n, ast.Name):
        return const_value(None, mod, n.id)
    if isinstance(n, ast.Attribute) and isinstance(n.value, ast.Name):
        cls_node = None
        if n.value.id in ('self', 'cls'):
            cls_node = next((a for a in ancestors(n) if isinstance(a, ast.ClassDef)), None)
        else:
            for st in mod.tree.body:
                if isinstance(st, ast.ClassDef) and st.name == n.value.id:
                    cls_node = st
        seen = 0
        while cls_node is not None and seen < 6:
            seen += 1
            for st in cls_node.body:
                if isinstance(st, (ast.Assign, ast.AnnAssign)):
                    tg = st.targets if isinstance(st, ast.Assign) else [st.target]
                    if any(isinstance(t, ast.Name) and t.id == n.attr for t in tg) and st.value is not None:
                        return st.value
            info = getattr(cls_node, '_info', None)
            nxt = None
            if info is not None and _REPO[0] is not None:
                bases = _REPO[0].base_infos(info)
                nxt = bases[0].node if bases else None
            cls_node = nxt
    return None


from sa.astx import CURRENT_REPO as _REPO


def enum_members_in(e: ast.AST) -> set[str]:
    out = set()
    for n in ast.walk(e):
        if isinstance(n, ast.Attribute) and n.attr.isupper() and n.attr not in ('VALUE', 'MESSAGE_ID'):
            d = resolve_named_constant(n) if n.attr.replace('_', '').isupper() and isinstance(n.value, ast.Name) and n.value.id in ('self', 'cls') else None
            if d is not None:
                out |= enum_members_in(d)
            else:
                out.add(n.attr)
        elif isinstance(n, ast.Name) and n.id.isupper() and len(n.id) > 3 and isinstance(n.ctx, ast.Load):
            d = resolve_named_constant(n)
            if d is not None and not isinstance(d, ast.Constant):
                out |= enum_members_in(d)
    return out


def state_guard(expr: ast.AST, pol: bool, attr: str, members: set[str]) -> Optional[bool]:
    """If (expr, pol) is a test of `<x>.attr` against enum members (==, in, is),
    return True when the guard establishes membership in `members`, False when
    it establishes non-membership, None if it is not such a test."""
    a = cmp_atom(expr)
    if a is None:
        return None
    op, l, r = a
    if op not in ('eq', 'is', 'in'):
        return None
    if mentions_attr(l, attr) and not mentions_attr(r, attr):
        tested = enum_members_in(r)
    elif mentions_attr(r, attr) and op != 'in':
        tested = enum_members_in(l)
    else:
        return None
    if not tested:
        return None
    if pol and tested <= members:
        return True
    if not pol and members <= tested:
        return False
    return None


def first_arg_member(call: ast.Call) -> Optional[str]:
    if call.args:
        return enum_member(call.args[0])
    return None


def receiver_str(call: ast.Call) -> str:
    r = call_receiver(call)
    return chain_str(r) or unparse(r) if r is not None else ''


def stmt_of(node: ast.AST) -> ast.stmt:
    return enclosing_stmt(node)


def calls_on(fn_node: ast.AST, method: str, recv_pred: Callable[[str], bool] = lambda r: True) -> list[ast.Call]:
    return [c for c in calls_in(fn_node) if call_name(c) == method and isinstance(c.func, ast.Attribute)
            and recv_pred(chain_str(c.func.value) or unparse(c.func.value))]


def in_handler_catching(eng: Engine, fn: FuncInfo, node: ast.AST, *names: str) -> bool:
    for h in eng.handler_context(fn, node):
        hn = handler_type_names(h)
        if not hn or any(n in hn for n in names):
            return True
    return False


def protected_by_try_catching(eng: Engine, fn: FuncInfo, node: ast.AST, *names: str) -> Optional[ast.Try]:
    """Innermost try whose *body* contains node and which has a handler for one
    of the names (or a bare except)."""
    for t, part in eng.enclosing_trys(fn, node):
        if part != 'body':
            continue
        for h in t.handlers:
            hn = handler_type_names(h)
            if not hn or any(n in hn for n in names):
                return t
    return None


def const_value(repo, mod, name: str):
    """Module-level constant `NAME = <literal>`."""
    for st in mod.tree.body:
        if isinstance(st, (ast.Assign, ast.AnnAssign)):
            tgts = st.targets if isinstance(st, ast.Assign) else [st.target]
            if any(isinstance(t, ast.Name) and t.id == name for t in tgts):
                return st.value
    return None


def cval(repo, fn: FuncInfo, e: Optional[ast.AST]):
    """Python constant denoted by `e`: a literal, or a module-level NAME = literal of fn's module (or imported from a repo module)."""
    v = const(e)
    if v is not None or e is None:
        return v
    if isinstance(e, ast.Name):
        d = const_value(repo, fn.module, e.id)
        if d is not None:
            return const(d)
        imp = fn.module.imports.get(e.id)
        if imp and ':' in imp:
            dotted, orig = imp.split(':')
            for m in repo.modules.values():
                if m.dotted == dotted:
                    d = const_value(repo, m, orig)
                    return const(d) if d is not None else None
    return None


def single_assignments(fn: FuncInfo) -> dict[str, ast.AST]:
    """local name -> value for names assigned exactly once by a plain `x = value`
    (or walrus) in the function and never re-bound otherwise."""
    cache = getattr(fn, '_single_assign', None)
    if cache is not None:
        return cache
    counts: dict[str, int] = {}
    vals: dict[str, ast.AST] = {}
    folded: set[int] = set()
    for n in walk_local(fn.node):
        # `if c: x = A else: x = B` is the statement form of `x = A if c else B`
        if isinstance(n, ast.If) and len(n.body) == 1 and len(n.orelse) == 1 and all(
                isinstance(b_, ast.Assign) and len(b_.targets) == 1 and isinstance(b_.targets[0], ast.Name) for b_ in (n.body[0], n.orelse[0])) and \
                n.body[0].targets[0].id == n.orelse[0].targets[0].id:
            nm_ = n.body[0].targets[0].id
            counts[nm_] = counts.get(nm_, 0) + 1
            vals[nm_] = ast.copy_location(ast.IfExp(n.test, n.body[0].value, n.orelse[0].value), n)
            folded |= {id(n.body[0]), id(n.orelse[0])}
    for n in walk_local(fn.node):
        if id(n) in folded:
            continue
        if isinstance(n, ast.Assign):
            for t in n.targets:
                for nm in ([t] if isinstance(t, ast.Name) else [x for x in ast.walk(t) if isinstance(x, ast.Name)
                                                                 and isinstance(x.ctx, ast.Store)]):
                    counts[nm.id] = counts.get(nm.id, 0) + 1
                    if isinstance(t, ast.Name):
                        vals[nm.id] = n.value
                    else:
                        counts[nm.id] += 1      # tuple target: not a simple alias
        elif isinstance(n, ast.NamedExpr):
            counts[n.target.id] = counts.get(n.target.id, 0) + 1
            vals[n.target.id] = n.value
        elif isinstance(n, (ast.AugAssign, ast.AnnAssign)) and isinstance(n.target, ast.Name):
            counts[n.target.id] = counts.get(n.target.id, 0) + (1 if getattr(n, 'value', None) is not None else 0)
            if isinstance(n, ast.AnnAssign) and n.value is not None:
                vals[n.target.id] = n.value
            if isinstance(n, ast.AugAssign):
                counts[n.target.id] += 1
        elif isinstance(n, (ast.For, ast.AsyncFor)):
            # (a comprehension's variables live in the comprehension's own scope: they re-bind nothing here; expand_aliases does not
            # substitute a name inside a comprehension that binds it)
            for x in ast.walk(n.target):
                if isinstance(x, ast.Name):
                    counts[x.id] = counts.get(x.id, 0) + 2
        elif isinstance(n, (ast.With, ast.AsyncWith)):
            for it in n.items:
                if it.optional_vars is not None:
                    for x in ast.walk(it.optional_vars):
                        if isinstance(x, ast.Name):
                            counts[x.id] = counts.get(x.id, 0) + 2
        elif isinstance(n, ast.ExceptHandler) and n.name:
            counts[n.name] = counts.get(n.name, 0) + 2
    for p in fn.params:
        counts[p] = counts.get(p, 0) + 2
    # a local that is mutated in place (xs = []; xs.append(..)) is not an alias of its initial value
    MUT = {'append', 'extend', 'add', 'update', 'insert', 'remove', 'pop', 'clear', 'discard', 'setdefault', 'sort', 'reverse', 'popitem', 'appendleft'}
    for n in walk_local(fn.node):
        if isinstance(n, ast.Call) and isinstance(n.func, ast.Attribute) and n.func.attr in MUT and isinstance(n.func.value, ast.Name):
            counts[n.func.value.id] = counts.get(n.func.value.id, 0) + 2
        elif isinstance(n, (ast.Subscript,)) and isinstance(n.ctx, (ast.Store, ast.Del)) and isinstance(n.value, ast.Name):
            counts[n.value.id] = counts.get(n.value.id, 0) + 2
        elif isinstance(n, ast.AugAssign) and isinstance(n.target, (ast.Subscript, ast.Attribute)) and isinstance(n.target.value, ast.Name) and \
                isinstance(n.target, ast.Subscript):
            counts[n.target.value.id] = counts.get(n.target.value.id, 0) + 2
    res = {k: v for k, v in vals.items() if counts.get(k) == 1}
    fn._single_assign = res  # type: ignore[attr-defined]
    return res


def expand_aliases(fn: FuncInfo, e: ast.AST, depth: int = 3) -> ast.AST:
    """Replace single-assignment local names in `e` by the expression they were
    assigned (up to `depth` levels), so that guards written through a local alias
    (`username = self._session.user.name`) compare equal to the direct form."""
    sa = single_assignments(fn)

    class T(ast.NodeTransformer):
        def __init__(self):
            self.shadow: list[set] = []

        def visit_Name(self, n: ast.Name):
            if isinstance(n.ctx, ast.Load) and n.id in sa and not any(n.id in s_ for s_ in self.shadow):
                return ast.parse(unparse(sa[n.id]), mode='eval').body
            return n

        def visit_NamedExpr(self, n: ast.NamedExpr):
            return self.visit(n.value)          # `(x := v)` evaluates to v

        def _comp(self, n):
            # the first iterable is evaluated outside the comprehension's scope; everything else sees the comprehension's variables
            bound = {x.id for g in n.generators for x in ast.walk(g.target) if isinstance(x, ast.Name)}
            n.generators[0].iter = self.visit(n.generators[0].iter)
            self.shadow.append(bound)
            try:
                for i_, g in enumerate(n.generators):
                    if i_:
                        g.iter = self.visit(g.iter)
                    g.ifs = [self.visit(x) for x in g.ifs]
                for fld in ('elt', 'key', 'value'):
                    if hasattr(n, fld):
                        setattr(n, fld, self.visit(getattr(n, fld)))
            finally:
                self.shadow.pop()
            return n
        visit_ListComp = visit_SetComp = visit_GeneratorExp = visit_DictComp = _comp
    cur = ast.parse(unparse(e), mode='eval').body
    for _ in range(depth):
        before = unparse(cur)
        nxt = T().visit(cur)
        cur = ast.parse(unparse(nxt), mode='eval').body
        if unparse(cur) == before:
            break
    return cur


def eval_sequence(fn: FuncInfo, e: ast.AST, depth: int = 0) -> Optional[list[ast.AST]]:
    """The elements, in order, of a tuple / list valued expression built from literals inside `fn`: displays with starred parts, names bound
    once (also by a starred unpacking `*a, b = T` / `a, *b = T`), `+`, `reversed(..)`, `sorted`-free slices with constant bounds,
    `tuple(..)` / `list(..)`.  None when the fragment does not cover it."""
    if depth > 6:
        return None
    if isinstance(e, (ast.Tuple, ast.List)):
        out: list[ast.AST] = []
        for x in e.elts:
            if isinstance(x, ast.Starred):
                sub = eval_sequence(fn, x.value, depth + 1)
                if sub is None:
                    return None
                out += sub
            elif isinstance(x, ast.Name):
                # an element given by name: the one element a (starred) unpacking bound it to, when there is such a binding
                one = eval_sequence(fn, x, depth + 1)
                single = [n for n in walk_local(fn.node) if isinstance(n, ast.Assign) and len(n.targets) == 1 and isinstance(n.targets[0], (ast.Tuple, ast.List))
                          and any(isinstance(t_, ast.Name) and t_.id == x.id for t_ in n.targets[0].elts)]
                out.append(one[0] if one is not None and len(one) == 1 and single else x)
            else:
                out.append(x)
        return out
    if isinstance(e, ast.BinOp) and isinstance(e.op, ast.Add):
        l, r = eval_sequence(fn, e.left, depth + 1), eval_sequence(fn, e.right, depth + 1)
        return None if l is None or r is None else l + r
    if isinstance(e, ast.Call) and isinstance(e.func, ast.Name) and e.func.id in ('tuple', 'list', 'reversed') and len(e.args) == 1 and not e.keywords:
        sub = eval_sequence(fn, e.args[0], depth + 1)
        return None if sub is None else (list(reversed(sub)) if e.func.id == 'reversed' else sub)
    if isinstance(e, ast.Subscript) and isinstance(e.slice, ast.Slice) and e.slice.step is None:
        sub = eval_sequence(fn, e.value, depth + 1)
        lo = None if e.slice.lower is None else const(e.slice.lower) if not isinstance(e.slice.lower, ast.UnaryOp) else -const(e.slice.lower.operand)
        hi = None if e.slice.upper is None else const(e.slice.upper) if not isinstance(e.slice.upper, ast.UnaryOp) else -const(e.slice.upper.operand)
        if sub is None or (e.slice.lower is not None and not isinstance(lo, int)) or (e.slice.upper is not None and not isinstance(hi, int)):
            return None
        return sub[lo:hi]
    if isinstance(e, ast.Name):
        binds = []
        for n in walk_local(fn.node):
            if isinstance(n, ast.Assign) and len(n.targets) == 1:
                t = n.targets[0]
                if isinstance(t, ast.Name) and t.id == e.id:
                    binds.append(('whole', n.value, None))
                elif isinstance(t, (ast.Tuple, ast.List)) and any(isinstance(x, ast.Name) and x.id == e.id or
                                                                   (isinstance(x, ast.Starred) and isinstance(x.value, ast.Name) and x.value.id == e.id) for x in t.elts):
                    binds.append(('unpack', n.value, t))
            elif isinstance(n, (ast.For, ast.AugAssign, ast.NamedExpr)) and any(isinstance(x, ast.Name) and x.id == e.id and isinstance(x.ctx, ast.Store)
                                                                                  for x in ast.walk(n.target)):
                return None
        if len(binds) != 1:
            return None
        kind, v, t = binds[0]
        if kind == 'whole':
            return eval_sequence(fn, v, depth + 1)
        src = eval_sequence(fn, v, depth + 1)
        if src is None:
            return None
        star = [i for i, x in enumerate(t.elts) if isinstance(x, ast.Starred)]
        if len(star) > 1:
            return None
        n_after = len(t.elts) - star[0] - 1 if star else 0
        for i, x in enumerate(t.elts):
            nm = x.value.id if isinstance(x, ast.Starred) and isinstance(x.value, ast.Name) else x.id if isinstance(x, ast.Name) else None
            if nm != e.id:
                continue
            if isinstance(x, ast.Starred):
                return src[i:len(src) - n_after]
            # a plain name bound to ONE element: that element must itself be a sequence for the caller; hand it back as a one-element list marker
            idx = i if not star or i < star[0] else len(src) - (len(t.elts) - i)
            if 0 <= idx < len(src):
                return [src[idx]] if not isinstance(src[idx], (ast.Tuple, ast.List)) else [src[idx]]
        return None
    return None


def string_parts(e: ast.AST) -> list[str]:
    """The pieces a string-building expression concatenates, in order, each as source text: `a + B + c`, `f"{a}{B}{c}"`, `''.join([a, B, c])`
    all give [a, B, c]; literal pieces are given as their repr.  A formatted value with a conversion or format spec is kept whole."""
    if isinstance(e, ast.BinOp) and isinstance(e.op, ast.Add):
        return string_parts(e.left) + string_parts(e.right)
    if isinstance(e, ast.JoinedStr):
        out = []
        for v in e.values:
            if isinstance(v, ast.FormattedValue) and v.conversion == -1 and v.format_spec is None:
                out += string_parts(v.value)
            elif isinstance(v, ast.Constant):
                out.append(repr(v.value))
            else:
                out.append(unparse(v))
        return out
    if isinstance(e, ast.Call) and call_name(e) == 'join' and isinstance(e.func, ast.Attribute) and const(e.func.value) == '' and len(e.args) == 1 \
            and isinstance(e.args[0], (ast.List, ast.Tuple)):
        return [p_ for x in e.args[0].elts for p_ in string_parts(x)]
    if isinstance(e, ast.Constant) and isinstance(e.value, str):
        return [repr(e.value)]
    return [unparse(e)]


def regex_match_sites(fn: FuncInfo) -> list[tuple[ast.Call, ast.AST, ast.AST]]:
    """(call, pattern expression, subject) for every anchored regex match in `fn`: `re.match(P, s)` / `re.fullmatch(P, s)`, or
    `C.match(s)` where C is (a local bound to) `re.compile(P)`.  Local aliases are expanded in the pattern."""
    out = []
    for x in calls_in(fn.node):
        if call_name(x) not in ('match', 'fullmatch') or not isinstance(x.func, ast.Attribute):
            continue
        if unparse(x.func.value) == 're' and len(x.args) >= 2:
            pe = expand_aliases(fn, x.args[0])
            if isinstance(pe, ast.Call) and unparse(pe.func) == 're.compile' and pe.args:
                pe = pe.args[0]
            out.append((x, pe, x.args[1]))
        elif len(x.args) >= 1:
            c = expand_aliases(fn, x.func.value)
            if isinstance(c, ast.Call) and unparse(c.func) == 're.compile' and c.args:
                out.append((x, c.args[0], x.args[0]))
    return out


def expanded_guards(eng: Engine, fn: FuncInfo, node: ast.AST) -> list[tuple[ast.AST, bool, Node]]:
    out = []
    for e, pol, a in eng.guards_at(fn, node):
        ex = expand_aliases(fn, e)
        for e2, p2 in split_conj(ex, pol):
            out.append((e2, p2, a))
    return out


def prefix_test(e: ast.AST) -> Optional[tuple[str, str]]:
    """(subject source, prefix) when `e` tests that a string starts with a one-character literal: `S.startswith('c')`, `S[:1] == 'c'`"""
    if isinstance(e, ast.Call) and call_name(e) == 'startswith' and isinstance(e.func, ast.Attribute) and len(e.args) == 1 and isinstance(const(e.args[0]), str):
        return unparse(e.func.value), const(e.args[0])
    a = cmp_atom(e)
    if a and a[0] == 'eq':
        for x, y in ((a[1], a[2]), (a[2], a[1])):
            if isinstance(const(y), str) and len(const(y)) == 1 and isinstance(x, ast.Subscript) and isinstance(x.slice, ast.Slice) and \
                    (x.slice.lower is None or const(x.slice.lower) == 0) and const(x.slice.upper) == 1 and x.slice.step is None:
                return unparse(x.value), const(y)
    return None


def elements_nonempty(eng: Engine, fn: FuncInfo, node: ast.AST) -> bool:
    """`node` sits in a loop / comprehension over elements and only runs for non-empty (truthy) elements: a dominating `if not v: continue`
    / `if v:`, an iterable `filter(None, ..)`, or a comprehension condition `if v`."""
    for a in ancestors(node):
        if isinstance(a, (ast.For, ast.AsyncFor)) and isinstance(a.target, ast.Tuple) and all(isinstance(e_, ast.Name) for e_ in a.target.elts):
            # `for idx, v in enumerate(XS)`: the element is the second name; other tuple targets: any of the names
            names_ = [e_.id for e_ in a.target.elts]
            if isinstance(a.iter, ast.Call) and call_name(a.iter) == 'enumerate' and len(names_) == 2:
                names_ = names_[1:]
            if any(pol and isinstance(e, ast.Name) and e.id in names_ for e, pol, _ in eng.guards_at(fn, node)):
                return True
        if isinstance(a, (ast.For, ast.AsyncFor)) and isinstance(a.target, ast.Name):
            v = a.target.id
            it = expand_aliases(fn, a.iter)
            if isinstance(it, ast.Call) and call_name(it) == 'filter' and len(it.args) == 2 and (is_none_const(it.args[0]) or unparse(it.args[0]) in ('bool', 'len')):
                return True
            if isinstance(it, (ast.ListComp, ast.GeneratorExp, ast.SetComp)) and len(it.generators) == 1 and isinstance(it.generators[0].target, ast.Name) and \
                    unparse(it.elt) == it.generators[0].target.id and any(unparse(i_) == it.generators[0].target.id for i_ in it.generators[0].ifs):
                return True
            if any(pol and isinstance(e, ast.Name) and e.id == v for e, pol, _ in eng.guards_at(fn, node)):
                return True
        if isinstance(a, (ast.ListComp, ast.GeneratorExp, ast.SetComp, ast.DictComp)):
            for g in a.generators:
                if isinstance(g.target, ast.Name) and any(unparse(i_) == g.target.id for i_ in g.ifs):
                    return True
    return False


def ifexp_cases(v: ast.AST, conds: tuple = ()):
    """(conditions, leaf) for every arm of a (nested) conditional expression: `A if c else B` -> ([c true], A), ([c false], B)"""
    if isinstance(v, ast.IfExp):
        yield from ifexp_cases(v.body, conds + tuple(split_conj(v.test, True)))
        yield from ifexp_cases(v.orelse, conds + tuple(split_conj(v.test, False)))
    else:
        yield list(conds), v


def cond_values(eng: Engine, fn: FuncInfo, st: ast.stmt) -> list[tuple[list[tuple[ast.AST, bool]], ast.AST]]:
    """The values a statement `x = v` / `return v` can produce with the conditions under which each is chosen: the guards that dominate
    the statement plus the tests of a conditional expression on its right-hand side (the two spellings of the same choice)."""
    base = [(e, pol) for e, pol, _ in eng.guards_at(fn, st)]
    v = getattr(st, 'value', None)
    if v is None:
        return []
    return [(base + conds, leaf) for conds, leaf in ifexp_cases(v)]


def collected(eng: Engine, fn: FuncInfo, name: str) -> list[dict]:
    """How the local list/set `name` is filled: one entry per `name.append(E)` / `name.add(E)` inside a loop and per
    `name = [E for T in ITER if C]`:  {'elt', 'iter', 'target', 'conds': [(expr, polarity)], 'node'}.  The two spellings of
    "collect E for every T in ITER that satisfies C" give the same entry."""
    out = []
    for n in walk_local(fn.node):
        if isinstance(n, ast.Call) and call_name(n) in ('append', 'add') and isinstance(n.func, ast.Attribute) and unparse(n.func.value) == name and len(n.args) == 1:
            lp = next((a for a in ancestors(n) if isinstance(a, (ast.For, ast.AsyncFor))), None)
            out.append({'elt': n.args[0], 'iter': lp.iter if lp is not None else None, 'target': lp.target if lp is not None else None,
                        'conds': [(e, pol) for e, pol, _ in eng.guards_at(fn, n)], 'node': n})
        if isinstance(n, (ast.Assign, ast.AnnAssign)) and n.value is not None and isinstance(n.value, (ast.ListComp, ast.SetComp)) and \
                unparse(n.targets[0] if isinstance(n, ast.Assign) else n.target) == name and len(n.value.generators) == 1:
            g = n.value.generators[0]
            out.append({'elt': n.value.elt, 'iter': g.iter, 'target': g.target,
                        'conds': [(e, pol) for e, pol, _ in eng.guards_at(fn, n)] + [a for i_ in g.ifs for a in split_conj(i_, True)], 'node': n})
    return out


def key_removals(root: ast.AST, dict_src: str) -> list[tuple[ast.AST, ast.AST]]:
    """(node, key expression) for every removal of one key from the mapping written `dict_src`: `del D[k]`, `D.pop(k)`, `D.pop(k, default)`"""
    out = []
    for n in ast.walk(root):
        if isinstance(n, ast.Delete):
            for t in n.targets:
                if isinstance(t, ast.Subscript) and unparse(t.value) == dict_src:
                    out.append((n, t.slice))
        if isinstance(n, ast.Call) and call_name(n) == 'pop' and isinstance(n.func, ast.Attribute) and unparse(n.func.value) == dict_src and 1 <= len(n.args) <= 2:
            out.append((n, n.args[0]))
    return out


def lookup_in(e: ast.AST) -> Optional[tuple[ast.AST, ast.AST]]:
    """(mapping, key) when `e` reads one entry of a mapping: `M[k]`, `M.get(k)`, `M.get(k, None)`"""
    if isinstance(e, ast.Subscript) and not isinstance(e.slice, ast.Slice):
        return e.value, e.slice
    if isinstance(e, ast.Call) and call_name(e) == 'get' and isinstance(e.func, ast.Attribute) and 1 <= len(e.args) <= 2 and not e.keywords and \
            (len(e.args) == 1 or is_none_const(e.args[1])):
        return e.func.value, e.args[0]
    return None


MUTATORS = {'append', 'extend', 'add', 'update', 'insert', 'remove', 'pop', 'clear', 'discard', 'setdefault', 'popitem', 'appendleft'}


def per_instance_state_rule(eng: Engine, ck: Check, rule: str, classes: list[ClassInfo], why: str):
    """Every container that methods of these classes mutate in place through `self.X` is created per instance (assigned in an
    `__init__` of the class or of a repo base class).  A mutable value bound at CLASS level and never re-bound per instance is one
    object shared by all instances: what one instance queues / registers, every other instance sees and cancels."""
    n = 0
    for ci in classes:
        mro = eng.repo.mro(ci)
        inits = [c.methods['__init__'] for c in mro if '__init__' in c.methods] + [c.methods['__post_init__'] for c in mro if '__post_init__' in c.methods]
        per_instance = {t.attr for f in inits for nd in walk_local(f.node) if isinstance(nd, (ast.Assign, ast.AnnAssign))
                        for t in (nd.targets if isinstance(nd, ast.Assign) else [nd.target])
                        if isinstance(t, ast.Attribute) and isinstance(t.value, ast.Name) and t.value.id == 'self' and getattr(nd, 'value', None) is not None}
        # dataclass fields with default_factory are per instance as well
        for c in mro:
            for st in c.node.body:
                if isinstance(st, ast.AnnAssign) and isinstance(st.target, ast.Name) and st.value is not None and isinstance(st.value, ast.Call) and \
                        call_name(st.value) == 'field' and kw(st.value, 'default_factory') is not None:
                    per_instance.add(st.target.id)
        mutated: dict[str, tuple[FuncInfo, ast.AST]] = {}
        for c in mro:
            for m in c.methods.values():
                for x in calls_in(m.node):
                    if isinstance(x.func, ast.Attribute) and x.func.attr in MUTATORS and isinstance(x.func.value, ast.Attribute) and \
                            isinstance(x.func.value.value, ast.Name) and x.func.value.value.id == 'self':
                        mutated.setdefault(x.func.value.attr, (m, x))
        for attr, (m, x) in sorted(mutated.items()):
            class_level = None
            for c in mro:
                for st in c.node.body:
                    tg = st.targets if isinstance(st, ast.Assign) else [st.target] if isinstance(st, ast.AnnAssign) else []
                    if any(isinstance(t, ast.Name) and t.id == attr for t in tg) and getattr(st, 'value', None) is not None and \
                            not (isinstance(st.value, ast.Call) and call_name(st.value) == 'field'):
                        class_level = (c, st)
            if class_level is None and attr not in per_instance:
                continue          # set elsewhere (e.g. by the owner after construction): not this rule's business
            n += 1
            ok = attr in per_instance
            ck.ob(rule, m, x, f'{ci.name}.{attr} (mutated in place by {m.name}) is a per-instance container, created in __init__: {why}', ok,
                  (f'`{unparse(class_level[1])[:60]}` at class level in {class_level[0].name} and no `self.{attr} = ...` in any __init__: one object shared by every '
                   f'{ci.name} in the process') if class_level else '', construct=f'{ci.name}.{attr} per instance')
    return n


def local_mirrors_attr(fn: FuncInfo, name: str, attr: str) -> bool:
    """Every assignment of the local `name` in `fn` gives it the value of `<obj>.<attr>`: `name = X.attr`, or the chained
    `name = X.attr = <value>` (the local and the attribute receive the same object).  The local then reads as the attribute."""
    found = False
    for n in walk_local(fn.node):
        if isinstance(n, ast.Assign) and any(isinstance(t_, ast.Name) and t_.id == name for t_ in n.targets):
            ok = (isinstance(n.value, ast.Attribute) and n.value.attr == attr) or any(isinstance(t_, ast.Attribute) and t_.attr == attr for t_ in n.targets)
            if not ok:
                return False
            found = True
        elif isinstance(n, ast.Name) and n.id == name and isinstance(n.ctx, (ast.Store, ast.Del)) and \
                not any(isinstance(a_, ast.Assign) and n in a_.targets for a_ in walk_local(fn.node)):
            return False
    return found


def cmp_atom_diff(e: ast.AST):
    """cmp_atom(e), with a difference compared against zero read as the comparison of its operands: `A - B <= 0` is `A <= B`
    (integers; nothing wrapped around the difference)."""
    a = cmp_atom(e)
    if a and a[0] in ('eq', 'lt', 'le', 'gt', 'ge') and isinstance(a[1], ast.BinOp) and isinstance(a[1].op, ast.Sub) and \
            isinstance(a[2], ast.Constant) and a[2].value == 0 and not isinstance(a[2].value, bool):
        return a[0], a[1].left, a[1].right
    return a
