"""C03 — transfer state graph."""
from __future__ import annotations
import json
import os
from .common import *

TABLE = os.path.join(os.path.dirname(os.path.dirname(__file__)), 'tables', 'state_graph.json')
OPS = ['fail', 'abort', 'queue', 'initialize', 'complete', 'incomplete', 'start_transferring', 'pause']


def state_classes(eng: Engine) -> dict[str, ClassInfo]:
    base = eng.cls('TransferState', TSTATE)
    out = {}
    for sc in eng.repo.subclasses(base):
        val = None
        for st in sc.node.body:
            if isinstance(st, ast.Assign) and any(isinstance(t, ast.Name) and t.id == 'VALUE' for t in st.targets):
                val = enum_member(st.value)
        if val is None:
            raise AnalysisError(f'state class {sc.name} has no VALUE')
        out[val] = sc
    return out


def transitions_in(fn: FuncInfo, by_class: dict[str, str]) -> list[tuple[ast.Call, Optional[str]]]:
    out = []
    for c in calls_in(fn.node):
        if call_name(c) == 'transition' and c.args:
            a = c.args[0]
            tgt = None
            if isinstance(a, ast.Call):
                nm = call_name(a)
                tgt = by_class.get(nm)
            out.append((c, tgt))
    return out


def run(eng: Engine, ck: Check):
    repo = eng.repo
    base = eng.cls('TransferState', TSTATE)
    states = state_classes(eng)
    by_class = {ci.name: v for v, ci in states.items()}
    pinned = json.load(open(TABLE))
    allowed = {(e['from'], e['op'], e['to']) for e in pinned['edges']}
    ck.floor('R-C03-GRAPH.states', len(states), 10)

    # class-level aliases (`fail = TransferState._fail_idle`): the lock wrapper re-dispatches a request that waited for the lock with
    # getattr(type(current_state), func.__name__); an operation installed under a name that differs from the function's own name is
    # re-dispatched to the wrong method (the shared helper exists on EVERY state, also on those that must refuse)
    alias_methods: dict[tuple[str, str], FuncInfo] = {}
    for ci in [base] + list(states.values()):
        for st in ci.node.body:
            if isinstance(st, ast.Assign) and len(st.targets) == 1 and isinstance(st.targets[0], ast.Name) and isinstance(st.value, (ast.Attribute, ast.Name)):
                nm = st.targets[0].id
                ref = st.value.attr if isinstance(st.value, ast.Attribute) else st.value.id
                target = None
                if isinstance(st.value, ast.Attribute) and isinstance(st.value.value, ast.Name):
                    oc = repo.find_cls(st.value.value.id, TSTATE)        # `queue = FailedState.queue`: the method of THAT class
                    if oc is not None:
                        target = next((c.methods[ref] for c in repo.mro(oc) if ref in c.methods), None)
                if target is None:
                    target = next((c.methods[ref] for c in repo.mro(ci) if ref in c.methods), None)
                if target is None:
                    continue
                alias_methods[(ci.name, nm)] = target
                ck.ob('R-C03-DISPATCH', ci, st, f'{ci.name}.{nm} is defined under its own name (the wrapper re-dispatches by func.__name__)', ref == nm,
                      f'`{unparse(st)}`: the function is called `{ref}`; a `{nm}()` that waited for the lock while the transfer left this state is re-dispatched to '
                      f'`{ref}` of the new state — which exists on every state and does not refuse', construct=f'{ci.name}.{nm} alias name')
    # ---- R-C03-GRAPH: extracted transition relation is a subset of the documented graph
    extracted = set()
    for val, ci in states.items():
        for name, m in list(ci.methods.items()) + [(nm_, t_) for (cn_, nm_), t_ in alias_methods.items() if cn_ == ci.name]:
            if name.startswith('_'):
                continue
            ck.visited(m)
            trs = transitions_in(m, by_class)
            if name not in OPS:
                ck.ob('R-C03-GRAPH', m, m.node, f'{ci.name}.{name} is one of the documented operations', not trs,
                      f'unknown public operation `{name}` performs a transition', construct=f'{val}.{name}')
                continue
            for call, tgt in trs:
                if tgt is None:
                    ck.ob('R-C03-GRAPH', m, call, f'{val}.{name}: transition target is a state class constructed in place',
                          False, f'cannot tell the target of `{unparse(call)}`', construct=f'{val}.{name}->?')
                    continue
                extracted.add((val, name, tgt))
                ck.ob('R-C03-GRAPH', m, call, f'edge {val} --{name}--> {tgt} is an edge of the documented state graph',
                      (val, name, tgt) in allowed,
                      f'{val} --{name}--> {tgt} is not in tables/state_graph.json (documented: '
                      f'{sorted(t for f_, o, t in allowed if f_ == val)})', construct=f'{val}.{name}->{tgt}')
    ck.floor('R-C03-GRAPH', len(extracted), 28)
    missing = sorted(allowed - extracted)
    if missing:
        ck.note(f'documented edges no longer implemented (not a safety violation): {missing}')
    # transition() / Transfer.state writers
    for f in repo.all_funcs():
        for call in calls_on(f.node, 'transition'):
            ok = f.cls is not None and (f.cls is base or base in repo.mro(f.cls))
            ck.ob('R-C03-OWNER', f, call, 'Transfer.transition is called only from state classes', ok,
                  f'called from {f.qualname}', construct=f'transition in {f.qualname}')
    tcls = eng.cls('Transfer', TMODEL)
    for f, st, v in eng.stores_to_attr('state'):
        tgt_types = []
        for n in ast.walk(st):
            if isinstance(n, ast.Attribute) and n.attr == 'state' and isinstance(n.ctx, ast.Store):
                tgt_types = eng.res.expr_types(n.value, f)
        if not any(t is tcls for t in tgt_types):
            continue
        ok = f.key in ('transfer/model.py:Transfer.__init__', 'transfer/model.py:Transfer.transition',
                       'transfer/manager.py:TransferManager.read_cache')
        ck.ob('R-C03-OWNER', f, st, 'Transfer.state is written only by __init__, transition and the cache repair',
              ok, f'`{unparse(st)}` in {f.qualname}', construct=alpha_key(st))

    # ---- R-C03-REFUSE-PURE: base-class operations refuse without any effect
    for name in OPS:
        m = base.methods.get(name)
        if m is None:
            ck.ob('R-C03-REFUSE-PURE', base, base.node, f'TransferState.{name} exists (default refusal)', False,
                  'method missing', construct=f'base.{name}')
            continue
        ck.visited(m)
        effects = []
        for n in walk_local(m.node):
            if isinstance(n, (ast.Assign, ast.AugAssign, ast.AnnAssign)):
                tg = n.targets if isinstance(n, ast.Assign) else [n.target]
                if any(isinstance(t, (ast.Attribute, ast.Subscript)) for t in tg):
                    effects.append(unparse(n))
            if isinstance(n, ast.Delete):
                effects.append(unparse(n))
            if isinstance(n, ast.Call):
                ch = attr_chain(n.func) or []
                if ch and ch[0] in ('logger', 'logging'):
                    continue
                if call_name(n) in ('is_upload', 'is_download'):
                    continue
                effects.append(unparse(n)[:60])
            if isinstance(n, ast.Await):
                effects.append('await')
        rets = [n for n in walk_local(m.node) if isinstance(n, ast.Return)]
        ok = not effects and rets and all(const(r.value) is False for r in rets)
        ck.ob('R-C03-REFUSE-PURE', m, m.node, f'TransferState.{name} (refusal) has no side effect and returns False', ok,
              f'effects: {effects}; returns: {[unparse(r.value) for r in rets]}', construct=f'base.{name}')
    # overrides return True on every path and the transition is their last effect
    for val, ci in states.items():
        for name, m in ci.methods.items():
            if name not in OPS:
                continue
            c = eng.cfg(m)
            rets = [n for n in c.nodes if n.kind == 'stmt' and isinstance(n.ast, ast.Return) and n in c.reachable_nodes()]
            implicit = c.find_path([c.entry], lambda n: n.kind == 'exit_return', avoid=lambda n: isinstance(n.ast, ast.Return))
            implicit = [implicit] if implicit else []
            ok = rets and not implicit and all(const(r.ast.value) is True for r in rets)
            ck.ob('R-C03-RETURNS', m, m.node, f'{ci.name}.{name} returns True on every normal path (it performed the transition)',
                  ok, f'returns {[unparse(r.ast.value) for r in rets]}, implicit None returns: {len(implicit)}',
                  construct=f'{val}.{name} returns')
            trs = transitions_in(m, by_class)
            tnodes = [n for call, _ in trs for n in c.nodes_for(call)]
            # every normal return is preceded by a transition (must-pass-through)
            p = c.find_path([c.entry], lambda n: n.kind == 'exit_return', avoid=lambda n: n in tnodes,
                            edge_ok=lambda a, b, lab: lab == 'next')
            ck.ob('R-C03-RETURNS', m, m.node, f'{ci.name}.{name}: every normal return has passed a transition() call',
                  p is None, f'path without transition: {c.describe_path(p, m.where) if p else ""}',
                  construct=f'{val}.{name} transitions')
            # nothing but the return follows the transition
            for tn in tnodes:
                after = [s for s in c.reach_from([tn], edge_ok=lambda a, b, lab: lab == 'next')
                         if s is not tn and s.kind == 'stmt' and not isinstance(s.ast, ast.Return)]
                # removing the local artefact may follow the transition (it suspends; doing it before would leave the transfer in a
                # schedulable state without tasks, see R-C06-CANCEL-ALL): allowed iff the helper touches nothing but local_path
                def cleanup_only(st_node) -> bool:
                    xs = [x for x in calls_in(st_node) if call_name(x) == '_remove_local_file']
                    if len(xs) != 1 or not isinstance(st_node, ast.Expr):
                        return False
                    rlf_ = eng.func(TSTATE, '_remove_local_file')
                    written = {t.attr for n_ in walk_local(rlf_.node) if isinstance(n_, (ast.Assign, ast.AugAssign))
                               for t in (n_.targets if isinstance(n_, ast.Assign) else [n_.target]) if isinstance(t, ast.Attribute)}
                    calls_state = any(mentions_attr(x.func, 'state') or call_name(x) == 'transition' for x in calls_in(rlf_.node))
                    return written <= {'local_path'} and not calls_state
                after = [s for s in after if not cleanup_only(s.ast)]
                ck.ob('R-C03-LAST-EFFECT', m, tn.ast, f'{ci.name}.{name}: the transition is the last effect on the fields that describe the state '
                      '(listeners see the final state, reasons and timestamps; only the removal of the local file may follow)',
                      not after, f'statements after the transition: {[unparse(a.ast)[:40] for a in after]}',
                      construct=f'{val}.{name} last effect')

    from . import defs
    defs.transfer_direction_predicates(eng, ck, 'R-C03-REFUSE-PURE')

    # ---- R-C03-LOCKED
    wraps = defs.state_lock_wrapping(eng, ck, 'R-C03-LOCKED')
    defs.state_operations_are_methods(eng, ck, 'R-C03-LOCKED')
    defs.lock_wrapper_forwards_arguments(eng, ck, 'R-C03-DISPATCH', 'a request decided by the current state is the request that was made: same reason, same flags')
    for nm in ('__init__', '__setstate__'):
        m = base.methods.get(nm)
        ck.ob('R-C03-LOCKED', m or base, (m or base).node, f'TransferState.{nm} wraps the public methods with the state lock unconditionally',
              wraps[nm], 'the wrap loop (or the helper that holds it) is not run, or only conditionally', construct=f'{nm} calls _wrap_lock')
    # subclasses do not override __init__/__setstate__/_wrap_lock without delegating
    for val, ci in states.items():
        for nm in ('__init__', '__setstate__', '_wrap_lock', '__getattribute__'):
            if nm in ci.methods:
                m = ci.methods[nm]
                ok = nm in ('__init__', '__setstate__') and any(
                    isinstance(c.func, ast.Attribute) and c.func.attr == nm and isinstance(c.func.value, ast.Call)
                    and call_name(c.func.value) == 'super' for c in calls_in(m.node))
                ck.ob('R-C03-LOCKED', m, m.node, f'{ci.name}.{nm} delegates to TransferState.{nm}', ok,
                      'override does not call super()', construct=f'{ci.name}.{nm}')
    wsl = eng.func(TSTATE, '_with_state_lock')
    wrapper = repo.find_func(TSTATE, '_with_state_lock.<locals>.wrapper')
    ck.ob('R-C03-LOCKED', wsl, wsl.node, '_with_state_lock defines an async wrapper', wrapper is not None and wrapper.is_async,
          'wrapper missing', construct='wrapper exists')
    if wrapper is not None:
        ck.visited(wrapper)
        aws = [n for n in walk_local(wrapper.node) if isinstance(n, ast.AsyncWith)]
        lock_aws = [a for a in aws if any(mentions_attr(i.context_expr, '_state_lock') for i in a.items)]
        fparam = wsl.params[0] if wsl.params else 'func'
        recv_param = wrapper.params[0] if wrapper.params else 'obj'
        sa_w = single_assignments(wrapper)

        def lookup_of(name: str):
            """`x = getattr(type(<S>), func.__name__)` -> the expression S (which state's class the method is taken from)."""
            v = sa_w.get(name)
            if isinstance(v, ast.Call) and call_name(v) == 'getattr' and len(v.args) >= 2 and isinstance(v.args[0], ast.Call) and \
                    call_name(v.args[0]) == 'type' and v.args[0].args and f'{fparam}.__name__' in unparse(v.args[1]):
                return v, v.args[0].args[0]
            return None
        # state-method calls of the wrapper: the bound method `func(..)` or a method looked up on a state class
        fcalls = []
        for c in calls_in(wrapper.node):
            if isinstance(c.func, ast.Name) and c.func.id == fparam:
                fcalls.append((c, 'bound', None, None))
            elif isinstance(c.func, ast.Name) and lookup_of(c.func.id):
                lk, sexpr = lookup_of(c.func.id)
                fcalls.append((c, 'looked-up', lk, sexpr))
        ck.floor('R-C03-LOCKED.funccall', len(fcalls), 1)

        def inside_lock(n: ast.AST) -> bool:
            return any(a in lock_aws for a in ancestors(n))
        for c, kind, lk, sexpr in fcalls:
            inside = inside_lock(c)
            awaited_here = isinstance(parent(c), ast.Await)
            ck.ob('R-C03-LOCKED', wrapper, c, 'the wrapped state method is called AND awaited inside `async with transfer._state_lock`',
                  inside and awaited_here, f'inside lock: {inside}; awaited at the call: {awaited_here} '
                  '(a coroutine created under the lock but awaited later runs unlocked)', construct='await func inside lock')
        other_awaits = [n for n in walk_local(wrapper.node) if isinstance(n, ast.Await)
                        and not any(a in lock_aws for a in ancestors(n))]
        ck.ob('R-C03-LOCKED', wrapper, wrapper.node, 'nothing is awaited outside the lock in the wrapper', not other_awaits,
              f'awaits outside the lock: {[unparse(a)[:40] for a in other_awaits]}', construct='no await outside lock')
        # ---- R-C03-DISPATCH: the operation must run on the *current* state
        for c, kind, lk, sexpr in fcalls:
            if kind == 'bound':
                def ident(e, pol):
                    a = cmp_atom(e)
                    return bool(a and a[0] == 'is' and pol and mentions_attr(e, 'state') and mentions_name(e, recv_param))
                g = next((x for x in expanded_guards(eng, wrapper, c) if ident(x[0], x[1])), None)
                ok = g is not None
                why = (f'`{unparse(c)}` runs the method bound to the state object that was current when the caller looked it up, '
                       'not when the lock was obtained')
            else:
                # the method is looked up on the class of a state: that state must be READ under the lock, the lookup must happen
                # under the lock, and the call must receive that same state
                s_local = sexpr.id if isinstance(sexpr, ast.Name) else None
                s_def = sa_w.get(s_local) if s_local else sexpr
                def_node = next((n for n in walk_local(wrapper.node) if isinstance(n, ast.Assign) and isinstance(n.targets[0], ast.Name)
                                 and n.targets[0].id == s_local), None) if s_local else lk
                reads_state = s_def is not None and mentions_attr(s_def, 'state')
                read_locked = def_node is not None and inside_lock(def_node)
                lookup_stmt = next((n for n in walk_local(wrapper.node) if isinstance(n, ast.Assign) and n.value is lk), None)
                lookup_locked = lookup_stmt is not None and inside_lock(lookup_stmt)
                same_recv = bool(c.args) and unparse(c.args[0]) == unparse(sexpr)
                ok = reads_state and read_locked and lookup_locked and same_recv
                why = (f'method looked up by `{unparse(lk)}`: state read under the lock: {read_locked}; lookup under the lock: {lookup_locked}; '
                       f'called on that same state: {same_recv} — a method chosen before the lock was obtained belongs to a state the transfer may have left')
            ck.ob('R-C03-DISPATCH', wrapper, c,
                  'under the lock the operation runs on the transfer\'s current state object (identity re-check, or re-dispatch on the state read '
                  'after acquiring the lock); a stale state object must not transition', ok, why, construct=f'dispatch on current state ({kind})')

    # ---- R-C03-MANAGER
    for q, target in (('TransferManager.abort', 'ABORTED'), ('TransferManager.queue', 'QUEUED'), ('TransferManager.pause', 'PAUSED')):
        f = eng.func(TM, q)
        raises = [n for n in walk_local(f.node) if isinstance(n, ast.Raise) and n.exc is not None
                  and 'InvalidStateTransition' in unparse(n.exc)]
        ok = bool(raises)
        detail = 'no InvalidStateTransition raised'
        for r in raises:
            gs = eng.guards_at(f, r)
            refusal = [(e, p) for e, p, _ in gs if not mentions_attr(e, 'transfers')]
            ok = ok and len(refusal) == 1 and not refusal[0][1]
            detail = f'guards of the raise: {[(unparse(e), p) for e, p in refusal]}'
            ok = ok and target in enum_members_in(r.exc)
        ck.ob('R-C03-MANAGER', f, f.node, f'{q} raises InvalidStateTransition(.., {target}) exactly when the state refused', ok,
              detail, construct=q)
    defs.enum_members_distinct(eng, ck, 'R-C03-GRAPH', [('TransferState.State', TSTATE), ('TransferDirection', TMODEL)], 'every state class carries its own VALUE; guards compare against one state')

    # ---- Transfer.transition: the change and its report happen in the caller's task, i.e. under the state lock
    tr_ = eng.func(TMODEL, 'Transfer.transition')
    ck.visited(tr_)
    scope_ = eng.scope(tr_)
    notif = [(f_, x) for f_ in scope_ for x in calls_in(f_.node) if call_name(x) == 'on_transfer_state_changed']
    detached = [unparse(x)[:60] for f_ in scope_ for x in calls_in(f_.node) if call_name(x) in ('shield', 'create_task', 'ensure_future', 'run_coroutine_threadsafe', 'call_soon', 'call_later')]
    direct = bool(notif) and all(isinstance(parent(x), ast.Await) for _, x in notif)
    ck.ob('R-C03-LOCKED', tr_, tr_.node, 'Transfer.transition reports the change to every listener in the calling task (directly awaited, nothing detached): the state '
          'operation that called it still holds the state lock until the last listener has been told', direct and not detached,
          f'detached by {detached}' if detached else 'listener call is not awaited directly', construct='transition notifies under the lock')
    st_store = [n for n in walk_local(tr_.node) if isinstance(n, ast.Assign) and any(unparse(t) == 'self.state' for t in n.targets)]
    sp_ = [p_ for p_ in tr_.params if p_ != 'self'][0]
    ok = len(st_store) == 1 and unparse(st_store[0].value) == sp_ and not eng.guards_at(tr_, st_store[0])
    if ok and notif:
        ct_ = eng.cfg(tr_)
        ok = all(ct_.nodes_for(st_store[0])[0].id < n2.id for f_, x in notif if f_ is tr_ for n2 in ct_.nodes_for(x))
    ck.ob('R-C03-LOCKED', tr_, tr_.node, 'Transfer.transition installs the new state object unconditionally before it reports', ok, '', construct='transition installs then reports')

