"""C16 — session life cycle: login advertises settings, loss resets, stop is final."""
from __future__ import annotations
from .common import *
from .c13 import interproc_guards

CLIENT = 'client.py'


def session_handlers(eng: Engine) -> dict[str, FuncInfo]:
    """class name -> handler registered for SessionInitializedEvent."""
    eng.res.graph()
    out = {}
    for h in eng.res.event_handlers.get('SessionInitializedEvent', []):
        if h.cls is not None:
            out[h.cls.name] = h
    return out


def reach_calls(eng: Engine, root: FuncInfo, pred, depth: int = 4):
    """(function, call, chain of (caller, call)) for calls satisfying pred reachable from root by direct calls."""
    out = []
    seen = set()

    def rec(fn: FuncInfo, chain, d):
        if fn in seen:
            return
        seen.add(fn)
        for c in calls_in(fn.node):
            if pred(c):
                out.append((fn, c, chain))
            if d > 0:
                for t in eng.res.callees(c, fn):
                    if t.module.rel.startswith('protocol/') or t.name == '__init__':
                        continue
                    rec(t, chain + [(fn, c)], d - 1)
    rec(root, [], depth)
    return out


def chain_guards(eng: Engine, fn: FuncInfo, call: ast.AST, chain) -> list[tuple[str, bool]]:
    gs = [(unparse(e), pol) for e, pol, _ in eng.guards_at(fn, call)]
    for caller, c in chain:
        gs += [(unparse(e), pol) for e, pol, _ in eng.guards_at(caller, c)]
    return gs


def listening_ports_definition(eng: Engine, ck: Check):
    """What `SetListenPort` announces is what get_listening_ports() returns: a PAIR whose element i is the port of listening connection i
    when that connection is CONNECTED and 0 otherwise (position 0 = clear port, position 1 = obfuscated port: a port that moves to the
    other position tells the server that the obfuscated listener speaks the plain protocol)."""
    fn = eng.func('network/network.py', 'Network.get_listening_ports')
    ck.visited(fn)
    rets = [r for r in walk_local(fn.node) if isinstance(r, ast.Return) and r.value is not None]
    nested = {g.name: g for g in eng.repo.all_funcs() if g.outer is fn}

    def port_of(e: ast.AST, i: int) -> bool:
        """`e` is: port of self.listening_connections[i] if that connection is set and CONNECTED, else 0"""
        want = f'self.listening_connections[{i}]'

        def guarded_port(conds, leaf, subject: str) -> Optional[bool]:
            """leaf `<subject>.port` under (subject truthy) and (subject.state == CONNECTED) -> True; constant 0 -> None (neutral); else False"""
            if isinstance(leaf, ast.Constant) and leaf.value == 0:
                return None
            if unparse(leaf) != f'{subject}.port':
                return False
            pos = [(x_, p_) for x_, p_ in conds]
            truthy = any(p_ and unparse(x_) == subject for x_, p_ in pos) or any(
                (not p_) and isinstance(x_, ast.Compare) and unparse(x_.left) == subject and isinstance(x_.ops[0], ast.Is) and is_none_const(x_.comparators[0]) for x_, p_ in pos) or \
                any(p_ and isinstance(x_, ast.Compare) and unparse(x_.left) == subject and isinstance(x_.ops[0], ast.IsNot) and is_none_const(x_.comparators[0]) for x_, p_ in pos)
            conn = any(p_ and mentions_attr(x_, 'state') and unparse(x_).startswith(f'{subject}.state') and enum_members_in(x_) == {'CONNECTED'} and
                       isinstance(x_, ast.Compare) and isinstance(x_.ops[0], (ast.Eq, ast.Is)) for x_, p_ in pos)
            return truthy and conn
        if isinstance(e, ast.Call) and isinstance(e.func, ast.Name) and e.func.id in nested and len(e.args) == 1 and not e.keywords and unparse(e.args[0]) == want:
            g = nested[e.func.id]
            if len(g.params) != 1:
                return False
            verdicts = []
            for r in [r_ for r_ in walk_local(g.node) if isinstance(r_, ast.Return)]:
                if r.value is None:
                    return False
                for conds, leaf in cond_values(eng, g, r):
                    flat = [(x2, p2) for x_, p_ in conds for x2, p2 in split_conj(x_, p_)]
                    verdicts.append(guarded_port(flat, leaf, g.params[0]))
            return True in verdicts and False not in verdicts and None in verdicts
        verdicts = []
        for conds, leaf in ifexp_cases(e):
            verdicts.append(guarded_port(list(conds), leaf, want))
        return True in verdicts and False not in verdicts and None in verdicts
    ok = len(rets) == 1 and isinstance(rets[0].value, ast.Tuple) and len(rets[0].value.elts) == 2
    why = 'the result is not one 2-tuple'
    # the pair unpacked from a generator that yields exactly ONE value per listening connection, in order: `a, b = self._ports()` with
    # `for c in self.listening_connections: if c and c.state == CONNECTED: yield c.port  else: yield 0`
    if ok and all(isinstance(e_, ast.Name) for e_ in rets[0].value.elts):
        names_ = [e_.id for e_ in rets[0].value.elts]
        for n_ in walk_local(fn.node):
            if isinstance(n_, ast.Assign) and len(n_.targets) == 1 and isinstance(n_.targets[0], ast.Tuple) and [unparse(t_) for t_ in n_.targets[0].elts] == names_ and \
                    isinstance(n_.value, ast.Call) and isinstance(n_.value.func, ast.Attribute) and unparse(n_.value.func.value) == 'self' and not n_.value.args and not n_.value.keywords:
                g = eng.repo.find_func('network/network.py', f'Network.{n_.value.func.attr}')
                if g is None:
                    continue
                body = [s_ for s_ in g.node.body if not (isinstance(s_, ast.Expr) and isinstance(s_.value, ast.Constant))]
                if len(body) == 1 and isinstance(body[0], ast.For) and unparse(body[0].iter) == 'self.listening_connections' and isinstance(body[0].target, ast.Name) and \
                        not body[0].orelse and len(body[0].body) == 1 and isinstance(body[0].body[0], ast.If):
                    c_ = body[0].target.id
                    if_ = body[0].body[0]
                    conj = [(unparse(x_), p_) for x_, p_ in split_conj(if_.test, True)]
                    one = lambda b_: len(b_) == 1 and isinstance(b_[0], ast.Expr) and isinstance(b_[0].value, ast.Yield) and b_[0].value.value is not None
                    if (c_, True) in conj and (f'{c_}.state == ConnectionState.CONNECTED', True) in conj and len(conj) == 2 and one(if_.body) and one(if_.orelse) and \
                            unparse(if_.body[0].value.value) == f'{c_}.port' and const(if_.orelse[0].value.value) == 0 and \
                            len([y_ for y_ in ast.walk(g.node) if isinstance(y_, (ast.Yield, ast.YieldFrom))]) == 2:
                        ck.visited(g)
                        ck.ob('R-C16-ADVERT', fn, fn.node, 'get_listening_ports() returns (clear port, obfuscated port): element i is the port of listening connection i when it is '
                              'CONNECTED, 0 otherwise -- by position, not by arrival', True, '', construct='listening ports by position')
                        return
    if ok:
        for i, el in enumerate(rets[0].value.elts):
            e = expand_aliases(fn, el, 2)
            if not port_of(e, i):
                ok = False
                why = f'element {i} is `{unparse(e)[:70]}`: not established as "port of listening connection {i} if it is connected, else 0"'
                break
    ck.ob('R-C16-ADVERT', fn, fn.node, 'get_listening_ports() returns (clear port, obfuscated port): element i is the port of listening connection i when it is '
          'CONNECTED, 0 otherwise -- by position, not by arrival', ok, why, construct='listening ports by position')


def run(eng: Engine, ck: Check):
    repo = eng.repo
    hs = session_handlers(eng)
    ck.note(f'SessionInitializedEvent handlers: {sorted(hs)}')

    # ---- R-C16-ADVERT
    from . import defs
    defs.network_send_helpers(eng, ck, 'R-C16-ADVERT')
    from .c13 import unset_parent_clears
    unset_parent_clears(eng, ck, 'R-C16-ADVERT')       # the branch position sent after login is derived from self.parent
    def row(cls_name, msg, what, cond_ok, data_ok, floor=1):
        h = hs.get(cls_name)
        if h is None:
            ck.ob('R-C16-ADVERT', cls_name, cls_name, f'{cls_name} has a handler registered for SessionInitializedEvent ({what})', False,
                  'no registration found', construct=f'{cls_name} session handler')
            return
        ck.visited(h)
        found = reach_calls(eng, h, lambda c: call_name(c) == 'Request' and unparse(c.func) == msg)
        ck.ob('R-C16-ADVERT', h, h.node, f'after login {msg} is sent by {cls_name} ({what})', len(found) >= floor,
              f'{msg} is not constructed on any path from {h.qualname}', construct=f'{cls_name} sends {msg}')
        for fn, c, chain in found:
            gs = chain_guards(eng, fn, c, chain)
            ok, why = cond_ok(gs)
            ck.ob('R-C16-ADVERT', fn, c, f'{msg}: sent under exactly the documented condition ({what})', ok, f'path condition {gs}: {why}',
                  construct=f'{cls_name} {msg} condition')
            ok, why = data_ok(fn, c, chain)
            ck.ob('R-C16-ADVERT', fn, c, f'{msg}: carries the value the settings prescribe ({what})', ok, why, construct=f'{cls_name} {msg} data')

    def always(gs):
        bad = [g for g in gs if not ('_session' in g[0])]
        return (not bad, 'unexpected condition' if bad else '')

    def loop_iter(fn, c):
        for a in ancestors(c):
            if isinstance(a, (ast.For, ast.ListComp, ast.GeneratorExp)):
                it = a.iter if isinstance(a, ast.For) else a.generators[0].iter
                return unparse(expand_aliases(fn, it))
        return ''

    listening_ports_definition(eng, ck)
    row('Network', 'SetListenPort.Request', 'connected listening ports', always,
        lambda fn, c, ch: (any('get_listening_ports' in unparse(v) for v in single_assignments(fn).values()) or
                           any(isinstance(n, ast.Assign) and 'get_listening_ports' in unparse(n.value) for n in walk_local(fn.node)),
                           'ports do not come from get_listening_ports()'))
    row('UserManager', 'SetStatus.Request', 'online status', always,
        lambda fn, c, ch: (unparse(c.args[0]) == 'UserStatus.ONLINE.value' if c.args else False, f'status argument `{unparse(c.args[0]) if c.args else ""}`'))
    row('UserManager', 'CheckPrivileges.Request', 'privileges', always, lambda fn, c, ch: (True, ''))
    row('SharesManager', 'SharedFoldersFiles.Request', 'share counts', always,
        lambda fn, c, ch: (any(isinstance(n, ast.Assign) and isinstance(n.targets[0], ast.Tuple) and len(n.targets[0].elts) == 2 and
                               any(call_name(y) == 'get_stats' for y in ast.walk(n.value)) and
                               [unparse(t) for t in n.targets[0].elts] == [unparse(kw(c, 'shared_folder_count')), unparse(kw(c, 'shared_file_count'))]
                               for n in walk_local(fn.node)),
                           'counts are not (folder_count, file_count) = get_stats()'))
    row('InterestManager', 'AddInterest.Request', 'every liked interest', always,
        lambda fn, c, ch: (loop_iter(fn, c).endswith('_settings.interests.liked'), f'iterates `{loop_iter(fn, c)}`'))
    row('InterestManager', 'AddHatedInterest.Request', 'every hated interest', always,
        lambda fn, c, ch: (loop_iter(fn, c).endswith('_settings.interests.hated'), f'iterates `{loop_iter(fn, c)}`'))
    row('RoomManager', 'TogglePrivateRoomInvites.Request', 'private room invite switch', always,
        lambda fn, c, ch: ((unparse(c.args[0]) if c.args else '').endswith('_settings.rooms.private_room_invites'), unparse(c)))
    row('RoomManager', 'JoinRoom.Request', 'favourite rooms iff rooms.auto_join',
        lambda gs: ([g for g in gs if 'auto_join' in g[0]] == [(next((g[0] for g in gs if 'auto_join' in g[0]), ''), True)] and
                    all('auto_join' in g[0] for g in gs) and all(g[0].endswith('_settings.rooms.auto_join') for g in gs if 'auto_join' in g[0]),
                    'SETTINGS.rst: auto_join = "Automatically rejoin rooms when logon is successful": favourites must be joined iff auto_join is true'),
        lambda fn, c, ch: (loop_iter(fn, c).endswith('_settings.rooms.favorites'), f'iterates `{loop_iter(fn, c)}`'))
    for m in ('BranchLevel.Request', 'BranchRoot.Request', 'ToggleParentSearch.Request'):
        row('DistributedNetwork', m, 'initial branch position', lambda gs: (not [g for g in gs if '_session' not in g[0] and 'search_for_parent' not in g[0]
                                                                             and 'self.parent' not in g[0]], ''),
            lambda fn, c, ch: (True, ''))
    # friends
    uh = hs.get('UserManager')
    if uh is not None:
        found = reach_calls(eng, uh, lambda c: call_name(c) == 'track_user' and len(c.args) >= 2 and enum_member(c.args[1]) == 'FRIEND')
        tf = eng.func(USERM, 'UserManager.track_friends')
        it = [unparse(g.iter) for n in walk_local(tf.node) if isinstance(n, (ast.ListComp, ast.GeneratorExp)) for g in n.generators] + \
             [unparse(n.iter) for n in walk_local(tf.node) if isinstance(n, ast.For)]
        ok = any(x.endswith('_settings.users.friends') for x in it) and bool(found) and \
            any(not eng.guards_at(uh, c) for c in calls_on(uh.node, 'track_friends'))
        ck.ob('R-C16-ADVERT', tf, tf.node, 'after login every friend of the settings is tracked with reason FRIEND', ok, f'iterates {it}',
              construct='UserManager tracks friends')
    ck.floor('R-C16-ADVERT.handlers', len(hs), 8)

    # ---- login()
    lg = eng.func(CLIENT, 'SoulSeekClient.login')
    ck.visited(lg)
    c = eng.cfg(lg)
    em = [x for x in calls_on(lg.node, 'emit') if 'SessionInitializedEvent' in unparse(x)]
    ck.floor('R-C16-LOGIN', len(em), 1)
    for x in em:
        gs = [(unparse(e), pol) for e, pol, _ in eng.guards_at(lg, x)]
        # the local that holds the answer of the server
        rsp = {unparse(n_.targets[0]) for n_ in walk_local(lg.node) if isinstance(n_, ast.Assign) and any(call_name(y_) == 'receive_message_object' for y_ in ast.walk(n_.value))}
        succ = any(isinstance(e_, ast.Attribute) and e_.attr == 'success' and unparse(e_.value) in rsp and p_ for e_, p_, _ in eng.guards_at(lg, x))
        typed = any(isinstance(e_, ast.Call) and call_name(e_) == 'isinstance' and len(e_.args) == 2 and unparse(e_.args[0]) in rsp and
                    unparse(e_.args[1]) == 'Login.Response' and p_ for e_, p_, _ in eng.guards_at(lg, x))
        ck.ob('R-C16-LOGIN', lg, x, 'the session event is emitted only for an accepted Login.Response', succ and typed, f'{gs}', construct='emit on success only')
        st = [s for f, s, v in eng.stores_to_attr('session', [lg])]
        ok = len(st) == 1 and c.nodes_for(st[0])[0] in c.dominators()[c.nodes_for(x)[0]]
        ck.ob('R-C16-LOGIN', lg, x, 'client.session is set BEFORE the post-login burst is emitted (a loss during the burst must find and destroy it)', ok,
              'the store to self.session does not dominate the emit: a CLOSED during the burst sees no session, none is destroyed, and the session '
              'is installed afterwards on a dead connection', construct='session stored before emit')
        ev = next((y for y in ast.walk(x) if isinstance(y, ast.Call) and 'SessionInitializedEvent' in unparse(y.func)), None)
        sv = unparse(expand_aliases(lg, kw(ev, 'session') or ev.args[0])) if ev is not None else ''
        ck.ob('R-C16-LOGIN', lg, x, 'the event carries the session that was stored', sv in ('self.session',) or (st and sv == unparse(expand_aliases(lg, st[0].value))),
              sv[:60], construct='event carries stored session')
        rd = [n for call in calls_on(lg.node, 'start_reader_task') for n in c.nodes_for(call)]
        ok = bool(rd) and c.nodes_for(x)[0] in c.dominators()[rd[0]]
        ck.ob('R-C16-LOGIN', lg, x, 'the server reader starts after the burst', ok, '', construct='reader after emit')

    # ---- R-C16-REFUSE
    ex = eng.func(CLIENT, 'SoulSeekClient.execute')
    ck.visited(ex)
    sends = calls_on(ex.node, 'send') + calls_on(ex.node, 'register_response_future')
    ck.floor('R-C16-REFUSE', len(sends), 2)
    for x in sends:
        ok = any((not pol) and (cmp_atom(e) or ('',))[0] == 'is' and unparse(cmp_atom(e)[1]) == 'self.session' and is_none_const(cmp_atom(e)[2])
                 for e, pol, _ in eng.guards_at(ex, x)) or any((not pol) and unparse(e) == 'not self.session' or pol and unparse(e) == 'self.session'
                                                               for e, pol, _ in eng.guards_at(ex, x))
        ck.ob('R-C16-REFUSE', ex, x, 'execute() does nothing without a session', ok, 'not dominated by the session test', construct=f'execute {call_name(x)} needs session')
    rs = [n for n in walk_local(ex.node) if isinstance(n, ast.Raise) and 'InvalidSessionError' in unparse(n.exc)]
    ck.ob('R-C16-REFUSE', ex, ex.node, 'without a session execute() raises InvalidSessionError', len(rs) == 1, '', construct='execute raises InvalidSessionError')

    # ---- R-C16-DESTROY
    oc = eng.func(CLIENT, 'SoulSeekClient._on_connection_state_changed')
    ck.visited(oc)
    c = eng.cfg(oc)
    em = [x for x in calls_on(oc.node, 'emit')]
    clr = [s for f, s, v in eng.stores_to_attr('session', [oc]) if is_none_const(v)]
    ck.floor('R-C16-DESTROY', min(len(em), len(clr)), 1)
    if em and clr:
        en, cn = c.nodes_for(em[0])[0], c.nodes_for(clr[0])[0]
        ck.ob('R-C16-DESTROY', oc, clr[0], 'the session field is cleared before the destroyed-event is emitted (a re-entrant CLOSED sees no session: exactly once)',
              cn in c.dominators()[en], 'emit is not dominated by the clearing store', construct='clear before emit')
        egs = expanded_guards(eng, oc, em[0])
        gs = [(unparse(e), pol) for e, pol, _ in egs]
        evp = [p_ for p_ in oc.params if p_ != 'self'][0]
        ok = any(isinstance(e, ast.Call) and call_name(e) == 'isinstance' and mentions_name(e, 'ServerConnection') and mentions_name(e, evp) and p for e, p, _ in egs) and \
            any(state_guard(e, p, 'state', {'CLOSED'}) is True for e, p, _ in egs) and \
            any(mentions_attr(e, 'session') and p and not isinstance(e, ast.Compare) or
                (p is False and (cmp_atom(e) or ('',))[0] == 'is' and mentions_attr(e, 'session') and is_none_const(cmp_atom(e)[2])) for e, p, _ in egs)
        ck.ob('R-C16-DESTROY', oc, em[0], 'destroyed iff the server connection reports CLOSED and a session exists', ok and len(gs) == 3, f'{gs}', construct='destroy condition')
        evs = [y for y in ast.walk(em[0]) if isinstance(y, ast.Name)]
        ck.ob('R-C16-DESTROY', oc, em[0], 'SessionDestroyedEvent is the event emitted', 'SessionDestroyedEvent' in unparse(expand_aliases(oc, em[0].args[0])), '',
              construct='destroy event class')
    reg = eng.func(CLIENT, 'SoulSeekClient.register_listeners')
    ok = any(unparse(x.args[0]) == 'ConnectionStateChangedEvent' and unparse(x.args[1]) == 'self._on_connection_state_changed' for x in calls_on(reg.node, 'register'))
    ck.ob('R-C16-DESTROY', reg, reg.node, 'the client listens for connection state changes', ok, '', construct='destroy listener')
    resets = [(USERM, 'UserManager._on_state_changed', 'reset_users', True), (ROOMM, 'RoomManager._on_state_changed', 'reset_rooms', True),
              (USERM, 'UserTrackingManager._on_state_changed', 'stop', True), (DIST, 'DistributedNetwork._on_state_changed', '_reset_server_values', False)]
    CLEARS = {'reset_users': ('UserManager', USERM, ['_users', '_privileged_users']), 'reset_rooms': ('RoomManager', ROOMM, ['_rooms']),
              '_reset_server_values': ('DistributedNetwork', DIST, ['parent_min_speed', 'parent_speed_ratio', 'distributed_alive_interval', 'min_parents_in_cache',
                                                                    'parent_inactivity_timeout'])}

    def guards_ok(f, x, need_closed):
        gs = [(unparse(e), pol) for e, pol, _ in eng.guards_at(f, x)]
        return any('ServerConnection' in g for g, p in gs) and (not need_closed or any('CLOSED' in g and p for g, p in gs)) and \
            not [g for g, p in gs if 'ServerConnection' not in g and 'PeerConnection' not in g and 'CLOSED' not in g and g != 'tasks']
    for rel, q, callee, need_closed in resets:
        f = eng.func(rel, q)
        xs = calls_on(f.node, callee)
        ok = bool(xs) and guards_ok(f, xs[0], need_closed)
        if not xs and callee in CLEARS:
            # the clearing written in place: every field stored under the same guards
            stores_ = {a_: [st_ for _, st_, _v in eng.stores_to_attr(a_, [f])] for a_ in CLEARS[callee][2]}
            ok = all(len(v_) >= 1 and all(guards_ok(f, st_, need_closed) for st_ in v_) for v_ in stores_.values())
        registered = f in eng.res.event_handlers.get('ConnectionStateChangedEvent', [])
        ck.ob('R-C16-DESTROY', f, f.node, f'{q}: server-derived state is cleared ({callee}) when the server connection closes', ok and registered,
              'missing, conditional, or the handler is not registered', construct=f'{q} resets')
    for callee, (cls_, rel_, attrs) in CLEARS.items():
        q = f'{cls_}.{callee}'
        f = eng.repo.find_func(rel_, q)
        if f is None:
            continue        # written in place: checked above
        written = {a for a in attrs if eng.stores_to_attr(a, [f])}
        ck.ob('R-C16-DESTROY', f, f.node, f'{q} clears {attrs}', written == set(attrs), f'cleared {sorted(written)}', construct=f'{q} clears fields')

    from . import defs as _defs_emit
    _defs_emit.event_bus_emit_contains(eng, ck, 'R-C16-DESTROY', 'session creation / destruction and every state report await emit(); an escaping listener failure leaves the life cycle half done')
    # ---- R-C16-RECONNECT
    sc = eng.func(NET, 'Network._on_server_connection_state_changed')
    ck.visited(sc)
    for x in calls_on(sc.node, 'start_server_connection_watchdog'):
        gs = [(unparse(e), pol) for e, pol, _ in eng.guards_at(sc, x)]
        ok = any('CONNECTED' in g and p for g, p in gs) and any(g.endswith('reconnect.auto') and p for g, p in gs) and len(gs) == 2
        ck.ob('R-C16-RECONNECT', sc, x, 'the reconnect watchdog starts on CONNECTED iff reconnect.auto', ok, f'{gs}', construct='watchdog start')
    stops = calls_on(sc.node, 'stop_server_connection_watchdog')
    # decision table over the members of CloseReason: for which reasons is a stop call reached?  Each guard atom that speaks about
    # close_reason (== member, in / not in a literal or named collection) is evaluated per member; other atoms are the CLOSING test.
    cr_enum = eng.repo.find_cls('CloseReason', CONN)
    ALL_REASONS = [t_.id for st_ in cr_enum.node.body if isinstance(st_, ast.Assign) for t_ in st_.targets if isinstance(t_, ast.Name)] if cr_enum else []
    if len(ALL_REASONS) < 5:
        raise AnalysisError('R-C16-RECONNECT: CloseReason members not found')

    def atom_truth(e: ast.AST, pol: bool, member: str) -> Optional[bool]:
        a = cmp_atom(e)
        if not a or not (mentions_name(a[1], 'close_reason') or mentions_name(a[2], 'close_reason')):
            return None
        other = a[2] if mentions_name(a[1], 'close_reason') else a[1]
        if isinstance(other, (ast.Name, ast.Attribute)) and not enum_member(other):
            other = resolve_named_constant(other) or other
        mem = enum_members_in(other) & set(ALL_REASONS)
        if a[0] in ('eq', 'is', 'in'):
            return (member in mem) == pol
        return None
    reasons = set()
    for x in stops:
        gs = eng.guards_at(sc, x)
        closing = any(pol and enum_members_in(e) == {'CLOSING'} for e, pol, _ in gs)
        about = [(e, pol) for e, pol, _ in gs if mentions_name(e, 'close_reason')]
        here = set()
        for mname in ALL_REASONS:
            truths = [atom_truth(e, pol, mname) for e, pol in about]
            if about and all(t_ is True for t_ in truths):
                here.add(mname)
            if any(t_ is None for t_ in truths):
                raise AnalysisError(f'R-C16-RECONNECT: guard on close_reason not understood: {[unparse(e) for e, _ in about]}')
        reasons |= here
        ck.ob('R-C16-RECONNECT', sc, x, 'the watchdog is stopped while CLOSING', closing, '', construct=f'watchdog stop {sorted(here) if here else "?"}')
    ck.ob('R-C16-RECONNECT', sc, sc.node, 'a requested disconnect and a server-side EOF (and nothing else) stop the reconnect watchdog', reasons == {'REQUESTED', 'EOF'},
          f'reasons that stop the watchdog: {sorted(reasons)}' + (' — CONNECT_FAILED is the close reason of the watchdog\'s own failed reconnect attempt: stopping on it '
                                                                 'cancels the watchdog from inside itself after the first failed attempt' if 'CONNECT_FAILED' in reasons else ''),
          construct='watchdog stop reasons')
    wj = eng.func(NET, 'Network._server_connection_watchdog_job')
    for x in calls_on(wj.node, 'connect_server'):
        gs = [(unparse(e), pol) for e, pol, _ in eng.guards_at(wj, x)]
        ok = any('CLOSED' in g and 'state' in g and p for g, p in gs)
        ck.ob('R-C16-RECONNECT', wj, x, 'the watchdog reconnects only a CLOSED server connection', ok, f'{gs}', construct='watchdog reconnects closed')
    # level-triggered: whether to reconnect is decided from the connection's CURRENT state (and settings), never from what the watchdog
    # remembers from earlier ticks -- a failed attempt leaves the connection CLOSED again without any new edge
    ctx_params = [p for p in wj.params if p != 'self']
    own_writes = {t.attr for n in walk_local(wj.node) if isinstance(n, (ast.Assign, ast.AugAssign, ast.AnnAssign))
                  for t in (n.targets if isinstance(n, ast.Assign) else [n.target]) if isinstance(t, ast.Attribute)}
    for x in calls_on(wj.node, 'connect_server'):
        mem = [unparse(e) for e, pol, _ in expanded_guards(eng, wj, x)
               if any(mentions_name(e, p) for p in ctx_params) or any(mentions_attr(e, a) for a in own_writes)]
        ck.ob('R-C16-RECONNECT', wj, x, 'the watchdog is level-triggered: every tick that finds the server connection CLOSED attempts a reconnect; the decision does '
              'not depend on state remembered from earlier ticks (after a failed attempt there is no new edge to wait for)', not mem,
              f'reconnect is conditional on remembered state: {mem}', construct='watchdog level-triggered')
    ck.ob('R-C16-RECONNECT', wj, wj.node, 'a successful reconnect is announced (ServerReconnectedEvent)', 'ServerReconnectedEvent' in unparse(wj.node), '', construct='reconnect event')
    osr = eng.func(CLIENT, 'SoulSeekClient._on_server_reconnected')
    for x in calls_on(osr.node, 'login'):
        gs = [(unparse(e), pol) for e, pol, _ in eng.guards_at(osr, x)]
        ck.ob('R-C16-RECONNECT', osr, x, 'after a reconnect the client logs in again iff reconnect.auto', gs == [('self.settings.network.server.reconnect.auto', True)], f'{gs}',
              construct='relogin')
    ck.floor('R-C16-RECONNECT', len(stops), 1)

    # ---- R-C16-TASKS
    tasks_rule(eng, ck)


# --------------------------------------------------------------------------
LIFECYCLE_ATTRS = ('state', '_is_closing')


def benign_guard(e: ast.AST, pol: bool) -> bool:
    """Guards that do not make a cancel on the stop() path conditional on
    anything but the resource itself or the connection life cycle."""
    s = unparse(e)
    if isinstance(e, ast.Call) and call_name(e) == 'isinstance':
        return True
    if mentions_name(e, 'close_reason') or 'settings' in s or 'reason' in s:
        return False
    if mentions_attr(e, *LIFECYCLE_ATTRS) or mentions_name(e, 'state'):
        return True
    if isinstance(e, (ast.Name, ast.Attribute, ast.NamedExpr)):
        return True          # truthiness of the slot / object itself
    a = cmp_atom(e)
    if a and a[0] == 'is' and is_none_const(a[2]):
        return True
    if isinstance(e, ast.Constant):
        return True
    return False


def tasks_rule(eng: Engine, ck: Check):
    repo = eng.repo
    stop = eng.func(CLIENT, 'SoulSeekClient.stop')
    init = eng.func(CLIENT, 'SoulSeekClient.__init__')
    cli = eng.cls('SoulSeekClient', CLIENT)
    bm = eng.cls('BaseManager', 'base_manager.py')
    # services list
    svc_classes: list[ClassInfo] = []
    svc_attrs: list[str] = []
    for f, st, v in eng.stores_to_attr('services', [init]):
        if isinstance(v, ast.List):
            for el in v.elts:
                svc_attrs.append(unparse(el))
                svc_classes += eng.res.expr_types(el, init)
    ck.floor('R-C16-TASKS.services', len(svc_classes), 6)
    # every manager the client builds that has its own stop() must be a service
    for attr, types in eng.res.attr_types(cli).items():
        for t in types:
            if bm in repo.mro(t) and t is not bm and 'stop' in t.methods:
                ck.ob('R-C16-TASKS', init, init.node, f'{t.name} (client.{attr}) defines stop() and is an element of client.services '
                      '(otherwise stop() never cancels its tasks)', t in svc_classes,
                      f'client.services = {svc_attrs}', construct=f'{t.name} in services')

    # reachability from stop() along calls whose guards are benign
    reach: set[FuncInfo] = set()
    work = [stop]
    while work:
        fn = work.pop()
        if fn in reach:
            continue
        reach.add(fn)
        for call in calls_in(fn.node):
            if any(not benign_guard(e, pol) for e, pol, _ in eng.guards_at(fn, call)):
                continue
            targets: list[FuncInfo] = []
            r = call.func.value if isinstance(call.func, ast.Attribute) else None
            if fn is stop and isinstance(r, ast.Name) and any(isinstance(a, (ast.For, ast.ListComp)) for a in ancestors(call)):
                # `service.stop()` / `svc.store_data()` over client.services -> the concrete service classes
                for t in svc_classes:
                    m = repo.lookup_method(t, call.func.attr)
                    if m is not None:
                        targets.append(m)
            else:
                targets = list(eng.res.callees(call, fn))
                rt = eng.res.expr_types(r, fn) if r is not None else []
                if any(t is bm for t in rt):
                    targets = []
            nm = call_name(call)
            if nm in ('emit', 'emit_sync') and call.args and isinstance(call.args[0], ast.Call):
                ev = attr_chain(call.args[0].func)
                targets += eng.res.event_handlers.get(ev[-1] if ev else '', [])
            for t in targets:
                if t not in reach:
                    work.append(t)
    ck.note(f'{len(reach)} functions reachable from SoulSeekClient.stop() along unconditional / life-cycle guarded calls')

    def cancel_sites(slot: str) -> list[tuple[FuncInfo, ast.Call]]:
        out = []
        for f in repo.all_funcs():
            for c in calls_in(f.node):
                nm = call_name(c)
                if nm == 'cancel' and isinstance(c.func, ast.Attribute):
                    rv = c.func.value
                    if mentions_attr(rv, slot) or (isinstance(rv, ast.Name) and slot_bound(rv.id, c, slot)):
                        out.append((f, c))
                elif nm == 'cancel_task' and c.args and mentions_attr(c.args[0], slot):
                    out.append((f, c))
        return out

    def yields_slot(e: ast.AST, fnode, slot: str, depth: int = 0) -> bool:
        """Does expression `e` (evaluated in function node fnode) denote the slot or a collection containing it?"""
        if mentions_attr(e, slot):
            return True
        if depth > 3:
            return False
        if isinstance(e, ast.Name):
            for n in walk_local(fnode):
                if isinstance(n, ast.Assign) and isinstance(n.targets[0], ast.Name) and n.targets[0].id == e.id and yields_slot(n.value, fnode, slot, depth + 1):
                    return True
                if isinstance(n, ast.Call) and call_name(n) in ('append', 'extend', 'add') and isinstance(n.func.value, ast.Name) and n.func.value.id == e.id \
                        and n.args and yields_slot(n.args[0], fnode, slot, depth + 1):
                    return True
                # `a, b = self._x, self._y`
                if isinstance(n, ast.Assign) and isinstance(n.targets[0], ast.Tuple) and isinstance(n.value, ast.Tuple) and len(n.targets[0].elts) == len(n.value.elts):
                    for t_, v_ in zip(n.targets[0].elts, n.value.elts):
                        if isinstance(t_, ast.Name) and t_.id == e.id and yields_slot(v_, fnode, slot, depth + 1):
                            return True
            return False
        # a compound expression (`[a] if a else [] + ..`, `list(filter(None, (a, b)))`): any local it is built from
        for x in ast.walk(e):
            if isinstance(x, ast.Name) and isinstance(x.ctx, ast.Load) and x is not e and yields_slot(x, fnode, slot, depth + 1):
                return True
        for x in ast.walk(e):
            if isinstance(x, ast.Call) and isinstance(x.func, ast.Attribute):
                fi = getattr(fnode, '_info', None)
                for cal in (eng.res.callees(x, fi) if fi is not None else []):
                    if any(isinstance(r, ast.Return) and r.value is not None and yields_slot(r.value, cal.node, slot, depth + 1) for r in walk_local(cal.node)):
                        return True
        return False

    def slot_bound(name: str, at: ast.AST, slot: str) -> bool:
        fnode = next((a for a in ancestors(at) if isinstance(a, FUNC_NODES)), None)
        for a in ancestors(at):
            if isinstance(a, (ast.For,)) and isinstance(a.target, ast.Name) and a.target.id == name and \
                    (mentions_attr(a.iter, slot) or (fnode is not None and yields_slot(a.iter, fnode, slot))):
                return True
            if isinstance(a, ast.If) and isinstance(a.test, ast.NamedExpr) and a.test.target.id == name and mentions_attr(a.test.value, slot):
                return True
        fn = next((a for a in ancestors(at) if isinstance(a, FUNC_NODES)), None)
        if fn is not None:
            for n in walk_local(fn):
                if isinstance(n, ast.Assign) and isinstance(n.targets[0], ast.Name) and n.targets[0].id == name and mentions_attr(n.value, slot):
                    return True
        return False

    def owned(slot: str, what: str, fn: FuncInfo, node: ast.AST, exception: Optional[str] = None):
        sites = cancel_sites(slot)
        good = []
        for f, c in sites:
            if f in reach and all(benign_guard(e, pol) for e, pol, _ in eng.guards_at(f, c)):
                good.append(f.qualname)
        ok = bool(good) or exception is not None
        detail = (f'cancel sites of `{slot}`: {[f.qualname for f, _ in sites] or "none"}; none of them is reached from SoulSeekClient.stop() '
                  'along calls that do not depend on settings or on the close reason')
        ck.ob('R-C16-TASKS', fn, node, f'{what}: handle kept in `{slot}` and a cancel of it is reached from stop()'
              + (f' [table exception: {exception}]' if exception and not good else ''), ok, detail,
              construct=f'task slot {slot} cancelled from stop()')

    sites = [(f, c) for f in repo.all_funcs() for c in calls_in(f.node) if call_name(c) == 'create_task']
    ck.floor('R-C16-TASKS', len(sites), 14)
    exceptions = {
        '_reader_task': 'per-connection reader: ends by itself on EOF once disconnect() closed the transport; loop condition is `not _is_closing`',
    }
    for f, c in sites:
        ck.visited(f)
        st = enclosing_stmt(c)
        if f.cls is not None and f.cls.name in ('BackgroundTask', 'Timer') and f.name == 'start':
            # generic wrappers: their instances are checked below per slot
            ok = isinstance(st, ast.Assign) and unparse(st.targets[0]) == 'self._task'
            ck.ob('R-C16-TASKS', f, c, f'{f.cls.name}.start keeps the task in self._task', ok, '', construct=f'{f.cls.name}.start slot')
            continue
        if isinstance(st, ast.Expr):
            ck.ob('R-C16-TASKS', f, c, 'the handle of a created task is kept (a dropped handle can never be cancelled by stop())', False,
                  f'`{unparse(st)[:70]}`: fire-and-forget task, still pending when stop() returns', construct=f'{f.qualname} drops task {alpha_key(c)[:50]}')
            continue
        if isinstance(st, ast.Assign):
            tgt = st.targets[0]
            if isinstance(tgt, ast.Attribute):
                owned(tgt.attr, f'{f.qualname} `{unparse(c)[:40]}`', f, c, exceptions.get(tgt.attr))
                continue
            if isinstance(tgt, ast.Name):
                # local that is stored into an attribute slot right away?
                moved = [n for n in walk_local(f.node) if isinstance(n, ast.Assign) and isinstance(n.value, ast.Name) and n.value.id == tgt.id
                         and isinstance(n.targets[0], ast.Attribute)]
                if moved:
                    owned(moved[0].targets[0].attr, f'{f.qualname} `{unparse(c)[:40]}`', f, c, exceptions.get(moved[0].targets[0].attr))
                    continue
                # local: appended to a list attribute? returned? cancelled by the parent on all exits (C11)?
                apps = [a for a in calls_in(f.node) if call_name(a) == 'append' and a.args and unparse(a.args[0]) == tgt.id and
                        isinstance(a.func.value, ast.Attribute)]
                if apps:
                    owned(apps[0].func.value.attr, f'{f.qualname} task list', f, c)
                    continue
                if f.qualname == 'Network._create_peer_connection_race':
                    ck.note(f'{f.qualname}: local attempt task `{tgt.id}` is owned by the race coroutine (checked by R-C11-LOSER)')
                    continue
                ck.ob('R-C16-TASKS', f, c, 'a task kept only in a local is cancelled by its parent or stored in an owner slot', False,
                      f'`{unparse(st)[:70]}`', construct=f'{f.qualname} local task {tgt.id}')
                continue
        if isinstance(st, ast.Return):
            continue
        ck.ob('R-C16-TASKS', f, c, 'task handle storage recognised', False, unparse(st)[:80], construct=f'{f.qualname} unknown storage')
    # BackgroundTask / Timer instances
    inst = []
    for f in repo.all_funcs():
        for n in walk_local(f.node):
            if isinstance(n, (ast.Assign, ast.AnnAssign)) and n.value is not None:
                v = n.value
                calls = [x for x in ast.walk(v) if isinstance(x, ast.Call) and call_name(x) in ('BackgroundTask', 'Timer')]
                tgt = n.targets[0] if isinstance(n, ast.Assign) else n.target
                if calls and isinstance(tgt, ast.Attribute):
                    inst.append((f, n, tgt.attr, call_name(calls[0])))
    ck.floor('R-C16-TASKS.wrappers', len(inst), 9)
    for f, n, slot, kind in inst:
        owned(slot, f'{kind} instance created in {f.qualname}', f, n)
    from . import defs as _defs_c
    _defs_c.cancellation_propagates(eng, ck, 'R-C16-TASKS', 'stop() and the watchdog end library tasks by cancelling them')
    from . import defs as _d16
    _d16.presence_truthiness(eng, ck, 'R-C16-ADVERT', [('Session', 'session.py'), ('BackgroundTask', 'tasks.py')], 'handlers test `if self._session` / `if not self._session` to decide whether there is a logged-in user')
    _d16.enum_members_distinct(eng, ck, 'R-C16-RECONNECT', [('CloseReason', 'network/connection.py'), ('ConnectionState', 'network/connection.py')], 'the reconnect decision distinguishes requested / EOF / lost')
    from .c10 import opened_stream_rule
    opened_stream_rule(eng, ck, 'R-C16-TASKS', 'after stop() returns no connection is open: a connect that a disconnect overtook must not keep its socket')
    _d16.listener_never_awaits_deliverer(eng, ck, 'R-C16-DESTROY', 'the session is destroyed and the server-derived state cleared by listeners of the CLOSED report: each of them has to be reached, whichever task closes the connection')
