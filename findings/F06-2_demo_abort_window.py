"""F06-2: abort of a QUEUED / INCOMPLETE download that has a partial file.

QueuedState.abort / IncompleteState.abort:  cancel tasks -> await _remove_local_file() -> transition(ABORTED).
The file removal really suspends (aiofiles runs it in a thread) while the transfer is still QUEUED / INCOMPLETE and has no task:
a management cycle in that window selects it and starts a new remote-queue attempt that abort() never cancels.
Real TransferManager / Transfer / state machine / aiofiles; fake network only.
"""
import asyncio
import os
import tempfile
from unittest.mock import AsyncMock, Mock

import pytest

from aioslsk.settings import Settings
from aioslsk.transfer.manager import TransferManager
from aioslsk.transfer.model import Transfer, TransferDirection
from aioslsk.transfer.state import TransferState
from aioslsk.user.manager import UserManager

SETTINGS = {'credentials': {'username': 'user0', 'password': 'pass0'}}


class FakeNetwork:
    def __init__(self, fail: bool):
        self.attempts = []
        self.sent = []
        self.fail = fail

    async def send_peer_messages(self, username, *messages, raise_on_error=True):
        self.attempts.append(username)
        await asyncio.sleep(0.2)
        if self.fail:
            from aioslsk.exceptions import PeerConnectionError
            raise PeerConnectionError('peer unreachable')
        self.sent.extend(messages)


def make_manager(fail):
    settings = Settings(**SETTINGS)
    user_manager = UserManager(settings, Mock(), AsyncMock())
    user_manager.track_user = AsyncMock()
    user_manager.untrack_user = AsyncMock()
    event_bus = Mock()
    event_bus.emit = AsyncMock()
    network = FakeNetwork(fail)
    manager = TransferManager(settings, event_bus, user_manager, AsyncMock(), network)
    return manager, network


def negotiation_tasks():
    return [t for t in asyncio.all_tasks() if t.get_name().startswith(('queue-remotely', 'initialize-')) and not t.done()]


@pytest.mark.asyncio
@pytest.mark.parametrize('start_state', ['QUEUED', 'INCOMPLETE'])
@pytest.mark.parametrize('peer_fails', [False, True])
async def test_abort_with_partial_file_is_final(start_state, peer_fails):
    manager, network = make_manager(peer_fails)
    with tempfile.TemporaryDirectory() as d:
        path = os.path.join(d, 'file.mp3')
        open(path, 'wb').write(b'x' * 1000)
        transfer = await manager.download('peer0', '@@abc\\file.mp3')
        transfer.local_path = path
        transfer.filesize = 5000
        transfer.bytes_transfered = 1000
        if start_state == 'INCOMPLETE':
            await transfer.state.initialize()
            await transfer.state.start_transferring()
            await transfer.state.incomplete()
        assert transfer.state.VALUE.name == start_state
        assert negotiation_tasks() == []

        # the window: run a management cycle as soon as abort() is suspended in the file removal
        async def cycle_in_window():
            while transfer._state_lock.locked() is False:
                await asyncio.sleep(0)
            manager.manage_transfers()
        user_call = asyncio.create_task(manager.abort(transfer))
        await asyncio.sleep(0)          # abort() took the lock and is in aiofiles (thread)
        assert transfer._state_lock.locked()
        manager.manage_transfers()      # e.g. requested by a status update of the peer / another transfer
        await user_call
        assert transfer.state.VALUE == TransferState.ABORTED
        started = len(network.attempts)
        assert negotiation_tasks() == [], 'a remote-queue attempt started during abort() is still running after abort() returned'
        await asyncio.sleep(0.5)
        assert network.sent == [], 'PeerTransferQueue was sent for an aborted download'
        assert transfer.state.VALUE == TransferState.ABORTED, f'the aborted download became {transfer.state.VALUE.name} by itself'
        assert transfer.remotely_queued is False
