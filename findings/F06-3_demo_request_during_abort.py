"""F06-3: a PeerTransferRequest handled while abort() / pause() is still cancelling the remote-queue attempt.

QueuedState.abort / pause:  `await _cancel_transfer_tasks()` (cancel + gather the tasks that existed at that moment) -> ... -> transition.
The cancelled `_queue_remotely` attempt may need real time to wind down (a half-made peer connection is disconnected in its
`except BaseException` handler).  Until the transition the download is still QUEUED and `_transfer_task` is None, so
`_on_peer_transfer_request` accepts the uploader's request and starts `_initialize_download`.  That task was not in the list abort
cancelled; its `await transfer.state.initialize()` waits for the lock, is REFUSED by the ABORTED/PAUSED state -- and the refusal is
ignored: the task sets the filesize, sends PeerTransferReply(allowed=True) and waits for the file connection, after abort() returned.
Real TransferManager / Transfer / state machine; fake network only.
"""
import asyncio
from unittest.mock import AsyncMock, Mock

import pytest

from aioslsk.protocol.messages import PeerTransferReply, PeerTransferRequest
from aioslsk.settings import Settings
from aioslsk.transfer.manager import TransferManager
from aioslsk.transfer.model import TransferDirection
from aioslsk.transfer.state import TransferState
from aioslsk.user.manager import UserManager

SETTINGS = {'credentials': {'username': 'user0', 'password': 'pass0'}}


class SlowToCancelNetwork:
    """send_peer_messages hangs (peer connect in flight) and needs a few loop turns to clean up when it is cancelled."""

    def __init__(self):
        self.cleaning_up = asyncio.Event()

    async def send_peer_messages(self, username, *messages, raise_on_error=True):
        try:
            await asyncio.sleep(30)
        except asyncio.CancelledError:
            self.cleaning_up.set()
            # e.g. `await connection.disconnect()` of the half-made connection
            for _ in range(5):
                try:
                    await asyncio.sleep(0.02)
                except asyncio.CancelledError:
                    pass
            raise

    def create_peer_response_future(self, *a, **kw):
        return asyncio.get_running_loop().create_future()

    def register_response_future(self, *a, **kw):
        pass


def make_manager():
    settings = Settings(**SETTINGS)
    user_manager = UserManager(settings, Mock(), AsyncMock())
    user_manager.track_user = AsyncMock()
    user_manager.untrack_user = AsyncMock()
    event_bus = Mock()
    event_bus.emit = AsyncMock()
    network = SlowToCancelNetwork()
    manager = TransferManager(settings, event_bus, user_manager, AsyncMock(), network)
    return manager, network


def negotiation_tasks():
    return [t for t in asyncio.all_tasks() if t.get_name().startswith(('queue-remotely', 'initialize-')) and not t.done()]


@pytest.mark.asyncio
@pytest.mark.parametrize('operation', ['abort', 'pause'])
async def test_request_during_cancellation_is_not_accepted(operation):
    manager, network = make_manager()
    transfer = await manager.download('peer0', '@@abc\\file.mp3')
    manager.manage_transfers()                      # starts the remote-queue attempt
    await asyncio.sleep(0.05)
    assert [t.get_name()[:14] for t in negotiation_tasks()] == ['queue-remotely']

    connection = Mock()
    connection.username = 'peer0'
    connection.send_message = AsyncMock()
    connection.queue_message = Mock()
    request = PeerTransferRequest.Request(direction=TransferDirection.DOWNLOAD.value, ticket=1234, filename='@@abc\\file.mp3', filesize=5000)

    user_call = asyncio.create_task(getattr(manager, operation)(transfer))
    await network.cleaning_up.wait()                # abort()/pause() is awaiting the cancelled attempt; state is still QUEUED
    assert transfer.state.VALUE == TransferState.QUEUED
    await manager._on_peer_transfer_request(request, connection)      # the uploader is ready right now
    await user_call
    final = TransferState.ABORTED if operation == 'abort' else TransferState.PAUSED
    assert transfer.state.VALUE == final

    await asyncio.sleep(0.2)
    accepted = [c.args[0] for c in connection.send_message.await_args_list if isinstance(c.args[0], PeerTransferReply.Request) and c.args[0].allowed]
    assert negotiation_tasks() == [], f'{[t.get_name() for t in negotiation_tasks()]} still running after {operation}() returned'
    assert accepted == [], f'PeerTransferReply(allowed=True) was sent for a transfer that is {final.name}'
    assert transfer.state.VALUE == final
    for t in negotiation_tasks():
        t.cancel()
