"""F16-6 / F15-4: the server connection is closed by a WRITE ERROR on a message that a user-tracking worker sends.

UserTrackingManager._tracking_task -> _request_tracking -> Network.send_server_messages(AddUser) = asyncio.gather(send_message(..)):
the send runs in a CHILD task T of the gather the worker W awaits.  drain() fails -> DataConnection._send -> disconnect(WRITE_ERROR)
-> set_state(CLOSED) -> Network.on_state_changed -> EventBus.emit: every listener is awaited INSIDE T.
UserTrackingManager._on_state_changed (one of the first listeners) cancels all workers and then awaits them:
    tasks = self.stop();  await asyncio.gather(*self.stop(), return_exceptions=True)
W is waiting for its gather, the gather for T, T (this listener) for W: the listener never returns.  Consequences on the real code:
  * no listener registered after the tracking manager is told CLOSED: the rooms / users are not reset, SoulSeekClient does not destroy
    the session, nothing reconnects (property C16: "when the server connection is lost the session is destroyed exactly once and all
    server-derived state is cleared", for each close reason);
  * the worker never ends, its entry stays in _tracked_users, later track / untrack calls for that user are queued to it and never
    handled (property C15: "no track or untrack call is ever lost ... everything is dropped when the server connection closes").
Real EventBus, Network, ServerConnection, UserManager / UserTrackingManager; only the transport is a stand-in whose drain() raises.
Run:  PYTHONPATH=/repo/src /venv/bin/python -m pytest -q -p no:cacheprovider findings/F16-6_demo_write_error_in_tracking_worker.py
(the assertions state the PROPERTY: the test FAILS on the pinned tree)
"""
import asyncio

import pytest

from aioslsk.events import ConnectionStateChangedEvent, EventBus
from aioslsk.network.connection import ConnectionState, ServerConnection
from aioslsk.network.network import Network
from aioslsk.settings import Settings
from aioslsk.user.manager import UserManager
from aioslsk.user.model import TrackingFlag

SETTINGS = {'credentials': {'username': 'user0', 'password': 'pass0'}}


class ResetTransport:
    """a stream whose peer reset the connection: write() is accepted, drain() raises"""

    def __init__(self):
        self.closed = False

    def write(self, data):
        pass

    async def drain(self):
        raise ConnectionResetError('reset by peer')

    def close(self):
        self.closed = True

    def is_closing(self):
        return self.closed

    async def wait_closed(self):
        await asyncio.sleep(0)

    def get_extra_info(self, *a, **k):
        return None


@pytest.mark.asyncio
async def test_closed_reaches_every_listener_and_tracking_stays_usable():
    settings = Settings(**SETTINGS)
    bus = EventBus()
    network = Network(settings, bus)
    users = UserManager(settings, bus, network)
    tracking = users._tracking_manager
    late = []

    async def late_listener(event):     # stands for RoomManager / SearchManager / ServerManager / SoulSeekClient (session destruction)
        late.append(event.state)
    bus.register(ConnectionStateChangedEvent, late_listener)

    conn = ServerConnection('localhost', 2416, network)
    network.server_connection = conn
    conn._writer = ResetTransport()
    conn._reader = object()
    conn.state = ConnectionState.CONNECTED

    request = tracking.track_user(users.get_user_object('someone'), TrackingFlag.REQUESTED)
    worker = tracking._tracked_users['someone'].task
    await asyncio.sleep(0.3)

    problems = []
    if conn.state != ConnectionState.CLOSED:
        problems.append(f'connection state is {conn.state}')
    if ConnectionState.CLOSED not in late:
        problems.append(f'a listener registered after the tracking manager was told {[s.name for s in late]}, never CLOSED')
    if not worker.done():
        problems.append('the tracking worker was cancelled 0.3 s ago and has still not ended (it waits for the send, the send for the listener, the listener for it)')
    if 'someone' in tracking._tracked_users and tracking._tracked_users['someone'].task is worker:
        problems.append('its entry is still registered: later track / untrack calls for this user go to a worker that will never handle them')
    # (the loop's shutdown cancels the leftover tasks; on the pinned tree that recurses through the cycle of waiters and logs a
    # RecursionError -- part of the same defect, not of the demonstration)
    assert not problems, '; '.join(problems)
