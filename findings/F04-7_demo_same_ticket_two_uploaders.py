"""F04-7: two uploaders announce their transfer with the SAME ticket; the file connection of the one is handed to the download of the other.

A PeerTransferRequest carries a ticket chosen by the UPLOADER (every aioslsk client counts from 2 after a start; nothing makes tickets of
different peers distinct).  TransferManager._initialize_download parks a future for the uploader's file connection in
`_file_connection_futures[request.ticket]` -- keyed by the ticket alone -- and `_on_peer_initialized` resolves
`_file_connection_futures[ticket]` for whatever 'F' connection presents that ticket, without looking at who connected.
Two downloads from two users whose requests arrive in the same window with the same ticket: the second registration replaces the first
future; the first uploader's file connection resolves the SECOND download's future.  That download sends its offset to the wrong peer
and stores the wrong peer's bytes under its own name; when the foreign file is at least as long it ends COMPLETE with foreign content
(property C04: "a download is reported COMPLETE only if the local file is byte-identical to the remote file").  The first download
never gets its connection and goes back to the queue after the 60 s timeout.
Real TransferManager / Transfer / state machine; the peers are stand-ins; `_download_file` is observed (wrapped), not replaced by logic.
Run:  PYTHONPATH=/repo/src /venv/bin/python -m pytest -q -p no:cacheprovider findings/F04-7_demo_same_ticket_two_uploaders.py
"""
import asyncio
from unittest.mock import AsyncMock, Mock

import pytest

from aioslsk.events import PeerInitializedEvent
from aioslsk.network.connection import PeerConnectionType
from aioslsk.protocol.messages import PeerTransferRequest
from aioslsk.settings import Settings
from aioslsk.transfer.manager import TransferManager
from aioslsk.transfer.model import TransferDirection
from aioslsk.user.manager import UserManager

SETTINGS = {'credentials': {'username': 'user0', 'password': 'pass0'}}


def make_manager():
    settings = Settings(**SETTINGS)
    user_manager = UserManager(settings, Mock(), AsyncMock())
    user_manager.track_user = AsyncMock()
    user_manager.untrack_user = AsyncMock()
    event_bus = Mock()
    event_bus.emit = AsyncMock()
    network = AsyncMock()
    shares = AsyncMock()
    manager = TransferManager(settings, event_bus, user_manager, shares, network)
    return manager


def message_connection(username):
    c = Mock()
    c.username = username
    c.send_message = AsyncMock()
    c.queue_message = Mock()
    return c


def file_connection(username, ticket):
    c = Mock()
    c.username = username
    c.connection_type = PeerConnectionType.FILE
    c.receive_transfer_ticket = AsyncMock(return_value=ticket)
    c.send_message = AsyncMock()
    c.disconnect = AsyncMock()
    c.hostname, c.port = '1.2.3.4', 1234
    return c


@pytest.mark.asyncio
async def test_file_connection_reaches_the_download_of_the_peer_that_opened_it():
    manager = make_manager()
    handed = []                                    # (transfer.username, connection.username) for every started data phase

    async def observe(transfer, connection):
        handed.append((transfer.username, connection.username))
    manager._download_file = observe               # observation point: which connection is the download given
    manager._calculate_offset = AsyncMock(return_value=0)

    t_alice = await manager.download('alice', '@@a\\music\\song.mp3')
    t_bob = await manager.download('bob', '@@b\\other\\tune.mp3')
    TICKET = 2                                     # both uploaders have just started: their first ticket
    await manager._on_peer_transfer_request(
        PeerTransferRequest.Request(direction=TransferDirection.DOWNLOAD.value, ticket=TICKET, filename=t_alice.remote_path, filesize=1000), message_connection('alice'))
    await asyncio.sleep(0.05)
    await manager._on_peer_transfer_request(
        PeerTransferRequest.Request(direction=TransferDirection.DOWNLOAD.value, ticket=TICKET, filename=t_bob.remote_path, filesize=1000), message_connection('bob'))
    await asyncio.sleep(0.05)

    # alice's uploader opens its file connection first and presents its ticket
    await manager._on_peer_initialized(PeerInitializedEvent(file_connection('alice', TICKET), requested=False))
    await asyncio.sleep(0.05)
    await manager._on_peer_initialized(PeerInitializedEvent(file_connection('bob', TICKET), requested=False))
    await asyncio.sleep(0.05)

    wrong = [h for h in handed if h[0] != h[1]]
    for t in asyncio.all_tasks():
        if t is not asyncio.current_task():
            t.cancel()
    assert not wrong, f'a download was given the file connection of another peer: {wrong} (download of, connection from)'
    assert sorted(handed) == [('alice', 'alice'), ('bob', 'bob')], f'data phases started: {handed}'
