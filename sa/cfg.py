"""Statement-level control-flow graph with exception and cancellation edges.

Every `await` / `async with` / `async for` is a *suspension node*: besides its
normal successor it has a `cancel` edge (asyncio.CancelledError raised at that
point) routed to the innermost handler that catches CancelledError /
BaseException / bare `except`, through every enclosing `finally`, else to
EXIT_CANCEL.  Statements that contain a call or an await (and every statement
inside a `try` body) have an `exc` edge routed likewise for `Exception`.
`finally` bodies are copied once per continuation kind so that control leaves
them the way it came in.  Branches get explicit `assume(test, polarity)` nodes,
so that "guard G holds at node N" is "an assume node for G dominates N".
"""
from __future__ import annotations
import ast
from collections import deque
from typing import Callable, Iterable, Optional

from .astx import FUNC_NODES, walk_local, unparse, call_name, attr_chain

LOG_RECEIVERS = {'logger', 'adapter', 'logging'}

BUILTIN_EXC_PARENTS = {
    'BaseException': None, 'Exception': 'BaseException', 'CancelledError': 'BaseException',
    'KeyboardInterrupt': 'BaseException', 'SystemExit': 'BaseException', 'GeneratorExit': 'BaseException',
    'OSError': 'Exception', 'IOError': 'Exception', 'TimeoutError': 'OSError', 'ConnectionError': 'OSError',
    'ConnectionResetError': 'ConnectionError', 'BrokenPipeError': 'ConnectionError',
    'FileExistsError': 'OSError', 'PermissionError': 'OSError',
    'ValueError': 'Exception', 'UnicodeDecodeError': 'ValueError', 'UnicodeError': 'ValueError',
    'KeyError': 'LookupError', 'IndexError': 'LookupError', 'LookupError': 'Exception',
    'TypeError': 'Exception', 'AttributeError': 'Exception', 'RuntimeError': 'Exception',
    'NotImplementedError': 'RuntimeError', 'StopIteration': 'Exception', 'AssertionError': 'Exception',
    'InvalidStateError': 'Exception', 'IncompleteReadError': 'Exception', 'QueueFull': 'Exception',
    'QueueEmpty': 'Exception', 'error': 'Exception', 'MutagenError': 'Exception',
}
# repo exception hierarchy is added by Engine (sa.engine) via register_exception_classes
EXC_PARENTS = dict(BUILTIN_EXC_PARENTS)


def register_exception_class(name: str, parent: str):
    # the repo shadows the builtin FileNotFoundError with its own (FileError) class
    EXC_PARENTS[name] = parent


def exc_ancestors(name: str) -> list[str]:
    out = []
    cur: Optional[str] = name
    seen = set()
    while cur is not None and cur not in seen:
        seen.add(cur)
        out.append(cur)
        cur = EXC_PARENTS.get(cur, 'Exception' if cur not in ('BaseException',) else None)
        if cur == name:
            break
    if out[-1] != 'BaseException':
        out.append('BaseException')
    return out


def handler_type_names(h: ast.ExceptHandler) -> list[str]:
    """Names caught by a handler; [] for a bare except (catches everything)."""
    if h.type is None:
        return []
    elts = h.type.elts if isinstance(h.type, ast.Tuple) else [h.type]
    names = []
    for e in elts:
        ch = attr_chain(e)
        names.append(ch[-1] if ch else unparse(e))
    return names


def handler_catches(h: ast.ExceptHandler, kind: str, exc_type: Optional[str] = None) -> str:
    """'no' | 'may' | 'must' for an exception of `kind` ('exc' = some Exception
    of unknown/known class, 'cancel' = asyncio.CancelledError)."""
    names = handler_type_names(h)
    if not names:
        return 'must'
    if kind == 'cancel':
        return 'must' if any(n in ('CancelledError', 'BaseException') for n in names) else 'no'
    # kind == 'exc'
    if 'BaseException' in names or 'Exception' in names:
        return 'must'
    if exc_type is not None:
        anc = exc_ancestors(exc_type)
        if any(n in anc for n in names):
            return 'must'
        # a handler for a subclass may catch it if the raised object is of that subclass
        if any(exc_type in exc_ancestors(n) for n in names if n in EXC_PARENTS):
            return 'may'
        return 'no'
    if all(n == 'CancelledError' for n in names):
        return 'no'
    return 'may'


class Node:
    __slots__ = ('id', 'kind', 'ast', 'succ', 'pred', 'polarity', 'suspends', 'info', 'copy_of')

    def __init__(self, nid: int, kind: str, node: Optional[ast.AST] = None, polarity: Optional[bool] = None, info=None):
        self.id = nid
        self.kind = kind          # entry | stmt | test | assume | loop | with_enter | with_exit | handler | noraise | exit_return | exit_raise | exit_cancel | join
        self.ast = node
        self.succ: list[tuple['Node', str]] = []
        self.pred: list[tuple['Node', str]] = []
        self.polarity = polarity
        self.suspends = False
        self.info = info
        self.copy_of = None

    @property
    def lineno(self) -> int:
        return getattr(self.ast, 'lineno', 0) if self.ast is not None else 0

    def __repr__(self):
        t = ''
        if self.ast is not None:
            t = unparse(self.ast).split('\n')[0][:60]
        pol = '' if self.polarity is None else ('+' if self.polarity else '-')
        return f'<{self.id}:{self.kind}{pol}@{self.lineno} {t}>'


class _TryFrame:
    def __init__(self, handlers: list[tuple[ast.ExceptHandler, Node]]):
        self.handlers = handlers


class _FinallyFrame:
    def __init__(self, body: list[ast.stmt]):
        self.body = body
        self.copies: dict = {}


class _LoopFrame:
    def __init__(self, head: Node):
        self.head = head
        self.breaks: list[Node] = []


class _HandlerFrame:
    """We are inside the body of an except handler (for bare `raise`)."""
    def __init__(self, handler: ast.ExceptHandler):
        self.handler = handler


class _FuncFrame:
    pass


def stmt_raises(st: ast.AST) -> tuple[bool, bool]:
    """(may raise Exception, is suspension point) for the *own* expressions of a
    statement (not nested blocks)."""
    exc = susp = False
    for n in _own_exprs(st):
        for x in walk_local(n):
            if isinstance(x, ast.Await):
                susp = exc = True
            elif isinstance(x, ast.Call):
                f = x.func
                recv = attr_chain(f)
                if recv and recv[0] in LOG_RECEIVERS:
                    continue
                exc = True
            elif isinstance(x, (ast.Yield, ast.YieldFrom)):
                exc = True
    return exc, susp


def _own_exprs(st: ast.AST) -> list[ast.AST]:
    if isinstance(st, (ast.If, ast.While)):
        return [st.test]
    if isinstance(st, (ast.For, ast.AsyncFor)):
        return [st.iter]
    if isinstance(st, (ast.With, ast.AsyncWith)):
        return [i.context_expr for i in st.items]
    if isinstance(st, ast.Try):
        return []
    if isinstance(st, FUNC_NODES) or isinstance(st, ast.ClassDef):
        return list(getattr(st, 'decorator_list', []))
    if isinstance(st, ast.expr):
        return [st]
    return [c for c in ast.iter_child_nodes(st) if isinstance(c, ast.expr)]


class CFG:
    def __init__(self, func: ast.AST):
        self.func = func
        self.nodes: list[Node] = []
        self.entry = self._new('entry')
        self.exit_return = self._new('exit_return')
        self.exit_raise = self._new('exit_raise')
        self.exit_cancel = self._new('exit_cancel')
        self.frames: list = [_FuncFrame()]
        self.by_ast: dict[int, list[Node]] = {}
        self._in_try_body = 0
        frontier = self._block(func.body, [self.entry])
        for n in frontier:
            self._edge(n, self.exit_return, 'next')
        self._dom: Optional[dict[Node, set[Node]]] = None

    # ---------------------------------------------------------------- build
    def _new(self, kind: str, node: Optional[ast.AST] = None, polarity=None, info=None) -> Node:
        n = Node(len(self.nodes), kind, node, polarity, info)
        self.nodes.append(n)
        if node is not None:
            self.by_ast.setdefault(id(node), []).append(n)
        return n

    def _edge(self, a: Node, b: Node, label: str):
        if (b, label) not in a.succ:
            a.succ.append((b, label))
            b.pred.append((a, label))

    def _connect(self, srcs: Iterable[Node], dst: Node, label: str = 'next'):
        for s in srcs:
            self._edge(s, dst, label)

    def _route(self, srcs: list[Node], kind: str, label: str, exc_type: Optional[str] = None,
               top: Optional[int] = None):
        """Route a non-local exit of `kind` (exc | cancel | return | break | continue)
        from `srcs` outward through the frame stack."""
        i = len(self.frames) - 1 if top is None else top
        while i >= 0 and srcs:
            fr = self.frames[i]
            if isinstance(fr, _TryFrame) and kind in ('exc', 'cancel'):
                caught = False
                for h, entry in fr.handlers:
                    m = handler_catches(h, kind, exc_type)
                    if m != 'no':
                        self._connect(srcs, entry, label)
                    if m == 'must':
                        caught = True
                        break
                if caught:
                    return
            elif isinstance(fr, _FinallyFrame):
                key = (kind, exc_type)
                if key not in fr.copies:
                    saved, saved_try = self.frames, self._in_try_body
                    self.frames = self.frames[:i]
                    self._in_try_body = sum(isinstance(f, _TryFrame) for f in self.frames)
                    head = self._new('join', None, info=('finally', kind))
                    exits = self._block(fr.body, [head])
                    self.frames, self._in_try_body = saved, saved_try
                    fr.copies[key] = (head, exits)
                head, exits = fr.copies[key]
                self._connect(srcs, head, label)
                srcs, label = list(exits), 'next'
            elif isinstance(fr, _LoopFrame) and kind in ('break', 'continue'):
                if kind == 'continue':
                    self._connect(srcs, fr.head, label)
                else:
                    fr.breaks.extend(srcs)
                return
            elif isinstance(fr, _FuncFrame):
                tgt = {'exc': self.exit_raise, 'cancel': self.exit_cancel, 'return': self.exit_return}.get(kind)
                if tgt is not None:
                    self._connect(srcs, tgt, label)
                return
            i -= 1

    def _raise_edges(self, n: Node, st: ast.AST, force_exc: bool = False):
        exc, susp = stmt_raises(st)
        if susp:
            n.suspends = True
            self._route([n], 'cancel', 'cancel')
        if exc or force_exc or (self._in_try_body and not isinstance(st, (ast.Pass, ast.Break, ast.Continue))):
            self._route([n], 'exc', 'exc')

    def _block(self, stmts: list[ast.stmt], frontier: list[Node]) -> list[Node]:
        for st in stmts:
            if not frontier:
                break       # unreachable code after return/raise
            frontier = self._stmt(st, frontier)
        return frontier

    def _stmt(self, st: ast.stmt, frontier: list[Node]) -> list[Node]:
        if isinstance(st, ast.If):
            t = self._new('test', st.test)
            self._connect(frontier, t)
            self._raise_edges(t, st)
            at = self._new('assume', st.test, True)
            af = self._new('assume', st.test, False)
            self._edge(t, at, 'next')
            self._edge(t, af, 'next')
            out = self._block(st.body, [at])
            out += self._block(st.orelse, [af]) if st.orelse else [af]
            return out
        if isinstance(st, ast.While):
            t = self._new('test', st.test)
            self._connect(frontier, t)
            self._raise_edges(t, st)
            lf = _LoopFrame(t)
            const_true = isinstance(st.test, ast.Constant) and bool(st.test.value)
            at = self._new('assume', st.test, True)
            self._edge(t, at, 'next')
            self.frames.append(lf)
            body_out = self._block(st.body, [at])
            self.frames.pop()
            self._connect(body_out, t)
            out: list[Node] = []
            if not const_true:
                af = self._new('assume', st.test, False)
                self._edge(t, af, 'next')
                out = self._block(st.orelse, [af]) if st.orelse else [af]
            return out + lf.breaks
        if isinstance(st, (ast.For, ast.AsyncFor)):
            h = self._new('loop', st)
            self._connect(frontier, h)
            if isinstance(st, ast.AsyncFor):
                h.suspends = True
                self._route([h], 'cancel', 'cancel')
                self._route([h], 'exc', 'exc')
            else:
                self._raise_edges(h, st)
            lf = _LoopFrame(h)
            self.frames.append(lf)
            body_in = self._new('join', None, info=('loop_body', st))
            self._edge(h, body_in, 'next')
            body_out = self._block(st.body, [body_in])
            self.frames.pop()
            self._connect(body_out, h)
            done = self._new('join', None, info=('loop_done', st))
            self._edge(h, done, 'next')
            out = self._block(st.orelse, [done]) if st.orelse else [done]
            return out + lf.breaks
        if isinstance(st, (ast.With, ast.AsyncWith)):
            e = self._new('with_enter', st)
            self._connect(frontier, e)
            timeout_only = all(isinstance(i.context_expr, ast.Call) and call_name(i.context_expr) in ('atimeout', 'timeout')
                               for i in st.items)
            if isinstance(st, ast.AsyncWith) and timeout_only:
                pass        # entering an async_timeout block neither suspends nor raises
            elif isinstance(st, ast.AsyncWith):
                e.suspends = True
                self._route([e], 'cancel', 'cancel')
                self._route([e], 'exc', 'exc')
            else:
                self._raise_edges(e, st)
            out = self._block(st.body, [e])
            x = self._new('with_exit', st)
            self._connect(out, x)
            # __exit__/__aexit__ may raise (async_timeout converts to TimeoutError here)
            self._route([x], 'exc', 'exc')
            return [x] if out else []
        if isinstance(st, ast.Try) or st.__class__.__name__ == 'TryStar':
            return self._try(st, frontier)
        if isinstance(st, FUNC_NODES) or isinstance(st, ast.ClassDef):
            n = self._new('stmt', st)
            self._connect(frontier, n)
            return [n]
        n = self._new('stmt', st)
        self._connect(frontier, n)
        if isinstance(st, ast.Return):
            self._raise_edges(n, st)
            self._route([n], 'return', 'next')
            return []
        if isinstance(st, ast.Raise):
            exc, susp = stmt_raises(st)
            if susp:
                n.suspends = True
                self._route([n], 'cancel', 'cancel')
            if st.exc is None:
                # bare re-raise: the kinds the enclosing handler catches
                hf = next((f for f in reversed(self.frames) if isinstance(f, _HandlerFrame)), None)
                kinds = {'exc'}
                if hf is not None:
                    names = handler_type_names(hf.handler)
                    kinds = set()
                    if not names or 'BaseException' in names:
                        kinds = {'exc', 'cancel'}
                    else:
                        if 'CancelledError' in names:
                            kinds.add('cancel')
                        if any(x != 'CancelledError' for x in names):
                            kinds.add('exc')
                for k in sorted(kinds):
                    self._route([n], k, k)
            else:
                tname = None
                e = st.exc.func if isinstance(st.exc, ast.Call) else st.exc
                ch = attr_chain(e)
                if ch:
                    tname = ch[-1]
                if tname == 'CancelledError':
                    self._route([n], 'cancel', 'cancel')
                else:
                    self._route([n], 'exc', 'exc', exc_type=tname if tname in EXC_PARENTS else None)
            return []
        if isinstance(st, ast.Break):
            self._route([n], 'break', 'next')
            return []
        if isinstance(st, ast.Continue):
            self._route([n], 'continue', 'next')
            return []
        self._raise_edges(n, st, force_exc=isinstance(st, ast.Assert))
        return [n]

    def _try(self, st, frontier: list[Node]) -> list[Node]:
        fin: Optional[_FinallyFrame] = None
        if st.finalbody:
            fin = _FinallyFrame(st.finalbody)
            self.frames.append(fin)
        handlers = [(h, self._new('handler', h)) for h in st.handlers]
        if handlers:
            self.frames.append(_TryFrame(handlers))
            self._in_try_body += 1
        head = self._new('join', None, info=('try', st))
        self._connect(frontier, head)
        body_out = self._block(st.body, [head])
        if handlers:
            self.frames.pop()
            self._in_try_body -= 1
        # else clause: runs only if the body raised nothing
        if body_out:
            nr = self._new('noraise', st)
            self._connect(body_out, nr)
            body_out = self._block(st.orelse, [nr]) if st.orelse else [nr]
        outs = list(body_out)
        for h, entry in handlers:
            self.frames.append(_HandlerFrame(h))
            saved = self._in_try_body
            self._in_try_body = sum(isinstance(f, _TryFrame) for f in self.frames)
            outs += self._block(h.body, [entry])
            self._in_try_body = saved
            self.frames.pop()
        if fin is not None:
            self.frames.pop()
            # normal completion runs the finally body with the outer frames
            saved = self._in_try_body
            self._in_try_body = sum(isinstance(f, _TryFrame) for f in self.frames)
            if outs:
                fhead = self._new('join', None, info=('finally', 'normal'))
                self._connect(outs, fhead)
                outs = self._block(st.finalbody, [fhead])
            self._in_try_body = saved
        return outs

    # ------------------------------------------------------------- queries
    def nodes_for(self, node: ast.AST) -> list[Node]:
        """CFG nodes whose statement/test *is or contains* the given AST node."""
        direct = self.by_ast.get(id(node))
        if direct:
            return list(direct)
        # find the enclosing statement/test that is a CFG node
        cur = node
        while cur is not None:
            got = self.by_ast.get(id(cur))
            if got:
                # for compound statements only the header expression belongs to the node
                return list(got)
            cur = getattr(cur, '_parent', None)
            if cur is self.func:
                break
        return []

    def exits(self) -> list[Node]:
        return [self.exit_return, self.exit_raise, self.exit_cancel]

    def reachable_nodes(self) -> set[Node]:
        return self.reach_from([self.entry])

    def reach_from(self, starts: Iterable[Node], avoid: Callable[[Node], bool] = lambda n: False,
                   edge_ok: Callable[[Node, Node, str], bool] = lambda a, b, l: True) -> set[Node]:
        seen: set[Node] = set()
        dq = deque(starts)
        while dq:
            n = dq.popleft()
            if n in seen:
                continue
            seen.add(n)
            if avoid(n) and n not in starts:
                continue
            for s, lab in n.succ:
                if s not in seen and edge_ok(n, s, lab):
                    dq.append(s)
        return seen

    def find_path(self, starts: Iterable[Node], goal: Callable[[Node], bool],
                  avoid: Callable[[Node], bool] = lambda n: False,
                  edge_ok: Callable[[Node, Node, str], bool] = lambda a, b, l: True) -> Optional[list[tuple[Node, str]]]:
        """Shortest path (BFS) from any start to a node satisfying goal, never
        continuing *through* a node for which avoid() holds."""
        starts = list(starts)
        prev: dict[Node, tuple[Optional[Node], str]] = {s: (None, '') for s in starts}
        dq = deque(starts)
        while dq:
            n = dq.popleft()
            if goal(n) and n not in starts:
                path = []
                cur: Optional[Node] = n
                while cur is not None:
                    p, lab = prev[cur]
                    path.append((cur, lab))
                    cur = p
                return list(reversed(path))
            if avoid(n):
                continue
            for s, lab in n.succ:
                if s not in prev and edge_ok(n, s, lab):
                    prev[s] = (n, lab)
                    dq.append(s)
        return None

    def dominators(self) -> dict[Node, set[Node]]:
        if self._dom is not None:
            return self._dom
        reach = self.reachable_nodes()
        order = [n for n in self.nodes if n in reach]
        dom: dict[Node, set[Node]] = {n: set(order) for n in order}
        dom[self.entry] = {self.entry}
        changed = True
        while changed:
            changed = False
            for n in order:
                if n is self.entry:
                    continue
                preds = [p for p, _ in n.pred if p in reach]
                if not preds:
                    continue
                new = set.intersection(*(dom[p] for p in preds)) | {n}
                if new != dom[n]:
                    dom[n] = new
                    changed = True
        self._dom = dom
        return dom

    def path_condition(self, n: Node) -> list[Node]:
        """assume / handler / noraise nodes that dominate n (in id order)."""
        dom = self.dominators().get(n, set())
        return sorted((d for d in dom if d.kind in ('assume', 'handler', 'noraise') and d is not n),
                      key=lambda d: d.id)

    def suspension_between(self, a: Node, b: Node) -> Optional[Node]:
        """A suspension node S (other than a and b) lying on some path a -> S -> b
        that does not pass through a again (a guard that is re-evaluated on the
        way is a fresh guard)."""
        fwd = self.reach_from([a], avoid=lambda n: n is b or n is a)
        cache = self.__dict__.setdefault('_sb_cache', {})
        for s in sorted(fwd, key=lambda n: n.id):
            if s.suspends and s is not a and s is not b:
                key = (s.id, a.id)
                if key not in cache:
                    cache[key] = self.reach_from([s], avoid=lambda n: n is a)
                if b in cache[key]:
                    return s
        return None

    def describe_path(self, path: list[tuple[Node, str]], func_where: Callable[[int], str]) -> str:
        parts = []
        for n, lab in path:
            if n.kind in ('join',):
                continue
            tag = f'[{lab}]' if lab in ('exc', 'cancel') else ''
            if n.kind.startswith('exit'):
                parts.append(f'{tag}{n.kind.upper()}')
            else:
                parts.append(f'{tag}{n.lineno}')
        return ' -> '.join(parts)


_CFG_CACHE: dict[int, CFG] = {}


def cfg_of(func_node: ast.AST) -> CFG:
    c = _CFG_CACHE.get(id(func_node))
    if c is None:
        c = _CFG_CACHE[id(func_node)] = CFG(func_node)
    return c
