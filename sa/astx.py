"""Small AST helpers shared by all rules."""
from __future__ import annotations
import ast
from typing import Iterator, Optional

FUNC_NODES = (ast.FunctionDef, ast.AsyncFunctionDef)
SCOPE_NODES = (ast.FunctionDef, ast.AsyncFunctionDef, ast.ClassDef, ast.Lambda)


def walk_local(node: ast.AST, include_root: bool = True) -> Iterator[ast.AST]:
    """ast.walk that does not descend into nested function / class / lambda
    scopes (the root itself may be such a scope: its body is walked)."""
    stack = [node]
    first = True
    while stack:
        n = stack.pop()
        if not first and isinstance(n, SCOPE_NODES):
            continue
        if include_root or not first:
            yield n
        first = False
        stack.extend(reversed(list(ast.iter_child_nodes(n))))


def walk_with_lambdas(node: ast.AST) -> Iterator[ast.AST]:
    """Like walk_local but does descend into lambdas and comprehensions
    (they execute in the same activation for our purposes)."""
    stack = [node]
    first = True
    while stack:
        n = stack.pop()
        if not first and isinstance(n, (ast.FunctionDef, ast.AsyncFunctionDef, ast.ClassDef)):
            continue
        yield n
        first = False
        stack.extend(reversed(list(ast.iter_child_nodes(n))))


def unparse(node: Optional[ast.AST]) -> str:
    if node is None:
        return ''
    try:
        return ast.unparse(node)
    except Exception:  # pragma: no cover
        return ast.dump(node)


def attr_chain(expr: ast.AST) -> Optional[list[str]]:
    """`self._network.peer_connections` -> ['self','_network','peer_connections'];
    None if the expression is not a pure Name/Attribute chain."""
    parts: list[str] = []
    cur = expr
    while isinstance(cur, ast.Attribute):
        parts.append(cur.attr)
        cur = cur.value
    if isinstance(cur, ast.Name):
        parts.append(cur.id)
        return list(reversed(parts))
    return None


def chain_str(expr: ast.AST) -> Optional[str]:
    c = attr_chain(expr)
    return '.'.join(c) if c else None


def call_name(call: ast.AST) -> Optional[str]:
    """Last component of the callee: `a.b.c(...)` -> 'c', `f(...)` -> 'f'."""
    if not isinstance(call, ast.Call):
        return None
    f = call.func
    if isinstance(f, ast.Attribute):
        return f.attr
    if isinstance(f, ast.Name):
        return f.id
    return None


def call_receiver(call: ast.Call) -> Optional[ast.AST]:
    return call.func.value if isinstance(call.func, ast.Attribute) else None


def callee_chain(call: ast.Call) -> Optional[str]:
    return chain_str(call.func)


def mentions_attr(node: ast.AST, *names: str) -> bool:
    return any(isinstance(n, ast.Attribute) and n.attr in names for n in ast.walk(node))


def mentions_name(node: ast.AST, *names: str) -> bool:
    return any(isinstance(n, ast.Name) and n.id in names for n in ast.walk(node))


def mentions(node: ast.AST, *names: str) -> bool:
    return mentions_attr(node, *names) or mentions_name(node, *names)


def names_in(node: ast.AST) -> set[str]:
    return {n.id for n in ast.walk(node) if isinstance(n, ast.Name)}


def attrs_in(node: ast.AST) -> set[str]:
    return {n.attr for n in ast.walk(node) if isinstance(n, ast.Attribute)}


def calls_in(node: ast.AST, local: bool = True) -> list[ast.Call]:
    it = walk_with_lambdas(node) if local else ast.walk(node)
    return [n for n in it if isinstance(n, ast.Call)]


def calls_named(node: ast.AST, *names: str) -> list[ast.Call]:
    return [c for c in calls_in(node) if call_name(c) in names]


def has_await(node: ast.AST) -> bool:
    return any(isinstance(n, (ast.Await, ast.AsyncWith, ast.AsyncFor)) for n in walk_local(node))


def kw(call: ast.Call, name: str) -> Optional[ast.AST]:
    for k in call.keywords:
        if k.arg == name:
            return k.value
    return None


def arg(call: ast.Call, pos: int, name: Optional[str] = None) -> Optional[ast.AST]:
    """Positional-or-keyword argument."""
    if name is not None:
        v = kw(call, name)
        if v is not None:
            return v
    if pos < len(call.args) and not any(isinstance(a, ast.Starred) for a in call.args[:pos + 1]):
        return call.args[pos]
    return None


def const(node: Optional[ast.AST]):
    if isinstance(node, ast.Constant):
        return node.value
    if isinstance(node, ast.UnaryOp) and isinstance(node.op, ast.USub) and isinstance(node.operand, ast.Constant):
        return -node.operand.value
    return None


def loc(node: ast.AST) -> int:
    return getattr(node, 'lineno', 0)


def parent(node: ast.AST) -> Optional[ast.AST]:
    return getattr(node, '_parent', None)


def ancestors(node: ast.AST) -> Iterator[ast.AST]:
    p = parent(node)
    while p is not None:
        yield p
        p = parent(p)


def enclosing_stmt(node: ast.AST) -> ast.stmt:
    cur = node
    while cur is not None and not isinstance(cur, ast.stmt):
        cur = parent(cur)
    return cur  # type: ignore[return-value]


def enclosing_func(node: ast.AST):
    for a in ancestors(node):
        if isinstance(a, FUNC_NODES):
            return a
    return None


def is_terminating(body: list[ast.stmt]) -> bool:
    """Block always leaves the enclosing statement list (return/raise/continue/break at the end,
    or an if/else whose two arms both terminate)."""
    if not body:
        return False
    last = body[-1]
    if isinstance(last, (ast.Return, ast.Raise, ast.Continue, ast.Break)):
        return True
    if isinstance(last, ast.If) and last.orelse:
        return is_terminating(last.body) and is_terminating(last.orelse)
    return False


def alpha_key(node: ast.AST) -> str:
    """Canonical text of a construct with local names alpha-renamed in order of
    appearance; used to key findings independent of line numbers and local
    variable names. Attribute names and callee names are kept."""
    mapping: dict[str, str] = {}
    keep = {'self', 'cls', 'True', 'False', 'None', 'asyncio', 'os', 're', 'super'}

    class R(ast.NodeTransformer):
        def visit_Name(self, n: ast.Name):
            if n.id in keep or n.id[:1].isupper():
                return n
            if n.id not in mapping:
                mapping[n.id] = f'v{len(mapping)}'
            return ast.copy_location(ast.Name(id=mapping[n.id], ctx=n.ctx), n)

    try:
        fresh = ast.parse(unparse(node))
    except SyntaxError:
        try:
            fresh = ast.parse('(' + unparse(node) + ')')
        except SyntaxError:
            return unparse(node)
    return unparse(R().visit(fresh))


# the Repo currently analysed (set by Engine.__init__); lets syntax helpers resolve class-level constants through the MRO
CURRENT_REPO: list = [None]
