"""Annotation-driven type/callee resolution and the repo call graph."""
from __future__ import annotations
import ast
from typing import Optional

from .astx import (FUNC_NODES, walk_local, walk_with_lambdas, unparse, attr_chain, call_name, kw, arg)
from .loader import Repo, FuncInfo, ClassInfo, AnalysisError


def _ann_class_names(ann: Optional[ast.AST]) -> list[str]:
    """Class names mentioned by an annotation: Optional[X], list[X], 'X', X | None."""
    if ann is None:
        return []
    if isinstance(ann, ast.Constant) and isinstance(ann.value, str):
        try:
            ann = ast.parse(ann.value, mode='eval').body
        except SyntaxError:
            return []
    out = []
    for n in ast.walk(ann):
        if isinstance(n, ast.Name):
            out.append(n.id)
        elif isinstance(n, ast.Attribute):
            ch = attr_chain(n)
            if ch:
                out.append('.'.join(ch))
        elif isinstance(n, ast.Constant) and isinstance(n.value, str):
            out.append(n.value)
    return out


CONTAINER_NAMES = {'Optional', 'Union', 'list', 'set', 'dict', 'tuple', 'deque', 'List', 'Dict', 'Set', 'Tuple',
                   'type', 'ClassVar', 'Callable', 'Awaitable', 'Coroutine', 'Generator', 'None', 'Any', 'str', 'int',
                   'float', 'bool', 'bytes', 'asyncio', 'WeakSet', 'WeakValueDictionary', 'Generic'}


class Resolver:
    def __init__(self, repo: Repo):
        self.repo = repo
        self._attr_types: dict[ClassInfo, dict[str, list[ClassInfo]]] = {}
        self._callees_cache: dict[int, list[FuncInfo]] = {}
        self._graph: Optional[dict[FuncInfo, set[FuncInfo]]] = None
        self._callers: Optional[dict[FuncInfo, list[tuple[FuncInfo, ast.Call, str]]]] = None
        self.unresolved: list[tuple[FuncInfo, ast.Call]] = []

    # ------------------------------------------------------------ types
    def classes_of_annotation(self, ann: Optional[ast.AST], mod) -> list[ClassInfo]:
        out = []
        for nm in _ann_class_names(ann):
            if nm in CONTAINER_NAMES:
                continue
            c = self.repo.resolve_class(nm, mod)
            if c is not None and c not in out:
                out.append(c)
        return out

    def attr_types(self, ci: ClassInfo) -> dict[str, list[ClassInfo]]:
        """instance attribute -> classes, from annotated assignments `self.x: T = ..`
        anywhere in the class (MRO included) and dataclass-style class-body annotations."""
        if ci in self._attr_types:
            return self._attr_types[ci]
        res: dict[str, list[ClassInfo]] = {}
        for c in reversed(self.repo.mro(ci)):
            for st in c.node.body:
                if isinstance(st, ast.AnnAssign) and isinstance(st.target, ast.Name):
                    ts = self.classes_of_annotation(st.annotation, c.module)
                    if ts:
                        res[st.target.id] = ts
            for m in c.methods.values():
                for n in walk_local(m.node):
                    tgt = val = ann = None
                    if isinstance(n, ast.AnnAssign):
                        tgt, val, ann = n.target, n.value, n.annotation
                    elif isinstance(n, ast.Assign) and len(n.targets) == 1:
                        tgt, val = n.targets[0], n.value
                    if tgt is None or not (isinstance(tgt, ast.Attribute) and isinstance(tgt.value, ast.Name)
                                           and tgt.value.id == 'self'):
                        continue
                    ts = self.classes_of_annotation(ann, c.module) if ann is not None else []
                    if not ts and val is not None:
                        ts = self._expr_types_shallow(val, m)
                    if ts and (tgt.attr not in res or ann is not None):
                        res[tgt.attr] = ts
        self._attr_types[ci] = res
        return res

    def _expr_types_shallow(self, e: ast.AST, fn: FuncInfo) -> list[ClassInfo]:
        if isinstance(e, ast.Call):
            nm = attr_chain(e.func)
            if nm:
                c = self.repo.resolve_class(nm[-1], fn.module)
                if c is not None and len(nm) == 1:
                    return [c]
                # self.create_x() style factory with return annotation
                if nm[0] == 'self' and len(nm) == 2 and fn.cls is not None:
                    m = self.repo.lookup_method(fn.cls, nm[1])
                    if m is not None:
                        return self.classes_of_annotation(m.node.returns, m.module)
        if isinstance(e, ast.Name):
            ann = fn.param_annotation(e.id)
            if ann is not None:
                return self.classes_of_annotation(ann, fn.module)
        if isinstance(e, ast.IfExp):
            return self._expr_types_shallow(e.body, fn) or self._expr_types_shallow(e.orelse, fn)
        if isinstance(e, ast.BoolOp):
            for v in e.values:
                t = self._expr_types_shallow(v, fn)
                if t:
                    return t
        return []

    def local_types(self, fn: FuncInfo) -> dict[str, list[ClassInfo]]:
        cache = getattr(fn, '_local_types', None)
        if cache is not None:
            return cache
        res: dict[str, list[ClassInfo]] = {}
        fn._local_types = res  # type: ignore[attr-defined]
        hits_lt = getattr(self, '_guard_hits', 0)
        for p in fn.params:
            ts = self.classes_of_annotation(fn.param_annotation(p), fn.module)
            if ts:
                res[p] = ts
        if fn.cls is not None and fn.params and fn.params[0] in ('self', 'cls'):
            res[fn.params[0]] = [fn.cls]
        for _ in range(2):
            for n in walk_local(fn.node):
                if isinstance(n, ast.AnnAssign) and isinstance(n.target, ast.Name):
                    ts = self.classes_of_annotation(n.annotation, fn.module)
                    if ts:
                        res[n.target.id] = ts
                elif isinstance(n, ast.Assign) and len(n.targets) == 1 and isinstance(n.targets[0], ast.Name):
                    ts = self.expr_types(n.value, fn)
                    if ts and n.targets[0].id not in res:
                        res[n.targets[0].id] = ts
                elif isinstance(n, ast.NamedExpr) and isinstance(n.target, ast.Name):
                    ts = self.expr_types(n.value, fn)
                    if ts and n.target.id not in res:
                        res[n.target.id] = ts
                elif isinstance(n, (ast.For, ast.AsyncFor, ast.comprehension)) and isinstance(n.target, ast.Name):
                    ts = self.expr_types(n.iter, fn, element=True)
                    if ts and n.target.id not in res:
                        res[n.target.id] = ts
                elif isinstance(n, (ast.With, ast.AsyncWith)):
                    for it in n.items:
                        if isinstance(it.optional_vars, ast.Name):
                            ts = self.expr_types(it.context_expr, fn)
                            if ts and it.optional_vars.id not in res:
                                res[it.optional_vars.id] = ts
        if getattr(self, '_guard_hits', 0) != hits_lt:
            # typed while one of the calls it depends on was still being resolved: provisional, compute again next time
            try:
                del fn._local_types  # type: ignore[attr-defined]
            except AttributeError:
                pass
        return res

    def expr_types(self, e: ast.AST, fn: FuncInfo, element: bool = False) -> list[ClassInfo]:
        """Classes an expression may evaluate to (element=True: its elements)."""
        if isinstance(e, ast.Await):
            return self.expr_types(e.value, fn, element)
        if isinstance(e, ast.Name):
            lt = getattr(fn, '_local_types', None)
            if lt is None:
                lt = self.local_types(fn)
            if e.id in lt:
                return lt[e.id]
            c = self.repo.resolve_class(e.id, fn.module)
            return []
        if isinstance(e, ast.Attribute):
            base = self.expr_types(e.value, fn)
            out: list[ClassInfo] = []
            for b in base:
                for t in self.attr_types(b).get(e.attr, []):
                    if t not in out:
                        out.append(t)
                # property with return annotation
                m = self.repo.lookup_method(b, e.attr)
                if m is not None and any(unparse(d) == 'property' for d in m.decorators):
                    for t in self.classes_of_annotation(m.node.returns, m.module):
                        if t not in out:
                            out.append(t)
            return out
        if isinstance(e, ast.Call):
            nm = attr_chain(e.func)
            if nm and len(nm) == 1:
                c = self.repo.resolve_class(nm[0], fn.module)
                if c is not None:
                    return [c]
            out = []
            for cal in self.callees(e, fn):
                for t in self.classes_of_annotation(getattr(cal.node, 'returns', None), cal.module):
                    if t not in out:
                        out.append(t)
            if not out and isinstance(e.func, ast.Attribute) and e.func.attr in ('pop', 'get', 'values', 'popleft', 'copy', 'setdefault', 'popitem'):
                # element of a typed container: `self.requests.pop(ticket)`, `self.requests.values()`
                return self.expr_types(e.func.value, fn, element=True)
            return out
        if isinstance(e, ast.Subscript):
            return self.expr_types(e.value, fn, element=True)
        if isinstance(e, ast.IfExp):
            return self.expr_types(e.body, fn, element) or self.expr_types(e.orelse, fn, element)
        if isinstance(e, (ast.List, ast.Tuple, ast.Set)) and e.elts:
            return self.expr_types(e.elts[0], fn)
        if isinstance(e, ast.ListComp):
            return self.expr_types(e.elt, fn)
        return []

    # ---------------------------------------------------------- callees
    def callees(self, call: ast.Call, fn: FuncInfo) -> list[FuncInfo]:
        got = self._callees_cache.get(id(call))
        if got is not None:
            return got
        prog = self.__dict__.setdefault('_in_progress', set())
        if id(call) in prog:
            # resolving this call needs the types of the locals, and typing the locals needs this call (`x = self.f(); x.m()` asked
            # for `self.f` first): answer "unknown" for now and remember that the answers built on it are provisional
            self._guard_hits = getattr(self, '_guard_hits', 0) + 1
            return []
        prog.add(id(call))
        hits0 = getattr(self, '_guard_hits', 0)
        try:
            res = self._callees(call, fn)
        finally:
            prog.discard(id(call))
        if getattr(self, '_guard_hits', 0) == hits0 or not prog:
            # nothing provisional went into it (or this is the outermost question: by now everything it asked for is settled)
            if getattr(self, '_guard_hits', 0) != hits0:
                res = self._callees(call, fn)
            self._callees_cache[id(call)] = res
        return res

    def _callees(self, call: ast.Call, fn: FuncInfo) -> list[FuncInfo]:
        f = call.func
        repo = self.repo
        if isinstance(f, ast.Name):
            # local nested function, module function, class constructor
            cur: Optional[FuncInfo] = fn
            while cur is not None:
                k = f'{cur.module.rel}:{cur.qualname}.<locals>.{f.id}'
                if k in repo.funcs:
                    return [repo.funcs[k]]
                cur = cur.outer
            k = f'{fn.module.rel}:{f.id}'
            if k in repo.funcs:
                return [repo.funcs[k]]
            imp = fn.module.imports.get(f.id)
            if imp and ':' in imp:
                tm, orig = imp.split(':')
                for m in repo.modules.values():
                    if m.dotted == tm and f'{m.rel}:{orig}' in repo.funcs:
                        return [repo.funcs[f'{m.rel}:{orig}']]
            c = repo.resolve_class(f.id, fn.module)
            if c is not None:
                init = repo.lookup_method(c, '__init__')
                return [init] if init is not None else []
            return []
        if isinstance(f, ast.Attribute):
            name = f.attr
            # super().m()
            if isinstance(f.value, ast.Call) and call_name(f.value) == 'super' and fn.cls is not None:
                for c in repo.mro(fn.cls)[1:]:
                    if name in c.methods:
                        return [c.methods[name]]
                return []
            # Class.method / Outer.Inner(...) constructor
            ch = attr_chain(f)
            if ch and len(ch) == 2 and ch[0] in fn.module.imports:
                # module.function(...) for an imported repo module
                imp = fn.module.imports[ch[0]]
                dotted = imp.replace(':', '.')
                for m in repo.modules.values():
                    if m.dotted == dotted and f'{m.rel}:{name}' in repo.funcs:
                        return [repo.funcs[f'{m.rel}:{name}']]
            if ch:
                c = repo.resolve_class('.'.join(ch), fn.module)
                if c is not None:
                    init = repo.lookup_method(c, '__init__')
                    return [init] if init is not None else []
                c = repo.resolve_class('.'.join(ch[:-1]), fn.module) if len(ch) > 1 else None
                if c is not None and ch[0] in self.local_types(fn) and self.expr_types(f.value, fn):
                    c = None        # a typed local shadows a class / module path of the same spelling (`transfer.state.pause()`)
                if c is not None and ch[0] not in ('self', 'cls'):
                    m = repo.lookup_method(c, name)
                    return [m] if m is not None else []
            types = self.expr_types(f.value, fn)
            out: list[FuncInfo] = []
            for t in types:
                for m in repo.method_impls(t, name):
                    if m not in out:
                        out.append(m)
            if out:
                return out
            if not types:
                # fall back: unique method name in the repo (by-name resolution)
                cands = [x for x in repo.funcs_by_name.get(name, []) if x.cls is not None]
                owners = {x.cls for x in cands}
                if cands and len(owners) <= 3 and name not in COMMON_EXTERNAL_METHODS:
                    return cands
            return []
        return []

    # ------------------------------------------------------- call graph
    def _indirect_targets(self, call: ast.Call, fn: FuncInfo) -> list[tuple[FuncInfo, str]]:
        """Idioms that start / register a function without calling it directly."""
        out: list[tuple[FuncInfo, str]] = []
        nm = call_name(call)

        def ref(e: Optional[ast.AST]) -> list[FuncInfo]:
            if e is None:
                return []
            if isinstance(e, ast.Call) and call_name(e) == 'partial' and e.args:
                return ref(e.args[0])
            if isinstance(e, (ast.Name, ast.Attribute)):
                fake = ast.Call(func=e, args=[], keywords=[])
                return self._callees(fake, fn)
            return []

        if nm == 'create_task' and call.args:
            inner = call.args[0]
            if isinstance(inner, ast.Call):
                out += [(t, 'task') for t in self.callees(inner, fn)]
        elif nm == 'partial' and call.args:
            out += [(t, 'partial') for t in ref(call.args[0])]
        elif nm == 'add_done_callback' and call.args:
            out += [(t, 'callback') for t in ref(call.args[0])]
        elif nm in ('BackgroundTask',):
            out += [(t, 'task') for t in ref(arg(call, 1, 'task_coro'))]
        elif nm == 'Timer':
            out += [(t, 'task') for t in ref(arg(call, 1, 'callback'))]
        elif nm == 'run_in_executor' and len(call.args) >= 2:
            out += [(t, 'executor') for t in ref(call.args[1])]
        elif nm in ('map', 'filter') and call.args:
            out += [(t, 'call') for t in ref(call.args[0])]
        elif nm in ('gather', 'wait', 'wait_for', 'shield'):
            pass
        return out

    def graph(self) -> dict[FuncInfo, set[FuncInfo]]:
        if self._graph is not None:
            return self._graph
        g: dict[FuncInfo, set[FuncInfo]] = {f: set() for f in self.repo.all_funcs()}
        callers: dict[FuncInfo, list[tuple[FuncInfo, ast.Call, str]]] = {f: [] for f in g}
        # event registrations and message handlers
        self.event_handlers: dict[str, list[FuncInfo]] = {}
        self.message_handlers: dict[FuncInfo, list[tuple[str, FuncInfo]]] = {}
        for fn in self.repo.all_funcs():
            for c in (n for n in walk_with_lambdas(fn.node) if isinstance(n, ast.Call)):
                if call_name(c) == 'register' and len(c.args) >= 2:
                    ev = attr_chain(c.args[0])
                    fake = ast.Call(func=c.args[1], args=[], keywords=[])
                    for t in self._callees(fake, fn):
                        self.event_handlers.setdefault(ev[-1] if ev else unparse(c.args[0]), []).append(t)
        self.on_message: dict[str, list[FuncInfo]] = {}
        for fn in self.repo.all_funcs():
            for d in fn.decorators:
                if isinstance(d, ast.Call) and call_name(d) == 'on_message' and d.args:
                    self.on_message.setdefault(unparse(d.args[0]), []).append(fn)
        for fn in self.repo.all_funcs():
            for c in (n for n in walk_with_lambdas(fn.node) if isinstance(n, ast.Call)):
                for t in self.callees(c, fn):
                    g[fn].add(t)
                    callers[t].append((fn, c, 'call'))
                for t, how in self._indirect_targets(c, fn):
                    g[fn].add(t)
                    callers[t].append((fn, c, how))
                nm = call_name(c)
                if nm in ('emit', 'emit_sync') and c.args and isinstance(c.args[0], ast.Call):
                    ev = attr_chain(c.args[0].func)
                    for t in self.event_handlers.get(ev[-1] if ev else '', []):
                        g[fn].add(t)
                        callers[t].append((fn, c, 'event'))
                # self._MESSAGE_MAP[message.__class__](message, connection)
                if isinstance(c.func, ast.Subscript) and 'MESSAGE_MAP' in unparse(c.func.value) and fn.cls is not None:
                    for hs in self.on_message.values():
                        for h in hs:
                            if h.cls is not None and (h.cls is fn.cls or h.cls in self.repo.mro(fn.cls)):
                                g[fn].add(h)
                                callers[h].append((fn, c, 'message'))
        self._graph = g
        self._callers = callers
        return g

    def callers_of(self, fn: FuncInfo) -> list[tuple[FuncInfo, ast.Call, str]]:
        self.graph()
        return self._callers.get(fn, [])  # type: ignore[union-attr]

    def reachable(self, roots: list[FuncInfo], depth: Optional[int] = None) -> set[FuncInfo]:
        g = self.graph()
        seen = set(roots)
        frontier = list(roots)
        d = 0
        while frontier and (depth is None or d < depth):
            nxt = []
            for f in frontier:
                for t in g.get(f, ()):
                    if t not in seen:
                        seen.add(t)
                        nxt.append(t)
            frontier = nxt
            d += 1
        return seen

    def may_reach_call(self, fn: FuncInfo, pred, depth: int = 3, _seen=None) -> bool:
        """Does fn (or a callee up to `depth`) contain a call satisfying pred(call, func)?"""
        _seen = _seen if _seen is not None else set()
        if fn in _seen:
            return False
        _seen.add(fn)
        for c in (n for n in walk_with_lambdas(fn.node) if isinstance(n, ast.Call)):
            if pred(c, fn):
                return True
        if depth <= 0:
            return False
        for t in self.graph().get(fn, ()):
            if self.may_reach_call(t, pred, depth - 1, _seen):
                return True
        return False


COMMON_EXTERNAL_METHODS = {
    'append', 'add', 'remove', 'pop', 'get', 'items', 'keys', 'values', 'extend', 'update', 'copy', 'cancel',
    'start', 'stop', 'close', 'read', 'write', 'send', 'put_nowait', 'get_nowait', 'set', 'clear', 'wait',
    'result', 'done', 'sort', 'index', 'lower', 'format', 'split', 'join', 'encode', 'decode', 'search', 'match',
    'connect', 'disconnect', 'serialize', 'deserialize', 'debug', 'info', 'warning', 'exception', 'error',
    'set_result', 'set_exception', 'add_done_callback', 'register', 'emit', 'discard', 'startswith', 'endswith',
    'queue', 'abort', 'pause', 'fail', 'complete', 'initialize', 'incomplete', 'apply', 'should_be_applied',
    'accept', 'load_data', 'store_data', 'empty', 'seek', 'pack', 'unpack', 'unpack_from', 'shutdown', 'is_empty',
    'refill', 'take_tokens', 'add_tokens', 'copy_tokens', 'runner', 'reschedule', 'is_running', 'name',
}
