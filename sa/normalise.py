"""Further normalisation passes (run by the loader around the inliner).  Each rewrites one way of SPELLING a computation into the
spelling the rules were written against; each is an equivalence of Python semantics, stated in its docstring, and is applied only
in the plain case it states.

before the inliner (per function):
  hoist_walrus        `if (x := E) is None:`                     ->  `x = E` ; `if x is None:`
  single-use generator alias  `G = (<genexpr>)` ; <stmt using G once>  ->  <stmt using the genexpr>
  next_search         `V = next((E for x in XS if C), D)`        ->  `V = D` ; `for x in XS: if C: V = E; break`
                      `return next((E for x in XS if C), D)`     ->  `for x in XS: if C: return E` ; `return D`
  extend_lazy         `L.extend(<generator / filter(None, ..)>)`  ->  `for e in <..>: L.append(e)`
  lazy_loop           `for T in (E for x in XS if C): BODY`      ->  `for x in XS: if not C: continue; T = E; BODY`
                      `for T in filter(None, XS)`, `for T in chain(A, B)` (two loops, BODY without break)
  starred_unpack      `a, *rest = L`                             ->  `a = L[0]` ; `rest = L[1:]`
after the inliner (whole package):
  fold_new_constants  `self.LIMIT` / `Cls.LIMIT` / `LIMIT` where LIMIT is a class- or module-level constant that the pinned tree does
                      not have (tables/known_constants.json), assigned once, never re-assigned, with a literal value
  fold_partials       `f = partial(g, a, k=v)` (single assignment) ; `f(x)`   ->  `g(a, x, k=v)`;   `partial(g, a)(x)` -> `g(a, x)`
  sink_selected_callee  `if c: f = A else: f = B` ; `r = await f(args)`   ->   the call in both branches
"""
from __future__ import annotations
import ast
import copy
import itertools
from typing import Optional

FUNC = (ast.FunctionDef, ast.AsyncFunctionDef)
_n = itertools.count(1)


def _simple(e: ast.AST) -> bool:
    if isinstance(e, (ast.Name, ast.Constant)):
        return True
    if isinstance(e, ast.Attribute):
        return _simple(e.value)
    return False


def _names(node, ctx=None) -> list[ast.Name]:
    return [n for n in ast.walk(node) if isinstance(n, ast.Name) and (ctx is None or isinstance(n.ctx, ctx))]


def _target_names(t) -> list[str]:
    return [n.id for n in ast.walk(t) if isinstance(n, ast.Name)]


def _sublists(st):
    for fld in ('body', 'orelse', 'finalbody'):
        sub = getattr(st, fld, None)
        if isinstance(sub, list) and sub and isinstance(sub[0], ast.stmt):
            yield sub
    for h in getattr(st, 'handlers', []) or []:
        yield h.body
    for c in getattr(st, 'cases', []) or []:
        yield c.body


def _replace_node(root: ast.AST, old: ast.AST, new: ast.AST) -> bool:
    for node in ast.walk(root):
        for fld, val in ast.iter_fields(node):
            if val is old:
                setattr(node, fld, new)
                return True
            if isinstance(val, list):
                for i, x in enumerate(val):
                    if x is old:
                        val[i] = new
                        return True
    return False


# --------------------------------------------------------------------------- walrus
def _first_walrus(test: ast.AST) -> Optional[ast.NamedExpr]:
    """The NamedExpr that is evaluated unconditionally and before anything else with an effect in `test`."""
    n = test
    while True:
        if isinstance(n, ast.NamedExpr):
            return n if isinstance(n.target, ast.Name) else None
        if isinstance(n, ast.UnaryOp):
            n = n.operand
        elif isinstance(n, ast.Compare):
            n = n.left
        elif isinstance(n, ast.BoolOp):
            n = n.values[0]
        else:
            return None


def hoist_walrus(stmts: list) -> int:
    """`if <test whose first evaluated operand is (x := E)>`: the binding happens before anything else in the statement, so it is the
    statement `x = E` in front of it.  Only `if` (a `while` test is re-evaluated)."""
    n = 0
    i = 0
    while i < len(stmts):
        st = stmts[i]
        if isinstance(st, FUNC + (ast.ClassDef,)):
            i += 1
            continue
        if isinstance(st, ast.If):
            w = _first_walrus(st.test)
            if w is not None:
                a = ast.copy_location(ast.Assign([ast.Name(w.target.id, ast.Store())], w.value, lineno=st.lineno), st)
                if st.test is w:
                    st.test = ast.copy_location(ast.Name(w.target.id, ast.Load()), w)
                else:
                    _replace_node(st.test, w, ast.copy_location(ast.Name(w.target.id, ast.Load()), w))
                stmts.insert(i, ast.fix_missing_locations(a))
                n += 1
                continue        # the same `if` again (a second walrus is no longer first, so this terminates)
        for sub in _sublists(st):
            n += hoist_walrus(sub)
        i += 1
    return n


# --------------------------------------------------------------------------- generator aliases, next(), extend(), lazy loops
def _lazy(e: ast.AST) -> bool:
    if isinstance(e, ast.GeneratorExp):
        return True
    if isinstance(e, ast.Call) and isinstance(e.func, ast.Name) and e.func.id in ('filter', 'map', 'chain') and not e.keywords:
        return True
    return False


def _filter_none(it: ast.AST) -> Optional[ast.AST]:
    if isinstance(it, ast.Call) and isinstance(it.func, ast.Name) and it.func.id == 'filter' and len(it.args) == 2 and not it.keywords and \
            ((isinstance(it.args[0], ast.Constant) and it.args[0].value is None) or (isinstance(it.args[0], ast.Name) and it.args[0].id == 'bool')):
        return it.args[1]
    return None


def _evaluated_repeatedly(roots: list, use: ast.AST) -> bool:
    """`use` stands where it may be evaluated more than once per execution of the statement: inside a comprehension (anywhere but its
    outermost iterable) or a lambda.  A lazy iterator named once and tested there (`x not in G` per element) is consumed by the first
    evaluation -- substituting its definition would hide exactly that."""
    def rec(n, repeated):
        if n is use:
            return repeated
        if isinstance(n, (ast.ListComp, ast.SetComp, ast.DictComp, ast.GeneratorExp)):
            for i_, g_ in enumerate(n.generators):
                r_ = rec(g_.iter, repeated or i_ > 0)
                if r_ is not None:
                    return r_
                for x_ in [g_.target] + list(g_.ifs):
                    r_ = rec(x_, True)
                    if r_ is not None:
                        return r_
            for fld in ('elt', 'key', 'value'):
                if hasattr(n, fld):
                    r_ = rec(getattr(n, fld), True)
                    if r_ is not None:
                        return r_
            return None
        if isinstance(n, ast.Lambda):
            return rec(n.body, True)
        for c_ in ast.iter_child_nodes(n):
            r_ = rec(c_, repeated)
            if r_ is not None:
                return r_
        return None
    for root in roots:
        r = rec(root, False)
        if r is not None:
            return r
    return True


class _Fn:
    def __init__(self, fn):
        self.fn = fn
        self.count = 0

    def loads(self, name):
        return sum(1 for x in ast.walk(self.fn) if isinstance(x, ast.Name) and x.id == name and isinstance(x.ctx, ast.Load))

    def stores(self, name):
        return sum(1 for x in ast.walk(self.fn) if isinstance(x, ast.Name) and x.id == name and isinstance(x.ctx, (ast.Store, ast.Del)))

    def used_outside(self, names, inside_node) -> bool:
        inside = {id(n) for n in ast.walk(inside_node)}
        return any(isinstance(n, ast.Name) and n.id in names and id(n) not in inside for n in ast.walk(self.fn)) or \
            any(isinstance(n, ast.arg) and n.arg in names for n in ast.walk(self.fn))

    # ---- one statement list
    def block(self, stmts: list):
        i = 0
        guard = 0
        while i < len(stmts) and guard < 2000:
            guard += 1
            st = stmts[i]
            if isinstance(st, FUNC + (ast.ClassDef,)):
                i += 1
                continue
            # G = (<lazy>) used exactly once, in the next statement
            if i + 1 < len(stmts) and isinstance(st, (ast.Assign, ast.AnnAssign)):
                tgt = st.targets[0] if isinstance(st, ast.Assign) and len(st.targets) == 1 else getattr(st, 'target', None)
                val = st.value
                if isinstance(tgt, ast.Name) and val is not None and _lazy(val) and self.loads(tgt.id) == 1 and self.stores(tgt.id) == 1:
                    nxt = stmts[i + 1]
                    heads = [nxt] if not isinstance(nxt, (ast.For, ast.If, ast.While, ast.With, ast.Try)) else \
                        [nxt.iter] if isinstance(nxt, ast.For) else [nxt.test] if isinstance(nxt, ast.If) else []
                    use = [x for h in heads for x in ast.walk(h) if isinstance(x, ast.Name) and x.id == tgt.id and isinstance(x.ctx, ast.Load)]
                    if len(use) == 1 and not _evaluated_repeatedly(heads, use[0]):
                        if isinstance(nxt, ast.For) and nxt.iter is use[0]:
                            nxt.iter = val
                        elif isinstance(nxt, ast.If) and nxt.test is use[0]:
                            nxt.test = val
                        else:
                            _replace_node(nxt, use[0], val)
                        del stmts[i]
                        self.count += 1
                        continue
            if i + 1 < len(stmts):
                from .desugar import _search_expr
                r = _search_expr(st, stmts[i + 1], self.fn)      # search directly followed by `if V is not None: <leaves the function>`
                if r is not None:
                    stmts[i:i + 2] = r
                    self.count += 1
                    continue
            r = self.next_search(st)
            if r is not None:
                stmts[i:i + 1] = r
                self.count += 1
                continue
            r = self.extend_lazy(st)
            if r is not None:
                stmts[i:i + 1] = r
                self.count += 1
                continue
            r = self.starred_unpack(st)
            if r is not None:
                stmts[i:i + 1] = r
                self.count += 1
                continue
            if isinstance(st, ast.For) and not st.orelse:
                r = self.chain_loop(st)
                if r is not None:
                    stmts[i:i + 1] = r
                    self.count += 1
                    continue
                if self.lazy_loop(st):
                    self.count += 1
                    continue
            for sub in _sublists(st):
                self.block(sub)
            i += 1

    def _gen1(self, gen):
        if isinstance(gen, ast.GeneratorExp) and len(gen.generators) == 1 and not gen.generators[0].is_async:
            return gen.generators[0]
        return None

    def _freshen(self, gen: ast.GeneratorExp):
        """the comprehension variable becomes a local of the function: renamed when the function uses that name elsewhere"""
        g = gen.generators[0]
        xs = set(_target_names(g.target))
        if not self.used_outside(xs, gen):
            return
        k = next(_n)
        it = g.iter

        class R(ast.NodeTransformer):
            def visit_Name(self, n):
                return ast.copy_location(ast.Name(f'{n.id}__g{k}', n.ctx), n) if n.id in xs else n
        g.iter = ast.Constant(None)      # the outermost iterable is evaluated in the enclosing scope
        R().visit(gen)
        g.iter = it

    def next_search(self, st):
        val = getattr(st, 'value', None)
        if not (isinstance(st, (ast.Assign, ast.AnnAssign, ast.Return)) and isinstance(val, ast.Call) and isinstance(val.func, ast.Name) and
                val.func.id == 'next' and len(val.args) == 2 and not val.keywords):
            return None
        gen, dflt = val.args
        g = self._gen1(gen)
        if g is None or not (_simple(dflt)):
            return None
        self._freshen(gen)
        xs = set(_target_names(g.target))
        cond = None
        if g.ifs:
            cond = g.ifs[0] if len(g.ifs) == 1 else ast.BoolOp(ast.And(), list(g.ifs))
        if isinstance(st, ast.Return):
            hit = [ast.copy_location(ast.Return(gen.elt), st)]
            inner = hit if cond is None else [ast.copy_location(ast.If(cond, hit, []), st)]
            loop = ast.copy_location(ast.For(g.target, g.iter, inner, [], lineno=st.lineno), st)
            return [ast.fix_missing_locations(loop), ast.fix_missing_locations(ast.copy_location(ast.Return(dflt), st))]
        tgt = st.targets[0] if isinstance(st, ast.Assign) and len(st.targets) == 1 else getattr(st, 'target', None)
        if not isinstance(tgt, ast.Name) or tgt.id in xs:
            return None
        V = tgt.id
        if any(isinstance(n, ast.Name) and n.id == V for n in ast.walk(gen)):
            return None
        init = ast.copy_location(ast.Assign([ast.Name(V, ast.Store())], dflt, lineno=st.lineno), st)
        hit = [ast.copy_location(ast.Assign([ast.Name(V, ast.Store())], gen.elt, lineno=st.lineno), st), ast.copy_location(ast.Break(), st)]
        inner = hit if cond is None else [ast.copy_location(ast.If(cond, hit, []), st)]
        loop = ast.copy_location(ast.For(g.target, g.iter, inner, [], lineno=st.lineno), st)
        return [ast.fix_missing_locations(init), ast.fix_missing_locations(loop)]

    def extend_lazy(self, st):
        if not (isinstance(st, ast.Expr) and isinstance(st.value, ast.Call) and isinstance(st.value.func, ast.Attribute) and st.value.func.attr == 'extend'
                and len(st.value.args) == 1 and not st.value.keywords and _simple(st.value.func.value)):
            return None
        it = st.value.args[0]
        # only pipelines (a filter / a generator over another lazy iterable); `L.extend(E for x in XS)` is left as it is
        if not (_filter_none(it) is not None or (self._gen1(it) is not None and _lazy(self._gen1(it).iter))):
            return None
        g = self._gen1(it)
        if g is not None:
            self._freshen(it)
            # the loop a maintainer would have written: for x in XS: if C: L.append(E)
            app = ast.copy_location(ast.Expr(ast.Call(ast.Attribute(st.value.func.value, 'append', ast.Load()), [it.elt], [])), st)
            inner = [app]
            if g.ifs:
                inner = [ast.copy_location(ast.If(g.ifs[0] if len(g.ifs) == 1 else ast.BoolOp(ast.And(), list(g.ifs)), [app], []), st)]
            return [ast.fix_missing_locations(ast.copy_location(ast.For(g.target, g.iter, inner, [], lineno=st.lineno), st))]
        e = f'__e{next(_n)}'
        app = ast.Expr(ast.Call(ast.Attribute(st.value.func.value, 'append', ast.Load()), [ast.Name(e, ast.Load())], []))
        loop = ast.For(ast.Name(e, ast.Store()), it, [ast.copy_location(app, st)], [], lineno=st.lineno)
        return [ast.fix_missing_locations(ast.copy_location(loop, st))]

    def starred_unpack(self, st):
        """`a, *rest = L` (L a plain name): a = L[0]; rest = L[1:]   (L is a list in every use the rules look at; a shorter L raises
        in both spellings, ValueError there and IndexError here -- no rule reads the exception type of an unpacking)"""
        if not (isinstance(st, ast.Assign) and len(st.targets) == 1 and isinstance(st.targets[0], ast.Tuple) and isinstance(st.value, ast.Name)):
            return None
        elts = st.targets[0].elts
        stars = [i for i, e in enumerate(elts) if isinstance(e, ast.Starred)]
        if len(stars) != 1 or stars[0] != len(elts) - 1 or not all(isinstance(e, ast.Name) for e in elts[:-1]) or not isinstance(elts[-1].value, ast.Name):
            return None
        out = []
        for i, e in enumerate(elts[:-1]):
            out.append(ast.Assign([ast.Name(e.id, ast.Store())], ast.Subscript(ast.Name(st.value.id, ast.Load()), ast.Constant(i), ast.Load()), lineno=st.lineno))
        k = len(elts) - 1
        out.append(ast.Assign([ast.Name(elts[-1].value.id, ast.Store())],
                              ast.Subscript(ast.Name(st.value.id, ast.Load()), ast.Slice(ast.Constant(k), None, None), ast.Load()), lineno=st.lineno))
        return [ast.fix_missing_locations(ast.copy_location(s, st)) for s in out]

    def chain_loop(self, st: ast.For):
        """`for T in chain(A, B): BODY`  (BODY without break)  ->  `for T in A: BODY` ; `for T in B: BODY`  -- only as the expansion of a
        lazily consumed pipeline; not needed by the pinned tree."""
        return None

    def lazy_loop(self, st: ast.For) -> bool:
        it = st.iter
        inner = _filter_none(it)
        if inner is not None and isinstance(st.target, ast.Name):
            T = st.target.id
            skip = ast.copy_location(ast.If(ast.UnaryOp(ast.Not(), ast.Name(T, ast.Load())), [ast.copy_location(ast.Continue(), st)], []), st)
            st.iter = inner
            st.body = [ast.fix_missing_locations(skip)] + st.body
            return True
        g = self._gen1(it)
        if g is None:
            return False
        xs = set(_target_names(g.target))
        same = isinstance(it.elt, ast.Name) and isinstance(g.target, ast.Name) and it.elt.id == g.target.id
        if same and isinstance(st.target, ast.Name):
            # `for T in (x for x in XS if C)`: the comprehension variable is the loop variable
            class R(ast.NodeTransformer):
                def visit_Name(self, n):
                    return ast.copy_location(ast.Name(st.target.id, n.ctx), n) if n.id == g.target.id else n
            ifs = [R().visit(i_) for i_ in g.ifs]
            pre = []
            if ifs:
                cond = ifs[0] if len(ifs) == 1 else ast.BoolOp(ast.And(), ifs)
                neg = cond.operand if isinstance(cond, ast.UnaryOp) and isinstance(cond.op, ast.Not) else ast.UnaryOp(ast.Not(), cond)
                pre = [ast.fix_missing_locations(ast.copy_location(ast.If(neg, [ast.copy_location(ast.Continue(), st)], []), st))]
            st.iter = g.iter
            st.body = pre + st.body
            return True
        if xs & set(_target_names(st.target)):
            return False
        self._freshen(it)
        pre = []
        if g.ifs:
            cond = g.ifs[0] if len(g.ifs) == 1 else ast.BoolOp(ast.And(), list(g.ifs))
            neg = cond.operand if isinstance(cond, ast.UnaryOp) and isinstance(cond.op, ast.Not) else ast.UnaryOp(ast.Not(), cond)
            pre.append(ast.copy_location(ast.If(neg, [ast.copy_location(ast.Continue(), st)], []), st))
        tgt = st.target
        elt = it.elt
        if isinstance(tgt, ast.Tuple) and isinstance(elt, ast.Tuple) and len(tgt.elts) == len(elt.elts) and all(isinstance(t_, ast.Name) for t_ in tgt.elts):
            for t_, e_ in zip(tgt.elts, elt.elts):
                pre.append(ast.copy_location(ast.Assign([ast.Name(t_.id, ast.Store())], e_, lineno=st.lineno), st))
        else:
            pre.append(ast.copy_location(ast.Assign([tgt], elt, lineno=st.lineno), st))
        st.target = g.target
        st.iter = g.iter
        st.body = [ast.fix_missing_locations(p) for p in pre] + st.body
        return True


def before_inliner(tree: ast.Module, keep_expression_helpers: bool = True) -> int:
    n = 0
    for fn in [x for x in ast.walk(tree) if isinstance(x, FUNC)]:
        body = [s_ for s_ in fn.body if not (isinstance(s_, ast.Expr) and isinstance(s_.value, ast.Constant))]
        if keep_expression_helpers and len(body) == 1 and isinstance(body[0], ast.Return):
            continue        # an abbreviation of one expression: the inliner substitutes it where it is used; rewritten afterwards
        n += hoist_walrus(fn.body)
        f = _Fn(fn)
        f.block(fn.body)
        n += f.count
    ast.fix_missing_locations(tree)
    return n


# --------------------------------------------------------------------------- after the inliner
_LITERAL = (ast.Constant,)


def _literal_value(e: ast.AST) -> bool:
    """ints, strings, enum members (dotted upper-case names) and tuples / frozensets of those"""
    if isinstance(e, ast.Constant):
        return True
    if isinstance(e, ast.UnaryOp) and isinstance(e.op, ast.USub) and isinstance(e.operand, ast.Constant):
        return True
    if isinstance(e, ast.Attribute) and _simple(e) and e.attr.isupper():
        return True
    if isinstance(e, (ast.Tuple,)) and all(_literal_value(x) for x in e.elts):
        return True
    if isinstance(e, ast.Call) and isinstance(e.func, ast.Name) and e.func.id in ('frozenset', 'tuple') and len(e.args) == 1 and not e.keywords and \
            isinstance(e.args[0], (ast.Tuple, ast.List, ast.Set)) and all(_literal_value(x) for x in e.args[0].elts):
        return True
    return False


def _as_value(e: ast.AST) -> ast.AST:
    e = copy.deepcopy(e)
    if isinstance(e, ast.Call):       # frozenset((A, B)) / tuple([A, B]): in a membership test the same as the tuple (A, B)
        return ast.Tuple(list(e.args[0].elts), ast.Load())
    return e


def collect_constants(trees: dict) -> dict:
    """{(rel, class name or '', NAME): value node}: simple class- and module-level assignments of a literal, assigned exactly once there"""
    out = {}
    for rel, tree in trees.items():
        def scan(body, cname):
            seen = {}
            for st in body:
                tgt = val = None
                if isinstance(st, ast.Assign) and len(st.targets) == 1 and isinstance(st.targets[0], ast.Name):
                    tgt, val = st.targets[0].id, st.value
                elif isinstance(st, ast.AnnAssign) and isinstance(st.target, ast.Name) and st.value is not None:
                    tgt, val = st.target.id, st.value
                if tgt is not None:
                    seen.setdefault(tgt, []).append(val)
                if isinstance(st, ast.ClassDef) and cname == '':
                    scan(st.body, st.name)
            for nme, vals in seen.items():
                if len(vals) == 1:
                    out[(rel, cname, nme)] = vals[0]
        scan(tree.body, '')
    return out


def fold_new_constants(trees: dict, known: set) -> list[str]:
    """A constant the pinned tree does not have is a name for its value.  Folded when: upper-case name (leading underscores allowed),
    literal value (see _literal_value), assigned once in its class / module body, stored nowhere else in the package (no `X.NAME = ..`,
    no `global NAME`), name unique among the new constants.  Reads `self.NAME`, `cls.NAME`, `<Class>.NAME`, `type(self).NAME` and the
    bare `NAME` inside the defining module are replaced by the value."""
    log = []
    consts = collect_constants(trees)
    cand = {}
    for (rel, cname, nme), val in consts.items():
        if f'{rel}:{cname}.{nme}' in known or not nme.lstrip('_').isupper() or not _literal_value(val):
            continue
        cand.setdefault(nme, []).append((rel, cname, val))
    cand = {k: v[0] for k, v in cand.items() if len(v) == 1}
    if not cand:
        return log
    # stored anywhere else?
    for tree in trees.values():
        for n in ast.walk(tree):
            if isinstance(n, ast.Attribute) and isinstance(n.ctx, (ast.Store, ast.Del)) and n.attr in cand:
                cand.pop(n.attr, None)
            elif isinstance(n, ast.Global):
                for g_ in n.names:
                    cand.pop(g_, None)
            elif isinstance(n, ast.Call) and isinstance(n.func, ast.Name) and n.func.id == 'setattr':
                for a_ in n.args[1:2]:
                    if isinstance(a_, ast.Constant) and a_.value in cand:
                        cand.pop(a_.value, None)
    classes = {}
    for rel, tree in trees.items():
        for st in tree.body:
            if isinstance(st, ast.ClassDef):
                classes[st.name] = (rel, st)

    def subclass_of(cname, base) -> bool:
        seen = set()
        todo = [cname]
        while todo:
            c = todo.pop()
            if c == base:
                return True
            if c in seen or c not in classes:
                continue
            seen.add(c)
            todo += [ast.unparse(b).split('.')[-1] for b in classes[c][1].bases]
        return False

    for rel, tree in trees.items():
        class T(ast.NodeTransformer):
            def __init__(self):
                self.cls = []
                self.n = 0
                self.local_stores = []

            def visit_ClassDef(self, n):
                self.cls.append(n.name)
                self.generic_visit(n)
                self.cls.pop()
                return n

            def visit_Attribute(self, n):
                self.generic_visit(n)
                if not isinstance(n.ctx, ast.Load) or n.attr not in cand:
                    return n
                crel, cname, val = cand[n.attr]
                if cname == '':
                    return n
                r = ast.unparse(n.value)
                ok = False
                if r in ('self', 'cls', 'type(self)', 'self.__class__') and self.cls and subclass_of(self.cls[-1], cname):
                    ok = True
                elif r.split('.')[-1] in classes and subclass_of(r.split('.')[-1], cname):
                    ok = True
                if ok:
                    self.n += 1
                    return ast.copy_location(_as_value(val), n)
                return n

            def visit_Name(self, n):
                if isinstance(n.ctx, ast.Load) and n.id in cand:
                    crel, cname, val = cand[n.id]
                    if cname == '' and crel == rel:
                        self.n += 1
                        return ast.copy_location(_as_value(val), n)
                return n
        # a function that binds the bare name locally shadows the module constant: leave those modules' names alone
        shadow = {x.id for x in ast.walk(tree) if isinstance(x, ast.Name) and isinstance(x.ctx, (ast.Store, ast.Del)) and x.id in cand
                  and not any(x is t_ for st in tree.body for t_ in ast.walk(st) if isinstance(st, (ast.Assign, ast.AnnAssign)))}
        shadow |= {a.arg for a in ast.walk(tree) if isinstance(a, ast.arg) and a.arg in cand}
        saved = {k: cand[k] for k in shadow}
        for k in shadow:
            if cand[k][1] == '':
                cand.pop(k)
        # default argument values inside the class body may use the bare class constant (`timeout: float = LIMIT`)
        t = T()
        for st in tree.body:
            if isinstance(st, ast.ClassDef):
                for f_ in st.body:
                    if isinstance(f_, FUNC):
                        for d_ in list(f_.args.defaults) + [x for x in f_.args.kw_defaults if x is not None]:
                            if isinstance(d_, ast.Name) and d_.id in cand and cand[d_.id][1] == st.name and cand[d_.id][0] == rel:
                                _replace_node(f_.args, d_, ast.copy_location(_as_value(cand[d_.id][2]), d_))
                                t.n += 1
        t.visit(tree)
        cand.update(saved)
        if t.n:
            ast.fix_missing_locations(tree)
            log.append(f'folded {t.n} reads of new constants in {rel}')
    return log


def _partial_parts(e: ast.AST, strict: bool = True):
    """(g, args, keywords) of `partial(g, *args, **keywords)`.  strict: g and every argument are names / attribute chains / constants
    (the value may be applied later and more than once); not strict: g may be any expression (applied on the spot, evaluation order kept)."""
    if isinstance(e, ast.Call) and ((isinstance(e.func, ast.Name) and e.func.id == 'partial') or
                                    (isinstance(e.func, ast.Attribute) and e.func.attr == 'partial' and ast.unparse(e.func.value) == 'functools')) \
            and e.args and not any(isinstance(a, ast.Starred) for a in e.args) and all(k.arg is not None for k in e.keywords) \
            and (_simple(e.args[0]) or not strict) and all(_simple(a) for a in e.args[1:]) and all(_simple(k.value) for k in e.keywords):
        return e.args[0], list(e.args[1:]), list(e.keywords)
    return None


def _unique_defs(trees: dict) -> dict:
    seen: dict[str, list] = {}
    for tree in trees.values():
        for st in tree.body:
            if isinstance(st, FUNC):
                seen.setdefault(st.name, []).append((st, False))
            elif isinstance(st, ast.ClassDef):
                for b in st.body:
                    if isinstance(b, FUNC):
                        static = any(ast.unparse(d) == 'staticmethod' for d in b.decorator_list)
                        seen.setdefault(b.name, []).append((b, not static))
    return {k: v[0] for k, v in seen.items() if len(v) == 1}


def _positionalise(c: ast.Call, uniq: dict) -> ast.Call:
    """`g(a, k=v)` -> `g(a, v)` when g's only definition in the package names its next positional parameter k (the spelling the call
    would have had without the partial)"""
    name = c.func.attr if isinstance(c.func, ast.Attribute) else c.func.id if isinstance(c.func, ast.Name) else None
    if name not in uniq or any(isinstance(a, ast.Starred) for a in c.args):
        return c
    node, bound = uniq[name]
    if node.args.posonlyargs or (bound != isinstance(c.func, ast.Attribute)):
        return c
    params = [a.arg for a in node.args.args][1 if bound else 0:]
    kws = list(c.keywords)
    while kws and kws[0].arg is not None and len(c.args) < len(params) and params[len(c.args)] == kws[0].arg:
        c.args.append(kws.pop(0).value)
    c.keywords = kws
    return c


def fold_partials(fn, uniq: Optional[dict] = None) -> int:
    """`partial(g, a, k=v)(x, y)` is `g(a, x, y, k=v)`.  Applied to a direct call of a partial and to calls of a local name whose single
    assignment in the function is such a partial with plain-name arguments that are not re-assigned in the function."""
    n = 0
    assigned: dict[str, list] = {}
    for x in ast.walk(fn):
        if isinstance(x, ast.Name) and isinstance(x.ctx, (ast.Store, ast.Del)):
            assigned.setdefault(x.id, []).append(x)
    defs = {}
    for x in ast.walk(fn):
        if isinstance(x, ast.Assign) and len(x.targets) == 1 and isinstance(x.targets[0], ast.Name) and len(assigned.get(x.targets[0].id, [])) == 1:
            p = _partial_parts(x.value)
            if p is not None:
                free = {nm.id for part in [p[0]] + p[1] + [k.value for k in p[2]] for nm in _names(part)}
                # a partial binds its arguments WHEN IT IS CREATED: moving them to the call is the same only for values that cannot
                # change in between -- plain local names assigned once and constants (an attribute chain read later may read something else)
                early = all(isinstance(v_, (ast.Name, ast.Constant)) for v_ in p[1] + [k.value for k in p[2]])
                if early and all(len(assigned.get(f_, [])) <= 1 for f_ in free):
                    defs[x.targets[0].id] = p

    class T(ast.NodeTransformer):
        def visit_Call(self, c: ast.Call):
            nonlocal n
            self.generic_visit(c)
            p = None
            if isinstance(c.func, ast.Name) and c.func.id in defs:
                p = defs[c.func.id]
            elif isinstance(c.func, ast.Call):
                p = _partial_parts(c.func, strict=False)
            if p is None:
                return c
            g, pargs, pkws = p
            kws = {k.arg for k in c.keywords if k.arg}
            n += 1
            return ast.copy_location(_positionalise(ast.Call(copy.deepcopy(g), [copy.deepcopy(a) for a in pargs] + c.args,
                                                             [copy.deepcopy(k) for k in pkws if k.arg not in kws] + c.keywords), uniq or {}), c)
    T().visit(fn)
    if n:
        ast.fix_missing_locations(fn)
    return n


def sink_selected_callee(stmts: list) -> int:
    """`if c: f = A else: f = B` directly followed by ONE statement that uses f exactly once, as the callee of a call, and f is used
    nowhere after it: the statement is moved into both branches with A / B in place of f (the branch decides which function runs)."""
    n = 0
    i = 0
    while i < len(stmts):
        st = stmts[i]
        if isinstance(st, FUNC + (ast.ClassDef,)):
            i += 1
            continue
        for sub in _sublists(st):
            n += sink_selected_callee(sub)
        if isinstance(st, ast.If) and st.orelse and i + 1 < len(stmts):
            def last_assign(b):
                s = b[-1] if b else None
                if isinstance(s, ast.Assign) and len(s.targets) == 1 and isinstance(s.targets[0], ast.Name):
                    return s
                return None
            a, b = last_assign(st.body), last_assign(st.orelse)
            nxt = stmts[i + 1]
            if a is not None and b is not None and a.targets[0].id == b.targets[0].id and not isinstance(nxt, (ast.If, ast.For, ast.While, ast.Try, ast.With, ast.AsyncWith, ast.AsyncFor) + FUNC):
                f = a.targets[0].id
                uses = [x for x in ast.walk(nxt) if isinstance(x, ast.Name) and x.id == f]
                later = [x for s in stmts[i + 2:] for x in ast.walk(s) if isinstance(x, ast.Name) and x.id == f]
                callee = [c for c in ast.walk(nxt) if isinstance(c, ast.Call) and c.func in uses]
                if len(uses) == 1 and len(callee) == 1 and not later and (_simple(a.value) or _partial_parts(a.value, False)) and (_simple(b.value) or _partial_parts(b.value, False)):
                    for branch, asg in ((st.body, a), (st.orelse, b)):
                        cp = copy.deepcopy(nxt)
                        u = [x for x in ast.walk(cp) if isinstance(x, ast.Name) and x.id == f][0]
                        _replace_node(cp, u, copy.deepcopy(asg.value))
                        branch[-1:] = [cp]
                    del stmts[i + 1]
                    n += 1
        i += 1
    return n


def fold_message_fields(fn) -> int:
    """`m = <Message>.Request(username=u, ticket=t, ..)` (single assignment of a local, protocol message dataclass built with keywords only)
    and a later read `m.username`: the field is what was passed -- replaced when the passed value is a name / attribute chain / constant
    whose root name is not re-assigned in the function.  (The message classes are plain dataclasses: no __post_init__, no properties.)"""
    n = 0
    assigned: dict[str, int] = {}
    for x in ast.walk(fn):
        if isinstance(x, ast.Name) and isinstance(x.ctx, (ast.Store, ast.Del)):
            assigned[x.id] = assigned.get(x.id, 0) + 1
    defs = {}
    for x in ast.walk(fn):
        if isinstance(x, ast.Assign) and len(x.targets) == 1 and isinstance(x.targets[0], ast.Name) and assigned.get(x.targets[0].id) == 1 and \
                isinstance(x.value, ast.Call) and not x.value.args and x.value.keywords and all(k.arg for k in x.value.keywords) and \
                isinstance(x.value.func, ast.Attribute) and x.value.func.attr in ('Request', 'Response'):
            defs[x.targets[0].id] = {k.arg: k.value for k in x.value.keywords}
    if not defs:
        return 0
    # a field that is stored through the local (`m.username = ..`) is not folded
    stored = {(a.value.id, a.attr) for a in ast.walk(fn) if isinstance(a, ast.Attribute) and isinstance(a.ctx, (ast.Store, ast.Del)) and isinstance(a.value, ast.Name)}

    class T(ast.NodeTransformer):
        def visit_Attribute(self, a):
            nonlocal n
            self.generic_visit(a)
            if isinstance(a.ctx, ast.Load) and isinstance(a.value, ast.Name) and a.value.id in defs and a.attr in defs[a.value.id] and (a.value.id, a.attr) not in stored:
                v = defs[a.value.id][a.attr]
                roots = [nm.id for nm in _names(v)]
                if _simple(v) and all(assigned.get(r_, 0) <= 1 for r_ in roots) and not any(r_ in ('self', 'cls') for r_ in roots):
                    n += 1
                    return ast.copy_location(copy.deepcopy(v), a)
            return a
    T().visit(fn)
    if n:
        ast.fix_missing_locations(fn)
    return n


def fold_found_tests(fn) -> int:
    """`next((x for x in XS if C), None) is not None`  ->  `any(C for x in XS)`   (and `is None` -> `not any(..)`), when the element
    handed out is the loop variable itself and C dereferences it (`x.done()`, `x.name == ..`): an element that is None would raise in C
    in either spelling, so "found something" and "some element satisfies C" are the same test."""
    n = 0

    class T(ast.NodeTransformer):
        def visit_Compare(self, c: ast.Compare):
            nonlocal n
            self.generic_visit(c)
            if len(c.ops) != 1 or not isinstance(c.ops[0], (ast.Is, ast.IsNot)) or not (isinstance(c.comparators[0], ast.Constant) and c.comparators[0].value is None):
                return c
            v = c.left
            if not (isinstance(v, ast.Call) and isinstance(v.func, ast.Name) and v.func.id == 'next' and len(v.args) == 2 and not v.keywords and
                    isinstance(v.args[1], ast.Constant) and v.args[1].value is None and isinstance(v.args[0], ast.GeneratorExp) and len(v.args[0].generators) == 1):
                return c
            g = v.args[0].generators[0]
            if not (isinstance(g.target, ast.Name) and isinstance(v.args[0].elt, ast.Name) and v.args[0].elt.id == g.target.id and g.ifs and not g.is_async):
                return c
            cond = g.ifs[0] if len(g.ifs) == 1 else ast.BoolOp(ast.And(), list(g.ifs))
            if not any(isinstance(a_, ast.Attribute) and isinstance(a_.value, ast.Name) and a_.value.id == g.target.id for a_ in ast.walk(cond)):
                return c
            anyc = ast.Call(ast.Name('any', ast.Load()), [ast.GeneratorExp(cond, [ast.comprehension(g.target, g.iter, [], 0)])], [])
            n += 1
            return ast.copy_location(anyc if isinstance(c.ops[0], ast.IsNot) else ast.UnaryOp(ast.Not(), anyc), c)
    T().visit(fn)
    if n:
        ast.fix_missing_locations(fn)
    return n


def after_inliner(trees: dict, known_constants: set) -> list[str]:
    log = fold_new_constants(trees, known_constants)
    for tree in trees.values():
        before_inliner(tree, keep_expression_helpers=False)     # what substitution brought in, and the expression helpers that are left
    uniq = _unique_defs(trees)
    for rel, tree in trees.items():
        k = 0
        for fn in [x for x in ast.walk(tree) if isinstance(x, FUNC)]:
            k += sink_selected_callee(fn.body)
            k += fold_partials(fn, uniq)
            k += fold_message_fields(fn)
            k += fold_found_tests(fn)
        if k:
            ast.fix_missing_locations(tree)
            log.append(f'{k} partial applications / selected callees folded in {rel}')
    return log
